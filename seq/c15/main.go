// C15: the registry (grpchan.HandlerMap and the two transports delegating to
// it) under every sequence of register / query / iterate / info operations.
//
// Explicit-state BFS over REAL objects: a successor is computed by building a
// fresh carrier, replaying the shortest path to the state on it, and applying
// one more operation. The canonical state key is derived from the real object
// (carrier + sorted names it reports); the reference model is a Go map.
package main

import (
	"context"
	"fmt"
	"io"
	"net/http/httptest"
	"os"
	"reflect"
	"sort"
	"strings"
	"sync/atomic"
	"time"

	"github.com/fullstorydev/grpchan"
	"github.com/fullstorydev/grpchan/httpgrpc"
	"github.com/fullstorydev/grpchan/inprocgrpc"
	"google.golang.org/grpc"
	"google.golang.org/protobuf/types/known/emptypb"
	"google.golang.org/protobuf/types/known/wrapperspb"

	"verif/seq/common"
	"verif/vlib"
)

// ---------------------------------------------------------------- the pool

type svc0 interface{ Svc0() }
type svc1 interface{ Svc1() }
type svc2 interface{ Svc2() }
type svc3 interface{ Svc3() }
type svc4 interface{ Svc4() }
type svc5 interface{ Svc5() }

// handlers: pointer receivers, so that a *value* of the right struct type is ill-typed
type h0 struct{ tag string }
type h1 struct{ tag string }
type h2 struct{ tag string }
type h3 struct{ tag string }
type h4 struct{ tag string }
type h5 struct{ tag string }

func (*h0) Svc0() {}
func (*h1) Svc1() {}
func (*h2) Svc2() {}
func (*h3) Svc3() {}
func (*h4) Svc4() {}
func (*h5) Svc5() {}

type fileMeta struct {
	File string
	Idx  int
}

type streamDef struct {
	name           string
	client, server bool
}

type poolEntry struct {
	name     string
	htype    interface{}
	unary    []string
	streams  []streamDef
	metadata interface{}
	mapOnly  bool // only in the HandlerMap pool (the name cannot be addressed through a transport)
}

var pool = []poolEntry{
	{name: "p.Empty", htype: (*svc0)(nil)},
	{name: "p.Unary1", htype: (*svc1)(nil), unary: []string{"U1"}, metadata: "p/unary1.proto"},
	{name: "p.Streams", htype: (*svc2)(nil), streams: []streamDef{{"CS", true, false}, {"SS", false, true}}},
	{name: "p.Mixed", htype: (*svc3)(nil), unary: []string{"A", "B"}, streams: []streamDef{{"Bidi", true, true}, {"Neither", false, false}}, metadata: fileMeta{"p/mixed.proto", 3}},
	// a name that starts with a slash, next to its slash-less namesake p.Unary1
	{name: "/p.Unary1", htype: (*svc4)(nil), unary: []string{"U1"}, metadata: "slash/unary1.proto", mapOnly: true},
	// repeated method names: X is unary (twice) AND a stream; Z is a stream listed twice (same flags).
	// grpc.Server indexes unary methods and streams separately by name. (HandlerMap only: the HTTP
	// server's mux refuses a repeated path.)
	{name: "p.Dup", htype: (*svc5)(nil), unary: []string{"X", "X", "Y"}, streams: []streamDef{{"X", true, false}, {"Z", false, true}, {"Z", false, true}}, metadata: "p/dup.proto", mapOnly: true},
}

const unknownName = "p.Unknown"

// poolFor: indices of the pool descriptors used on a carrier
func poolFor(carrierName string) []int {
	var out []int
	for i, p := range pool {
		if !p.mapOnly || carrierName == "HandlerMap" {
			out = append(out, i)
		}
	}
	return out
}

// qname is a name to look up; on the transports the lookup is made by calling
// the methods of pool[methodsFrom] under that name (-1: methods X and Y).
type qname struct {
	name        string
	methodsFrom int
}

// queryNames: every pool name of the carrier, an unknown name, and near misses of
// every slash-less pool name (leading / trailing / doubled slash, proper prefix,
// proper suffix, extension). A near miss is "registered" only if exactly that
// string was registered (possible for "/p.Unary1" on the HandlerMap).
func queryNames(carrierName string) []qname {
	var out []qname
	seen := map[string]bool{}
	add := func(n string, from int) {
		if !seen[n] {
			seen[n] = true
			out = append(out, qname{n, from})
		}
	}
	for _, i := range poolFor(carrierName) {
		add(pool[i].name, i)
	}
	add(unknownName, -1)
	for i, p := range pool {
		if p.mapOnly {
			continue
		}
		n := p.name
		for _, nm := range []string{"/" + n, n + "/", "//" + n, "/" + n + "/", strings.Replace(n, ".", "./", 1), n[:len(n)-1], n[1:], n + "x", "p", ""} {
			add(nm, i)
		}
	}
	return out
}

func poolIndex(name string) int {
	for i, p := range pool {
		if p.name == name {
			return i
		}
	}
	return -1
}

// every handler invocation is logged here
type event struct {
	descTag string
	method  string
	srv     interface{}
}

var evlog []event

// what the last applied op was seen to do (for evidence samples)
var lastObs string

var descTags = map[*grpc.ServiceDesc]string{}

// id describes a descriptor or handler object by the step that created it (stable across runs).
func id(v interface{}) string {
	switch x := v.(type) {
	case nil:
		return "nil"
	case *grpc.ServiceDesc:
		if x == nil {
			return "nil"
		}
		if t, ok := descTags[x]; ok {
			return "desc@" + t
		}
		return "desc@?(" + x.ServiceName + ")"
	case *h0:
		return "*h0@" + x.tag
	case *h1:
		return "*h1@" + x.tag
	case *h2:
		return "*h2@" + x.tag
	case *h3:
		return "*h3@" + x.tag
	case *h4:
		return "*h4@" + x.tag
	case *h5:
		return "*h5@" + x.tag
	}
	return fmt.Sprintf("%T", v)
}

// makeDesc builds a FRESH descriptor object (new pointer, new closures) for pool entry i.
func makeDesc(i int, tag string) *grpc.ServiceDesc {
	p := pool[i]
	d := &grpc.ServiceDesc{ServiceName: p.name, HandlerType: p.htype, Metadata: p.metadata}
	descTags[d] = tag
	for _, m := range p.unary {
		m := m
		d.Methods = append(d.Methods, grpc.MethodDesc{MethodName: m, Handler: func(srv interface{}, ctx context.Context, dec func(interface{}) error, ic grpc.UnaryServerInterceptor) (interface{}, error) {
			evlog = append(evlog, event{tag, m, srv})
			return wrapperspb.String(tag), nil
		}})
	}
	for _, s := range p.streams {
		s := s
		d.Streams = append(d.Streams, grpc.StreamDesc{StreamName: s.name, ClientStreams: s.client, ServerStreams: s.server, Handler: func(srv interface{}, stream grpc.ServerStream) error {
			evlog = append(evlog, event{tag, s.name, srv})
			return nil
		}})
	}
	return d
}

func goodHandler(i int, tag string) interface{} {
	switch i {
	case 0:
		return &h0{tag}
	case 1:
		return &h1{tag}
	case 2:
		return &h2{tag}
	case 3:
		return &h3{tag}
	case 4:
		return &h4{tag}
	}
	return &h5{tag}
}

// illHandler: "other" = a well-formed handler of a different service;
// "value" = a value of the right struct type (its methods have pointer receivers).
func illHandler(i int, kind, tag string) interface{} {
	if kind == "other" {
		return goodHandler((i+1)%len(pool), tag)
	}
	switch i {
	case 0:
		return h0{tag}
	case 1:
		return h1{tag}
	case 2:
		return h2{tag}
	case 3:
		return h3{tag}
	case 4:
		return h4{tag}
	}
	return h5{tag}
}

// ---------------------------------------------------------------- carriers

type carrier interface {
	Name() string
	Register(d *grpc.ServiceDesc, h interface{})
	Info() map[string]grpc.ServiceInfo
}

type mapCarrier struct{ m grpchan.HandlerMap }

func (c *mapCarrier) Name() string                                { return "HandlerMap" }
func (c *mapCarrier) Register(d *grpc.ServiceDesc, h interface{}) { c.m.RegisterService(d, h) }
func (c *mapCarrier) Info() map[string]grpc.ServiceInfo           { return c.m.GetServiceInfo() }

type inprocCarrier struct{ ch *inprocgrpc.Channel }

func (c *inprocCarrier) Name() string                                { return "inprocgrpc.Channel" }
func (c *inprocCarrier) Register(d *grpc.ServiceDesc, h interface{}) { c.ch.RegisterService(d, h) }
func (c *inprocCarrier) Info() map[string]grpc.ServiceInfo           { return c.ch.GetServiceInfo() }

type httpCarrier struct{ s *httpgrpc.Server }

func (c *httpCarrier) Name() string                                { return "httpgrpc.Server" }
func (c *httpCarrier) Register(d *grpc.ServiceDesc, h interface{}) { c.s.RegisterService(d, h) }
func (c *httpCarrier) Info() map[string]grpc.ServiceInfo           { return c.s.GetServiceInfo() }

var carrierNames = []string{"HandlerMap", "inprocgrpc.Channel", "httpgrpc.Server"}

func newCarrier(name string) carrier {
	switch name {
	case "HandlerMap":
		return &mapCarrier{grpchan.HandlerMap{}}
	case "inprocgrpc.Channel":
		return &inprocCarrier{&inprocgrpc.Channel{}}
	case "httpgrpc.Server":
		return &httpCarrier{httpgrpc.NewServer()}
	}
	panic("unknown carrier " + name)
}

// dispatch calls one method of a service through the transport; it returns the
// handler events it caused and whether the transport reported success.
func dispatch(c carrier, svc, method string, isStream bool, sd streamDef) (evs []event, ok bool, obs string) {
	evlog = nil
	switch c := c.(type) {
	case *inprocCarrier:
		full := "/" + svc + "/" + method
		if !isStream {
			var out wrapperspb.StringValue
			err := c.ch.Invoke(context.Background(), full, &emptypb.Empty{}, &out)
			evs, evlog = evlog, nil
			return evs, err == nil, fmt.Sprintf("err=%v resp=%q", err, out.Value)
		}
		cs, err := c.ch.NewStream(context.Background(), &grpc.StreamDesc{StreamName: method, ClientStreams: sd.client, ServerStreams: sd.server}, full)
		if err != nil {
			evs, evlog = evlog, nil
			return evs, false, fmt.Sprintf("NewStream err=%v", err)
		}
		cs.CloseSend()
		var out wrapperspb.StringValue
		err = cs.RecvMsg(&out) // returns once the server side has finished
		evs, evlog = evlog, nil
		return evs, err == io.EOF, fmt.Sprintf("recv err=%v", err)
	case *httpCarrier:
		req := httptest.NewRequest("POST", "/"+svc+"/"+method, strings.NewReader(""))
		if isStream {
			req.Header.Set("Content-Type", httpgrpc.StreamRpcContentType_V1)
		} else {
			req.Header.Set("Content-Type", httpgrpc.UnaryRpcContentType_V1)
		}
		rec := httptest.NewRecorder()
		c.s.ServeHTTP(rec, req)
		evs, evlog = evlog, nil
		return evs, rec.Code == 200, fmt.Sprintf("http=%d x-grpc-status=%q", rec.Code, rec.Header().Get("X-GRPC-Status"))
	}
	panic("dispatch on a carrier without transport")
}

// ---------------------------------------------------------------- model

type reg struct {
	idx     int
	desc    *grpc.ServiceDesc
	handler interface{}
	tag     string
}

type model map[string]reg

func (m model) key() string {
	names := make([]string, 0, len(m))
	for n := range m {
		names = append(names, n)
	}
	sort.Strings(names)
	return "{" + strings.Join(names, ",") + "}"
}

// implKey is the canonical key computed from the REAL object.
func implKey(c carrier) string {
	names := []string{}
	for n := range c.Info() {
		names = append(names, n)
	}
	sort.Strings(names)
	return "{" + strings.Join(names, ",") + "}"
}

// ---------------------------------------------------------------- ops

// op strings: reg:<name>  ill-other:<name>  ill-value:<name>  query:<name>  foreach  info
func opsFor(carrierName string) (registerOps, readOps []string) {
	for _, i := range poolFor(carrierName) {
		registerOps = append(registerOps, "reg:"+pool[i].name)
	}
	for _, i := range poolFor(carrierName) {
		registerOps = append(registerOps, "ill-other:"+pool[i].name)
	}
	for _, i := range poolFor(carrierName) {
		registerOps = append(registerOps, "ill-value:"+pool[i].name)
	}
	for _, q := range queryNames(carrierName) {
		readOps = append(readOps, "query:"+q.name)
	}
	if carrierName == "HandlerMap" {
		readOps = append(readOps, "foreach")
	}
	readOps = append(readOps, "info")
	return
}

type problem struct {
	clause string // short, goes into the fingerprint
	detail string // parameter that matters (service name ...), goes into the fingerprint
	what   string
}

func callRegister(c carrier, d *grpc.ServiceDesc, h interface{}) (panicked bool, pv interface{}) {
	defer func() {
		if r := recover(); r != nil {
			panicked, pv = true, r
		}
	}()
	c.Register(d, h)
	return false, nil
}

// guarded runs a read-only library call and converts a panic into a problem.
func guarded(clause, detail string, probs *[]problem, f func()) {
	defer func() {
		if r := recover(); r != nil {
			*probs = append(*probs, problem{clause + "-panic", detail, fmt.Sprintf("%s(%s) panicked: %v", clause, detail, r)})
		}
	}()
	f()
}

// applyOp applies one op to the real object and to the model, and checks the op's own contract.
func applyOp(c carrier, m model, op string, step int) (probs []problem) {
	kind, name := op, ""
	if i := strings.IndexByte(op, ':'); i >= 0 {
		kind, name = op[:i], op[i+1:]
	}
	before := implKey(c)
	tag := fmt.Sprintf("s%d", step)
	lastObs = "read evaluated by the oracle; registry unchanged"
	switch kind {
	case "reg", "ill-other", "ill-value":
		i := poolIndex(name)
		d := makeDesc(i, tag)
		var h interface{}
		wantPanic := true
		why := ""
		if kind == "reg" {
			h = goodHandler(i, tag)
			_, dup := m[name]
			wantPanic = dup
			why = "duplicate registration"
		} else {
			h = illHandler(i, strings.TrimPrefix(kind, "ill-"), tag)
			why = fmt.Sprintf("handler %T does not implement the service interface", h)
		}
		panicked, pv := callRegister(c, d, h)
		lastObs = fmt.Sprintf("RegisterService(%s, %T) panicked=%v", name, h, panicked)
		if panicked {
			lastObs += fmt.Sprintf(" (%v)", pv)
		}
		switch {
		case wantPanic && !panicked:
			cl := "dup-not-refused"
			if kind != "reg" {
				cl = kind + "-not-refused"
			}
			probs = append(probs, problem{cl, name, fmt.Sprintf("RegisterService(%s) with %s did not panic", name, why)})
		case !wantPanic && panicked:
			probs = append(probs, problem{"good-registration-panicked", name, fmt.Sprintf("first, well-typed RegisterService(%s) panicked: %v", name, pv)})
		}
		if !wantPanic {
			m[name] = reg{idx: i, desc: d, handler: h, tag: tag}
		}
		if after := implKey(c); after != m.key() {
			cl := "state-after-" + kind
			if kind == "reg" && wantPanic {
				cl = "state-after-dup"
			}
			probs = append(probs, problem{cl, name, fmt.Sprintf("after %s (%s) the registry reports %s, expected %s (before: %s)", op, why, after, m.key(), before)})
		}
	case "query", "foreach", "info":
		// the read itself is evaluated by the state oracle (which performs every read op);
		// as a transition it must be a self loop
		switch kind {
		case "query":
			q := qname{name, -1}
			for _, x := range queryNames(c.Name()) {
				if x.name == name {
					q = x
				}
			}
			guarded("query", name, &probs, func() { queryOracle(c, m, q, &probs) })
		case "foreach":
			guarded("foreach", "", &probs, func() { forEachOracle(c.(*mapCarrier), m, &probs) })
		case "info":
			guarded("info", "", &probs, func() { infoOracle(c, m, &probs) })
		}
		if after := implKey(c); after != before {
			probs = append(probs, problem{"read-op-changed-state", kind, fmt.Sprintf("%s changed the registry from %s to %s", op, before, after)})
		}
	default:
		panic("bad op " + op)
	}
	return
}

// ---------------------------------------------------------------- oracle

func queryOracle(c carrier, m model, q qname, probs *[]problem) {
	name := q.name
	want, registered := m[name]
	if mc, ok := c.(*mapCarrier); ok {
		d, h := mc.m.QueryService(name)
		if registered {
			if d != want.desc || h != want.handler {
				*probs = append(*probs, problem{"query-wrong", name, fmt.Sprintf("QueryService(%s) = (%s, %s), registered was (%s, %s)", name, id(d), id(h), id(want.desc), id(want.handler))})
			}
		} else if d != nil || h != nil {
			*probs = append(*probs, problem{"query-ghost", name, fmt.Sprintf("QueryService(%q) of a name never registered = (%s, %s)", name, id(d), id(h))})
		}
		return
	}
	// transports: look up by dispatching every method of the service
	type call struct {
		method string
		stream bool
		sd     streamDef
	}
	var calls []call
	if i := q.methodsFrom; i >= 0 {
		for _, u := range pool[i].unary {
			calls = append(calls, call{u, false, streamDef{}})
		}
		for _, s := range pool[i].streams {
			calls = append(calls, call{s.name, true, s})
		}
	} else {
		calls = []call{{"X", false, streamDef{}}, {"Y", true, streamDef{"Y", true, true}}}
	}
	for _, cl := range calls {
		evs, ok, obs := dispatch(c, name, cl.method, cl.stream, cl.sd)
		if registered {
			if len(evs) != 1 || evs[0].descTag != want.tag || evs[0].method != cl.method || evs[0].srv != want.handler || !ok {
				*probs = append(*probs, problem{"dispatch-wrong", name, fmt.Sprintf("call /%s/%s: handler events %s, transport %s; expected exactly one run of the descriptor registered at %s with handler %s", name, cl.method, fmtEvents(evs), obs, want.tag, id(want.handler))})
			}
		} else if len(evs) != 0 || ok {
			*probs = append(*probs, problem{"dispatch-ghost", name, fmt.Sprintf("call /%s/%s of a service not registered: handler events %s, transport %s", name, cl.method, fmtEvents(evs), obs)})
		}
	}
}

func fmtEvents(evs []event) string {
	var s []string
	for _, e := range evs {
		s = append(s, fmt.Sprintf("desc@%s.%s(srv=%s)", e.descTag, e.method, id(e.srv)))
	}
	return "[" + strings.Join(s, " ") + "]"
}

func forEachOracle(mc *mapCarrier, m model, probs *[]problem) {
	seen := map[string]int{}
	total := 0
	mc.m.ForEach(func(d *grpc.ServiceDesc, h interface{}) {
		total++
		if d == nil {
			seen["<nil desc>"]++
			return
		}
		seen[d.ServiceName]++
		want, ok := m[d.ServiceName]
		if !ok || want.desc != d || want.handler != h {
			*probs = append(*probs, problem{"foreach-wrong-pair", d.ServiceName, fmt.Sprintf("ForEach visited (%s, %s, %s) which is not a registration of the model", d.ServiceName, id(d), id(h))})
		}
	})
	for n := range m {
		if seen[n] != 1 {
			*probs = append(*probs, problem{"foreach-count", n, fmt.Sprintf("ForEach visited %s %d times (total visits %d, registrations %d)", n, seen[n], total, len(m))})
		}
	}
	if total != len(m) {
		*probs = append(*probs, problem{"foreach-total", "", fmt.Sprintf("ForEach made %d visits for %d registrations: %v", total, len(m), seen)})
	}
}

var refCache = map[string]map[string]grpc.ServiceInfo{}
var refServers int

// refInfo: what a real grpc.NewServer() reports for the same registrations.
func refInfo(m model) map[string]grpc.ServiceInfo {
	k := m.key()
	if r, ok := refCache[k]; ok {
		return r
	}
	s := grpc.NewServer()
	names := make([]string, 0, len(m))
	for n := range m {
		names = append(names, n)
	}
	sort.Strings(names)
	for _, n := range names {
		s.RegisterService(makeDesc(m[n].idx, "ref"), goodHandler(m[n].idx, "ref"))
	}
	refServers++
	r := s.GetServiceInfo()
	refCache[k] = r
	return r
}

// methodSet: the method infos as a SET (design: "method lists as sets")
func methodSet(ms []grpc.MethodInfo) string {
	var s []string
	seen := map[string]bool{}
	for _, m := range ms {
		x := fmt.Sprintf("%s(c=%v,s=%v)", m.Name, m.IsClientStream, m.IsServerStream)
		if !seen[x] {
			seen[x] = true
			s = append(s, x)
		}
	}
	sort.Strings(s)
	return strings.Join(s, " ")
}

func infoOracle(c carrier, m model, probs *[]problem) {
	got := c.Info()
	want := refInfo(m)
	for n, w := range want {
		g, ok := got[n]
		if !ok {
			*probs = append(*probs, problem{"info-missing-service", n, fmt.Sprintf("GetServiceInfo lacks %s which grpc.Server reports", n)})
			continue
		}
		if methodSet(g.Methods) != methodSet(w.Methods) {
			*probs = append(*probs, problem{"info-methods", n, fmt.Sprintf("GetServiceInfo[%s].Methods = {%s}, grpc.Server reports {%s}", n, methodSet(g.Methods), methodSet(w.Methods))})
		}
		if !reflect.DeepEqual(g.Metadata, w.Metadata) {
			*probs = append(*probs, problem{"info-metadata", n, fmt.Sprintf("GetServiceInfo[%s].Metadata = %#v, grpc.Server reports %#v", n, g.Metadata, w.Metadata)})
		}
	}
	for n := range got {
		if _, ok := want[n]; !ok {
			*probs = append(*probs, problem{"info-extra-service", n, fmt.Sprintf("GetServiceInfo reports %s which grpc.Server with the same registrations does not", n)})
		}
	}
}

// stateOracle evaluates every read operation in the current state.
func stateOracle(c carrier, m model) (probs []problem) {
	if k := implKey(c); k != m.key() {
		probs = append(probs, problem{"state-key", "", fmt.Sprintf("registry reports %s, model %s", k, m.key())})
	}
	for _, q := range queryNames(c.Name()) {
		q := q
		guarded("query", q.name, &probs, func() { queryOracle(c, m, q, &probs) })
	}
	if mc, ok := c.(*mapCarrier); ok {
		guarded("foreach", "", &probs, func() { forEachOracle(mc, m, &probs) })
	}
	guarded("info", "", &probs, func() { infoOracle(c, m, &probs) })
	if k := implKey(c); k != m.key() {
		probs = append(probs, problem{"state-key-after-reads", "", fmt.Sprintf("after the read operations the registry reports %s, model %s", k, m.key())})
	}
	return
}

// ---------------------------------------------------------------- running paths

type replayCase struct {
	Carrier string   `json:"carrier"`
	Ops     []string `json:"ops"`
}

var progress int64
var current atomic.Value

// runPath replays ops on a fresh carrier; the contract of every op is checked,
// the full state oracle is evaluated after the LAST op (and after every op when all=true).
func runPath(carrierName string, ops []string, all bool) (probs []problem, finalKey string, c carrier, m model) {
	atomic.AddInt64(&progress, 1)
	current.Store(carrierName + " " + strings.Join(ops, " "))
	descTags = map[*grpc.ServiceDesc]string{} // per path, or it would retain every descriptor ever built
	c = newCarrier(carrierName)
	m = model{}
	for i, op := range ops {
		probs = append(probs, applyOp(c, m, op, i)...)
		if all || i == len(ops)-1 {
			probs = append(probs, stateOracle(c, m)...)
		}
	}
	if len(ops) == 0 {
		probs = append(probs, stateOracle(c, m)...)
	}
	return probs, implKey(c), c, m
}

func main() {
	rep := vlib.NewReporter("C15")
	go func() { // hang guard
		last := int64(-1)
		for {
			time.Sleep(30 * time.Second)
			p := atomic.LoadInt64(&progress)
			if p == last {
				fmt.Fprintf(os.Stderr, "INCONCLUSIVE: no progress for 30s in case %v\n", current.Load())
				os.Exit(2)
			}
			last = p
		}
	}()

	if p := common.Arg("replay"); p != "" {
		var rc replayCase
		if err := common.LoadReplay(p, &rc); err != nil {
			fmt.Fprintln(os.Stderr, "INCONCLUSIVE:", err)
			os.Exit(2)
		}
		probs, key, _, m := runPath(rc.Carrier, rc.Ops, true)
		fmt.Printf("replay: carrier=%s ops=%v final registry=%s model=%s\n", rc.Carrier, rc.Ops, key, m.key())
		for _, pr := range probs {
			fmt.Printf("  %s[%s]: %s\n", pr.clause, pr.detail, pr.what)
		}
		if len(probs) > 0 {
			fmt.Printf("VIOLATION property=C15 replay=%s\n", p)
			os.Exit(1)
		}
		os.Exit(0)
	}

	report := func(carrierName string, ops []string, probs []problem) {
		for _, pr := range probs {
			fp := fmt.Sprintf("C15|%s|%s|%s", carrierName, pr.clause, pr.detail)
			rep.Violation(fp, fmt.Sprintf("after ops %v: %s", ops, pr.what), replayCase{carrierName, append([]string(nil), ops...)})
		}
	}

	// ---------------- BFS
	const maxDepth = 7
	states, transitions, traces := 0, 0, 0
	nontrivial := map[string]bool{}
	depthReached := 0
	frontierEmpty := true
	var samples []interface{}
	perCarrier := map[string]interface{}{}
	for _, cn := range carrierNames {
		regOps, readOps := opsFor(cn)
		ops := append(append([]string{}, regOps...), readOps...)
		type node struct {
			key  string
			path []string
		}
		probs, k0, _, _ := runPath(cn, nil, true)
		traces++
		report(cn, nil, probs)
		visited := map[string]bool{k0: true}
		frontier := []node{{k0, nil}}
		cStates, cTrans := 1, 0
		for depth := 0; len(frontier) > 0; depth++ {
			if depth >= maxDepth {
				frontierEmpty = false
				break
			}
			var next []node
			for _, nd := range frontier {
				for _, op := range ops {
					path := append(append([]string{}, nd.path...), op)
					probs, k, _, _ := runPath(cn, path, false)
					traces++
					cTrans++
					report(cn, path, probs)
					kind := op
					if i := strings.IndexByte(op, ':'); i >= 0 {
						kind = op[:i]
					}
					if kind == "reg" || strings.HasPrefix(kind, "ill-") || nd.key != "{}" {
						nontrivial[cn+"|"+nd.key+"|"+op] = true
					}
					if len(samples) < 9 && cTrans%97 == 5 {
						samples = append(samples, map[string]interface{}{"carrier": cn, "from": nd.key, "op": op, "to": k, "observed": lastObs, "problems": len(probs)})
					}
					if !visited[k] {
						visited[k] = true
						cStates++
						next = append(next, node{k, path})
						if depth+1 > depthReached {
							depthReached = depth + 1
						}
					}
				}
			}
			frontier = next
		}
		states += cStates
		transitions += cTrans
		perCarrier[cn] = map[string]int{"states": cStates, "transitions": cTrans, "ops": len(ops)}
	}

	// ---------------- every sequence of registration attempts (no state caching):
	// checks that the state abstraction is sound (behaviour depends on the set only)
	seqLen := 3
	if rep.Tier == "thorough" {
		seqLen = 5
	}
	sequences := 0
	for _, cn := range carrierNames {
		regOps, _ := opsFor(cn)
		for l := 1; l <= seqLen; l++ { // shortest first
			var rec func(prefix []string)
			rec = func(prefix []string) {
				if len(prefix) == l {
					probs, _, _, _ := runPath(cn, prefix, false)
					sequences++
					report(cn, prefix, probs)
					return
				}
				for _, op := range regOps {
					rec(append(append([]string{}, prefix...), op))
				}
			}
			rec(nil)
		}
	}

	os.Exit(rep.Finish("model_checking", map[string]interface{}{
		"states":                        states,
		"transitions":                   transitions,
		"traces_validated_against_impl": traces + sequences,
		"bfs_paths_replayed":            traces,
		"registration_sequences":        sequences,
		"registration_sequence_length":  seqLen,
		"depth_bound":                   maxDepth,
		"depth_reached":                 depthReached,
		"frontier_exhausted":            frontierEmpty,
		"per_carrier":                   perCarrier,
		"reference_grpc_servers_built":  refServers,
		"evaluations":                   traces + sequences,
		"distinct_nontrivial":           len(nontrivial),
		"rule":                          "BFS over (carrier x set of registered names) with 3 registration ops per pool descriptor (good / handler of another service / value of a pointer-receiver type; 6 descriptors on HandlerMap, 4 on the transports) and the read ops (query x every pool name, an unknown name and the near misses of every pool name: leading, trailing, doubled, inner slash, proper prefix, proper suffix, extension, empty; ForEach on HandlerMap; GetServiceInfo); each transition = fresh real object + replay of the shortest path + the op, then the full state oracle. A transition is non-trivial when it is a registration attempt or a read in a non-empty registry; distinct by (carrier, state, op). In addition every sequence of registration attempts up to registration_sequence_length is replayed without state caching.",
		"samples":                       samples,
		"exhaustive":                    frontierEmpty,
	}, []string{
		"pool of 4 descriptors (0-2 unary, 0-2 streams covering all four flag pairs, nil/string/struct Metadata) + on HandlerMap a 5th whose ServiceName is \"/p.Unary1\" next to p.Unary1 and a 6th, p.Dup, with repeated method names (a unary method listed twice, a stream of the same name as a unary method, a stream listed twice) (such names cannot be addressed through the transports' /service/method paths, so it is not registered there) + 1 unknown name + near-miss names",
		"on the two transports, lookup is observed by dispatching every method of the service (in-process Invoke/NewStream; HTTP ServeHTTP on a recorder) and identifying descriptor and handler instance that ran",
		"a nil handler is not part of the ill-typed alphabet (grpc.Server accepts it)",
	}))
}
