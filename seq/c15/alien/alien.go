// Package alien is "another package" for the handler-conformance dimension of the
// C15 check: a service interface with an UNEXPORTED method (what generated code
// calls mustEmbedUnimplementedXxxServer) can only be implemented by types that
// get that method from this package -- their own method of the same name, declared
// in another package, does not count.
package alien

import (
	"context"

	"google.golang.org/grpc"
	"google.golang.org/protobuf/types/known/emptypb"
	"google.golang.org/protobuf/types/known/wrapperspb"
)

// Server: Ping, Watch and an unexported method of this package.
type Server interface {
	Ping(context.Context, *emptypb.Empty) (*wrapperspb.StringValue, error)
	Watch(*emptypb.Empty, grpc.ServerStream) error
	mustEmbedUnimplemented()
}

// Implements: the language's own verdict (a type assertion) on "h implements Server".
func Implements(h interface{}) bool { _, ok := h.(Server); return ok }

// Unimplemented is what other packages embed to get the unexported method.
type Unimplemented struct{}

func (Unimplemented) mustEmbedUnimplemented() {}

// Impl implements Server inside this package.
type Impl struct{ Tag string }

func (*Impl) Ping(context.Context, *emptypb.Empty) (*wrapperspb.StringValue, error) { return nil, nil }
func (*Impl) Watch(*emptypb.Empty, grpc.ServerStream) error                         { return nil }
func (*Impl) mustEmbedUnimplemented()                                               {}
