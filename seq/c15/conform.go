// The handler-conformance dimension: HOW a handler value relates to the service
// interface of the descriptor it is registered with.
//
// The statement: "registering ... a handler that does not implement the service's
// interface is refused by panicking and leaves earlier registrations intact" (and a
// handler that does implement it, under a fresh name, is a registration like any
// other). The registration ops of main.go choose the handler among six kinds that
// all relate to a ONE-method interface in one of two ways: the handler's method set
// contains the method, or it has no method of that name at all. What is enumerated
// here is the relation itself:
//
//	service interface I   no methods | 1 | 2 | 3 methods | the 3 methods through an embedded interface |
//	                      a later revision (request type of a method changed) | with an unexported
//	                      method of this package | with an unexported method of another package
//	handler value H       38 values of 30 types over the same method names: exact, superset, proper
//	                      subsets (lacking the first / middle / last method), every method NAME
//	                      present but one SIGNATURE different (parameter type, result type, number of
//	                      results, arity, variadic, wider parameter, defined vs alias type), name
//	                      differing in case, unexported namesake, a func-typed FIELD of that name,
//	                      value vs pointer receivers (values, pointers, typed-nil pointers of each),
//	                      methods promoted through an embedded pointer / value / interface, a
//	                      non-struct type, unexported methods of this / of another package (own
//	                      namesake vs promoted from that package), no methods at all
//
// Every pair (I, H) is a registration op  conf(I,H):<pool name>  -- the descriptor is
// built from the pool entry (methods, streams, metadata) with HandlerType = (*I)(nil).
// The ORACLE is the language's own verdict, a type assertion h.(I) made by the Go
// runtime (not package reflect, which is what the library and grpc.Server use): the
// registration must be accepted iff the assertion holds and the name is free, and
// must be refused by a panic that changes nothing otherwise. An accepted one is also
// registered with the reference grpc.Server; afterwards every read is checked as for
// any other registration (identity of descriptor and handler, iteration, info).
//
// The fingerprint parameter of a wrongly accepted registration is the RELATION (computed
// by relationOf, for naming only), not the pair or the name; of a wrongly refused one,
// the handler value.
package main

import (
	"context"
	"fmt"
	"reflect"
	"sort"
	"strings"

	"google.golang.org/grpc"
	"google.golang.org/protobuf/types/known/emptypb"
	"google.golang.org/protobuf/types/known/wrapperspb"

	"verif/seq/c15/alien"
)

// ---------------------------------------------------------------- service interfaces

type cI0 interface{}

type cI1 interface {
	Ping(context.Context, *emptypb.Empty) (*wrapperspb.StringValue, error)
}

type cI2 interface {
	Ping(context.Context, *emptypb.Empty) (*wrapperspb.StringValue, error)
	Watch(*emptypb.Empty, grpc.ServerStream) error
}

type cI3 interface {
	Ping(context.Context, *emptypb.Empty) (*wrapperspb.StringValue, error)
	Watch(*emptypb.Empty, grpc.ServerStream) error
	Chat(grpc.ServerStream) error
}

// the method set of cI3, two of them through an embedded interface
type cI3e interface {
	cI2
	Chat(grpc.ServerStream) error
}

// a later revision of cI1: the request type of Ping has changed
type cI1b interface {
	Ping(context.Context, *wrapperspb.StringValue) (*wrapperspb.StringValue, error)
}

// with an unexported method of THIS package
type cI2u interface {
	Ping(context.Context, *emptypb.Empty) (*wrapperspb.StringValue, error)
	Watch(*emptypb.Empty, grpc.ServerStream) error
	mustEmbedUnimplemented()
}

type confIface struct {
	name  string
	htype interface{}            // what goes into ServiceDesc.HandlerType
	impl  func(interface{}) bool // the language's verdict: type assertion
}

var confIfaces = []confIface{
	{"I0", (*cI0)(nil), func(h interface{}) bool { return h != nil }},
	{"I1", (*cI1)(nil), func(h interface{}) bool { _, ok := h.(cI1); return ok }},
	{"I2", (*cI2)(nil), func(h interface{}) bool { _, ok := h.(cI2); return ok }},
	{"I3", (*cI3)(nil), func(h interface{}) bool { _, ok := h.(cI3); return ok }},
	{"I3e", (*cI3e)(nil), func(h interface{}) bool { _, ok := h.(cI3e); return ok }},
	{"I1b", (*cI1b)(nil), func(h interface{}) bool { _, ok := h.(cI1b); return ok }},
	{"I2u", (*cI2u)(nil), func(h interface{}) bool { _, ok := h.(cI2u); return ok }},
	{"I2alien", (*alien.Server)(nil), alien.Implements},
}

// ---------------------------------------------------------------- handler types

type (
	cReq  = emptypb.Empty
	cResp = wrapperspb.StringValue
	cSS   = grpc.ServerStream
	// an ALIAS of context.Context is context.Context; a DEFINED type with that underlying type is not
	cCtxAlias   = context.Context
	cCtxDefined context.Context
)

// no methods
type cP0 struct{ tag string }

// pointer receivers: 1, 2, 3 methods, superset, the proper subsets of {Ping, Watch, Chat}
type cP1 struct{ tag string }

func (*cP1) Ping(context.Context, *cReq) (*cResp, error) { return nil, nil }

type cP2 struct{ tag string }

func (*cP2) Ping(context.Context, *cReq) (*cResp, error) { return nil, nil }
func (*cP2) Watch(*cReq, cSS) error                      { return nil }

type cP3 struct{ tag string }

func (*cP3) Ping(context.Context, *cReq) (*cResp, error) { return nil, nil }
func (*cP3) Watch(*cReq, cSS) error                      { return nil }
func (*cP3) Chat(cSS) error                              { return nil }

type cP3x struct{ tag string }

func (*cP3x) Ping(context.Context, *cReq) (*cResp, error) { return nil, nil }
func (*cP3x) Watch(*cReq, cSS) error                      { return nil }
func (*cP3x) Chat(cSS) error                              { return nil }
func (*cP3x) Aardvark()                                   {}
func (*cP3x) Zebra(int) string                            { return "" }

type cW1 struct{ tag string }

func (*cW1) Watch(*cReq, cSS) error { return nil }

type cPC struct{ tag string }

func (*cPC) Ping(context.Context, *cReq) (*cResp, error) { return nil, nil }
func (*cPC) Chat(cSS) error                              { return nil }

type cWC struct{ tag string }

func (*cWC) Watch(*cReq, cSS) error { return nil }
func (*cWC) Chat(cSS) error         { return nil }

// every method NAME of cI3 present, one SIGNATURE different
type cSparam struct{ tag string } // Ping still takes the request type of another revision

func (*cSparam) Ping(context.Context, *cResp) (*cResp, error) { return nil, nil }
func (*cSparam) Watch(*cReq, cSS) error                       { return nil }
func (*cSparam) Chat(cSS) error                               { return nil }

type cSresult struct{ tag string } // Ping returns another message type

func (*cSresult) Ping(context.Context, *cReq) (*cReq, error) { return nil, nil }
func (*cSresult) Watch(*cReq, cSS) error                     { return nil }
func (*cSresult) Chat(cSS) error                             { return nil }

type cSnores struct{ tag string } // Watch returns nothing

func (*cSnores) Ping(context.Context, *cReq) (*cResp, error) { return nil, nil }
func (*cSnores) Watch(*cReq, cSS)                            {}
func (*cSnores) Chat(cSS) error                              { return nil }

type cSarity struct{ tag string } // Chat takes one parameter more

func (*cSarity) Ping(context.Context, *cReq) (*cResp, error) { return nil, nil }
func (*cSarity) Watch(*cReq, cSS) error                      { return nil }
func (*cSarity) Chat(cSS, int) error                         { return nil }

type cSvariadic struct{ tag string } // Chat is variadic

func (*cSvariadic) Ping(context.Context, *cReq) (*cResp, error) { return nil, nil }
func (*cSvariadic) Watch(*cReq, cSS) error                      { return nil }
func (*cSvariadic) Chat(...cSS) error                           { return nil }

type cSwide struct{ tag string } // Chat accepts anything

func (*cSwide) Ping(context.Context, *cReq) (*cResp, error) { return nil, nil }
func (*cSwide) Watch(*cReq, cSS) error                      { return nil }
func (*cSwide) Chat(interface{}) error                      { return nil }

type cSalias struct{ tag string } // Ping's context parameter is written with an alias: identical signature

func (*cSalias) Ping(cCtxAlias, *cReq) (*cResp, error) { return nil, nil }
func (*cSalias) Watch(*cReq, cSS) error                { return nil }
func (*cSalias) Chat(cSS) error                        { return nil }

type cSdefined struct{ tag string } // ... with a defined type: a different signature

func (*cSdefined) Ping(cCtxDefined, *cReq) (*cResp, error) { return nil, nil }
func (*cSdefined) Watch(*cReq, cSS) error                  { return nil }
func (*cSdefined) Chat(cSS) error                          { return nil }

// names that are nearly right
type cNupper struct{ tag string }

func (*cNupper) PING(context.Context, *cReq) (*cResp, error) { return nil, nil }
func (*cNupper) Watch(*cReq, cSS) error                      { return nil }
func (*cNupper) Chat(cSS) error                              { return nil }

type cNlower struct{ tag string }

func (*cNlower) ping(context.Context, *cReq) (*cResp, error) { return nil, nil }
func (*cNlower) Watch(*cReq, cSS) error                      { return nil }
func (*cNlower) Chat(cSS) error                              { return nil }

// a func-typed FIELD called Ping is not a method
type cFfield struct {
	Ping func(context.Context, *cReq) (*cResp, error)
	tag  string
}

func (*cFfield) Watch(*cReq, cSS) error { return nil }
func (*cFfield) Chat(cSS) error         { return nil }

// value receivers: the value, a pointer to it and a nil pointer all have the methods
type cV2 struct{ tag string }

func (cV2) Ping(context.Context, *cReq) (*cResp, error) { return nil, nil }
func (cV2) Watch(*cReq, cSS) error                      { return nil }

// mixed receivers: the VALUE has Ping only
type cM2 struct{ tag string }

func (cM2) Ping(context.Context, *cReq) (*cResp, error) { return nil, nil }
func (*cM2) Watch(*cReq, cSS) error                     { return nil }

// methods promoted through an embedded POINTER (value and pointer both get them); Chat is its own
type cE3 struct {
	*cP2
	tag string
}

func (*cE3) Chat(cSS) error { return nil }

// ... through an embedded VALUE of a pointer-receiver type (only the pointer gets them)
type cEv struct {
	cP2
	note string
}

// ... through an embedded INTERFACE (left nil, as in "embed the interface and override what you need")
type cEi struct {
	cI2
	tag string
}

// a non-struct type
type cInt int

func (cInt) Ping(context.Context, *cReq) (*cResp, error) { return nil, nil }
func (cInt) Watch(*cReq, cSS) error                      { return nil }

// unexported method: this package's own
type cU struct{ tag string }

func (*cU) Ping(context.Context, *cReq) (*cResp, error) { return nil, nil }
func (*cU) Watch(*cReq, cSS) error                      { return nil }
func (*cU) mustEmbedUnimplemented()                     {}

// ... promoted from the other package (the only way to implement alien.Server from here)
type cUa struct {
	alien.Unimplemented
	tag string
}

func (*cUa) Ping(context.Context, *cReq) (*cResp, error) { return nil, nil }
func (*cUa) Watch(*cReq, cSS) error                      { return nil }

type confHandler struct {
	name  string
	hkind string // "" | "tnil" (a nil pointer; what the state key records for an accepted registration)
	mk    func(tag string) interface{}
}

// every handler value is comparable (the oracles compare handler identities)
var confHandlers = []confHandler{
	{"P0", "", func(t string) interface{} { return &cP0{t} }},
	{"P1", "", func(t string) interface{} { return &cP1{t} }},
	{"P2", "", func(t string) interface{} { return &cP2{t} }},
	{"P3", "", func(t string) interface{} { return &cP3{t} }},
	{"P2nil", "tnil", func(t string) interface{} { return (*cP2)(nil) }},
	{"P3nil", "tnil", func(t string) interface{} { return (*cP3)(nil) }},
	{"P2val", "", func(t string) interface{} { return cP2{t} }},
	{"P3x", "", func(t string) interface{} { return &cP3x{t} }},
	{"W1", "", func(t string) interface{} { return &cW1{t} }},
	{"PC", "", func(t string) interface{} { return &cPC{t} }},
	{"WC", "", func(t string) interface{} { return &cWC{t} }},
	{"Sparam", "", func(t string) interface{} { return &cSparam{t} }},
	{"SparamNil", "tnil", func(t string) interface{} { return (*cSparam)(nil) }},
	{"Sresult", "", func(t string) interface{} { return &cSresult{t} }},
	{"Snores", "", func(t string) interface{} { return &cSnores{t} }},
	{"Sarity", "", func(t string) interface{} { return &cSarity{t} }},
	{"Svariadic", "", func(t string) interface{} { return &cSvariadic{t} }},
	{"Swide", "", func(t string) interface{} { return &cSwide{t} }},
	{"Salias", "", func(t string) interface{} { return &cSalias{t} }},
	{"Sdefined", "", func(t string) interface{} { return &cSdefined{t} }},
	{"Nupper", "", func(t string) interface{} { return &cNupper{t} }},
	{"Nlower", "", func(t string) interface{} { return &cNlower{t} }},
	{"Ffield", "", func(t string) interface{} { return &cFfield{tag: t} }},
	{"V2val", "", func(t string) interface{} { return cV2{t} }},
	{"V2ptr", "", func(t string) interface{} { return &cV2{t} }},
	{"V2nil", "tnil", func(t string) interface{} { return (*cV2)(nil) }},
	{"M2val", "", func(t string) interface{} { return cM2{t} }},
	{"M2ptr", "", func(t string) interface{} { return &cM2{t} }},
	{"E3ptr", "", func(t string) interface{} { return &cE3{&cP2{t}, t} }},
	{"E3val", "", func(t string) interface{} { return cE3{&cP2{t}, t} }},
	{"EvPtr", "", func(t string) interface{} { return &cEv{cP2{t}, t} }},
	{"EvVal", "", func(t string) interface{} { return cEv{cP2{t}, t} }},
	{"EiVal", "", func(t string) interface{} { return cEi{nil, t} }},
	{"Int", "", func(t string) interface{} { return cInt(7) }},
	{"U", "", func(t string) interface{} { return &cU{t} }},
	{"Ua", "", func(t string) interface{} { return &cUa{alien.Unimplemented{}, t} }},
	{"AlienImpl", "", func(t string) interface{} { return &alien.Impl{Tag: t} }},
	{"OtherSvc", "", func(t string) interface{} { return &h1{t} }},
}

// ---------------------------------------------------------------- the relation (a NAME for fingerprints; never the verdict)

// relationOf names how the type of h fails to implement interface type it: the sorted set of
// what is wrong with each interface method.
func relationOf(it reflect.Type, h interface{}) string {
	t := reflect.TypeOf(h)
	if t == nil {
		return "untyped-nil"
	}
	base := t
	if base.Kind() == reflect.Ptr {
		base = base.Elem()
	}
	hasMethod := func(t reflect.Type, n string) bool { _, ok := t.MethodByName(n); return ok }
	set := map[string]bool{}
	for i := 0; i < it.NumMethod(); i++ {
		im := it.Method(i)
		if im.PkgPath != "" { // an unexported method of the interface
			if base.PkgPath() != im.PkgPath {
				set["unexported-method-of-another-package"] = true
			} else {
				set["lacks-unexported-method"] = true
			}
			continue
		}
		m, ok := t.MethodByName(im.Name)
		if !ok {
			what := "lacks-method"
			switch {
			case t.Kind() != reflect.Ptr && hasMethod(reflect.PtrTo(t), im.Name):
				what = "pointer-receiver-method-on-a-value"
			case func() bool {
				for k := 0; k < t.NumMethod(); k++ {
					if strings.EqualFold(t.Method(k).Name, im.Name) {
						return true
					}
				}
				return false
			}():
				what = "name-differs-in-case"
			case base.Kind() == reflect.Struct && func() bool { _, ok := base.FieldByName(im.Name); return ok }():
				what = "field-instead-of-method"
			}
			set[what] = true
			continue
		}
		mt, want := m.Type, im.Type // mt has the receiver as its first parameter
		switch {
		case mt.NumIn()-1 != want.NumIn():
			set["signature:arity"] = true
		case mt.NumOut() != want.NumOut():
			set["signature:number-of-results"] = true
		case mt.IsVariadic() != want.IsVariadic():
			set["signature:variadic"] = true
		default:
			same := true
			for k := 0; k < want.NumIn(); k++ {
				if mt.In(k+1) != want.In(k) {
					set["signature:parameter-type"] = true
					same = false
				}
			}
			for k := 0; k < want.NumOut(); k++ {
				if mt.Out(k) != want.Out(k) {
					set["signature:result-type"] = true
					same = false
				}
			}
			if same {
				continue // this method is fine
			}
		}
	}
	if len(set) == 0 {
		return "not-implementing(unclassified)"
	}
	var parts []string
	for k := range set {
		parts = append(parts, k)
	}
	sort.Strings(parts)
	return strings.Join(parts, "+")
}

// relationAtoms: everything relationOf can say about one interface method, the most conspicuous first.
// A pair is NAMED (fingerprints, representatives) after the most conspicuous thing that is wrong with it:
// a registry that accepts the pair overlooks that, and everything subtler the pair may have as well.
var relationAtoms = []string{
	"lacks-method",
	"pointer-receiver-method-on-a-value",
	"field-instead-of-method",
	"name-differs-in-case",
	"lacks-unexported-method",
	"unexported-method-of-another-package",
	"signature:arity",
	"signature:number-of-results",
	"signature:variadic",
	"signature:parameter-type",
	"signature:result-type",
}

func dominantAtom(relation string) string {
	has := map[string]bool{}
	for _, a := range strings.Split(relation, "+") {
		has[a] = true
	}
	for _, a := range relationAtoms {
		if has[a] {
			return a
		}
	}
	return relation
}

// ---------------------------------------------------------------- the op

const confPrefix = "conf("

func isConfKind(k string) bool { return strings.HasPrefix(k, confPrefix) && strings.HasSuffix(k, ")") }

func confOp(iface, handler, name string) string {
	return confPrefix + iface + "," + handler + "):" + name
}

// confCase: one (interface, handler value) pair as used by one op
type confCase struct {
	iface      *confIface
	hd         *confHandler
	h          interface{}
	implements bool   // the type assertion h.(I)
	relation   string // name of the relation when it does not implement
}

func confLookup(kind string) (*confIface, *confHandler) {
	in := kind[len(confPrefix) : len(kind)-1]
	c := strings.IndexByte(in, ',')
	if c < 0 {
		panic("bad conformance op kind " + kind)
	}
	var ci *confIface
	var ch *confHandler
	for i := range confIfaces {
		if confIfaces[i].name == in[:c] {
			ci = &confIfaces[i]
		}
	}
	for i := range confHandlers {
		if confHandlers[i].name == in[c+1:] {
			ch = &confHandlers[i]
		}
	}
	if ci == nil || ch == nil {
		panic("unknown interface or handler in conformance op kind " + kind)
	}
	return ci, ch
}

func newConfCase(kind, tag string) *confCase {
	ci, ch := confLookup(kind)
	cc := &confCase{iface: ci, hd: ch, h: ch.mk(tag)}
	cc.implements = ci.impl(cc.h)
	if !cc.implements {
		cc.relation = relationOf(reflect.TypeOf(ci.htype).Elem(), cc.h)
	}
	return cc
}

// confPair: a pair of the matrix with the verdict and the name of its relation
type confPair struct {
	iface, handler string
	implements     bool
	relation       string // "" when it implements
}

func (p confPair) kind() string { return confPrefix + p.iface + "," + p.handler + ")" }

// confMatrix: every (interface, handler) pair, interfaces outermost, in table order
func confMatrix() (pairs []confPair) {
	for _, ci := range confIfaces {
		for _, ch := range confHandlers {
			cc := newConfCase(confPrefix+ci.name+","+ch.name+")", "probe")
			pairs = append(pairs, confPair{ci.name, ch.name, cc.implements, cc.relation})
		}
	}
	return
}

// goodShapes: the handler values that stand for a way of implementing an interface other than "pointer
// to a struct with exactly these pointer-receiver methods"
var goodShapes = []string{"P3nil", "P3x", "V2val", "V2nil", "Salias", "E3ptr", "EvPtr", "EiVal", "Int", "Ua"}

// confRepresentatives: of the pairs that do not implement, for every atom the first pair with which
// nothing else is wrong; of the implementing ones, per interface the first handler that implements it
// (richest interfaces first, so that a truncated list keeps them), then for every handler of goodShapes
// the pair with the richest interface it implements.
func confRepresentatives(pairs []confPair) (ill, good []confPair) {
	for _, a := range relationAtoms {
		for _, p := range pairs {
			if !p.implements && p.relation == a {
				ill = append(ill, p)
				break
			}
		}
	}
	order := []string{"I3", "I2alien", "I2u", "I3e", "I2", "I1b", "I1", "I0"}
	chosen := map[string]bool{}
	for _, in := range order {
		for _, p := range pairs {
			if p.implements && p.iface == in {
				good = append(good, p)
				chosen[p.kind()] = true
				break
			}
		}
	}
	for _, h := range goodShapes {
	shape:
		for _, in := range order {
			for _, p := range pairs {
				if p.implements && p.iface == in && p.handler == h {
					if !chosen[p.kind()] {
						good = append(good, p)
						chosen[p.kind()] = true
					}
					break shape
				}
			}
		}
	}
	return
}

// confSelfCheck: the tables must make sense, or the dimension is not what it claims to be
func confSelfCheck(pairs []confPair) error {
	rel := map[string]int{}
	impl := 0
	for _, p := range pairs {
		if p.implements {
			impl++
		} else {
			rel[p.relation]++
		}
	}
	for _, need := range relationAtoms {
		if rel[need] == 0 {
			return fmt.Errorf("no pair of the conformance matrix has the relation %q on its own", need)
		}
	}
	if rel["not-implementing(unclassified)"] > 0 {
		return fmt.Errorf("%d pairs of the conformance matrix do not implement and have no named relation", rel["not-implementing(unclassified)"])
	}
	if impl == 0 || impl == len(pairs) {
		return fmt.Errorf("conformance matrix is one-sided: %d of %d pairs implement", impl, len(pairs))
	}
	return nil
}
