// C07: HTTP framing decodes safely: bounded memory, no panic, truncation is an error.
//
// Fault enumeration over two alphabets, each member run through the real
// httpgrpc client stream / server stream and compared with a small reference
// decoder (model.go):
//
//	A1  hostile bodies: every sequence of <= 3 frames over an alphabet of
//	    adversarial size prefixes x payload lengths x valid/invalid payloads,
//	    plus every byte string of length <= 5 over {00,01,7F,80,FF};
//	A2  truncation: genuine request/response bodies of every RPC kind x 0..3
//	    messages x ok / error+details+trailers, cut at EVERY byte offset, ending
//	    cleanly (io.EOF) and abruptly (io.ErrUnexpectedEOF).
//
// All library code runs in worker processes of this binary (--child) under a
// hard address-space cap, so a 2 GiB allocation on the strength of a prefix is
// measured (runtime.MemStats.TotalAlloc) without hurting the host.
package main

import (
	"bufio"
	"bytes"
	"encoding/json"
	"fmt"
	"os"
	"os/exec"
	"runtime"
	"sort"
	"strconv"
	"strings"
	"sync"
	"time"

	"verif/seq/common"
	"verif/vlib"
)

type hit struct {
	idx      int
	findings []Finding
	obs      *Obs
	crash    string
}

type workerOut struct {
	hits    []hit
	samples []hit
	hang    int
	err     error
	spawns  int
}

func hasFlag(name string) bool {
	for _, a := range os.Args[1:] {
		if a == "--"+name {
			return true
		}
	}
	return false
}

// spawn runs one worker and parses its protocol. It returns the index to
// restart from (-1 when the shard is done).
func spawn(exe string, args []string, of int, out *workerOut, sp *space) (next int) {
	cmd := exec.Command(exe, args...)
	var stderr bytes.Buffer
	cmd.Stderr = &stderr
	pipe, err := cmd.StdoutPipe()
	if err != nil {
		out.err = err
		return -1
	}
	if err := cmd.Start(); err != nil {
		out.err = err
		return -1
	}
	out.spawns++
	lastS, finished := -1, false
	next = -1
	sc := bufio.NewScanner(pipe)
	sc.Buffer(make([]byte, 1<<16), 1<<22)
	for sc.Scan() {
		l := sc.Text()
		if len(l) < 1 {
			continue
		}
		switch l[0] {
		case 'S':
			lastS, _ = strconv.Atoi(l[2:])
		case 'V', 'O':
			parts := strings.SplitN(l, " ", 3)
			idx, _ := strconv.Atoi(parts[1])
			var r childResult
			if err := json.Unmarshal([]byte(parts[2]), &r); err != nil {
				out.err = fmt.Errorf("bad worker line %q: %v", l, err)
				continue
			}
			if l[0] == 'V' {
				out.hits = append(out.hits, hit{idx: idx, findings: r.Findings, obs: r.Obs})
			} else {
				out.samples = append(out.samples, hit{idx: idx, findings: r.Findings, obs: r.Obs})
			}
		case 'F':
			next, _ = strconv.Atoi(l[2:])
			finished = true
		case 'D':
			finished = true
		case 'H':
			out.hang, _ = strconv.Atoi(l[2:])
			finished = true
		}
	}
	werr := cmd.Wait()
	if out.hang >= 0 {
		return -1
	}
	if finished && werr == nil {
		return next
	}
	if lastS < 0 {
		out.err = fmt.Errorf("worker failed before its first case: %v: %s", werr, tail(stderr.String(), 800))
		return -1
	}
	// the worker died inside case lastS
	out.hits = append(out.hits, hit{idx: lastS, crash: fmt.Sprintf("%v: %s", werr, crashSummary(stderr.String()))})
	if lastS+of >= sp.total() {
		return -1
	}
	return lastS + of
}

func tail(s string, n int) string {
	if len(s) > n {
		s = s[len(s)-n:]
	}
	return strings.ReplaceAll(s, "\n", " / ")
}

func crashSummary(stderr string) string {
	lines := strings.Split(stderr, "\n")
	var keep []string
	for _, l := range lines {
		if strings.HasPrefix(l, "panic:") || strings.HasPrefix(l, "fatal error:") || strings.HasPrefix(l, "runtime:") || strings.Contains(l, "httpgrpc.") {
			keep = append(keep, strings.TrimSpace(l))
		}
		if len(keep) >= 8 {
			break
		}
	}
	if len(keep) == 0 {
		return tail(stderr, 400)
	}
	return strings.Join(keep, " / ")
}

// crashFindings turns the death of a worker inside a case into findings.
func crashFindings(c *Case, crash string) []Finding {
	stop := stUnary
	if c.Mode != "unary" {
		stop = refModel(c.Side, c.Body()).Stop
	}
	switch {
	case strings.Contains(crash, "out of memory") || strings.Contains(crash, "cannot allocate memory"):
		return []Finding{{"alloc", stop, fmt.Sprintf("worker process died allocating under its %d GiB address-space cap: %s", hardCapAS>>30, crash)}}
	case strings.Contains(crash, "panic:"):
		return []Finding{{"panic", stop, "library goroutine panicked (process died): " + crash}}
	}
	return []Finding{{"crash", stop, "worker process died: " + crash}}
}

func baseFingerprint(c *Case, f Finding) string {
	cls := f.Stop
	if f.Clause != "alloc" && f.Stop != stTrailerOK && f.Stop != stTrailerErr {
		cls = c.ending() + "-" + f.Stop
	}
	return fmt.Sprintf("C07|%s/%s|%s|%s", c.Side, c.Mode, f.Clause, cls)
}

func describe(c *Case, h *hit, f Finding) string {
	s := f.What + fmt.Sprintf(" | input: %s [%s, %s %s, %s ending, delivery %s, body %d bytes", c.Label, c.Alphabet, c.Side, c.Mode, c.ending(), c.Delivery, len(c.Body()))
	if c.Synth == nil && len(c.BodyHex) <= 80 {
		s += " = " + c.BodyHex
	}
	s += "]"
	if h.obs != nil {
		s += fmt.Sprintf(" | observed: delivered %q, final error %q, allocated %d bytes", h.obs.DeliveredS, h.obs.FinalErr, h.obs.Alloc)
	}
	return s
}

func replayMain(rep *vlib.Reporter, exe, path string) {
	var c Case
	if err := common.LoadReplay(path, &c); err != nil {
		fmt.Fprintln(os.Stderr, "INCONCLUSIVE:", err)
		os.Exit(2)
	}
	out := &workerOut{hang: -1}
	sp := &space{nA1: 1}
	spawn(exe, []string{"--child", "--one", path}, 1, out, sp)
	if out.err != nil || out.hang >= 0 || len(out.hits) == 0 {
		fmt.Fprintln(os.Stderr, "INCONCLUSIVE: replay worker:", out.err, "hang:", out.hang)
		os.Exit(2)
	}
	h := out.hits[0]
	fs := h.findings
	if h.crash != "" {
		fs = crashFindings(&c, h.crash)
	}
	fmt.Printf("replay: %s | %s %s | %s ending | delivery %s | body %s\n", c.Label, c.Side, c.Mode, c.ending(), c.Delivery, c.BodyHex)
	if h.obs != nil {
		fmt.Printf("  observed: delivered %q, final error %q, panic %q, allocated %d bytes\n", h.obs.DeliveredS, h.obs.FinalErr, h.obs.Panic, h.obs.Alloc)
	}
	for _, f := range fs {
		fmt.Printf("  %s: %s\n", baseFingerprint(&c, f), f.What)
	}
	if len(fs) > 0 {
		fmt.Printf("VIOLATION property=C07 replay=%s\n", path)
		os.Exit(1)
	}
	os.Exit(0)
}

func main() {
	if hasFlag("child") {
		childMain()
		return
	}
	rep := vlib.NewReporter("C07")
	exe, err := os.Executable()
	if err != nil {
		fmt.Fprintln(os.Stderr, "INCONCLUSIVE:", err)
		os.Exit(2)
	}
	if p := common.Arg("replay"); p != "" {
		replayMain(rep, exe, p)
	}

	sp, err := buildSpace(rep.Tier)
	if err != nil {
		fmt.Fprintln(os.Stderr, "INCONCLUSIVE: recording the genuine bodies failed:", err)
		os.Exit(2)
	}
	if err := faithful(sp.recs); err != nil {
		fmt.Fprintln(os.Stderr, "INCONCLUSIVE:", err)
		os.Exit(2)
	}
	if err := genuineLarge(rep.Tier); err != nil {
		fmt.Fprintln(os.Stderr, "INCONCLUSIVE:", err)
		os.Exit(2)
	}
	total := sp.total()
	W := runtime.NumCPU() / 2
	if W > 8 {
		W = 8
	}
	if W < 1 {
		W = 1
	}
	if v, _ := strconv.Atoi(os.Getenv("VERIF_C07_WORKERS")); v > 0 {
		W = v
	}
	t0 := time.Now()
	outs := make([]*workerOut, W)
	var wg sync.WaitGroup
	for k := 0; k < W; k++ {
		outs[k] = &workerOut{hang: -1}
		wg.Add(1)
		go func(k int) {
			defer wg.Done()
			from := k
			for from >= 0 && from < total && outs[k].err == nil {
				from = spawn(exe, []string{"--child", "--tier", rep.Tier, "--shard", strconv.Itoa(k), "--of", strconv.Itoa(W),
					"--from", strconv.Itoa(from), "--spacehash", sp.hash(), "--sample-every", strconv.Itoa(total/7 + 1)}, W, outs[k], sp)
			}
		}(k)
	}
	wg.Wait()
	tWorkers := time.Since(t0)
	var hits, samp []hit
	spawns := 0
	for _, o := range outs {
		if o.err != nil {
			fmt.Fprintln(os.Stderr, "INCONCLUSIVE: worker:", o.err)
			os.Exit(2)
		}
		if o.hang >= 0 {
			c := sp.at(o.hang)
			b, _ := json.Marshal(c)
			fmt.Fprintf(os.Stderr, "INCONCLUSIVE: case %d did not finish within the hang guard: %s\n", o.hang, b)
			os.Exit(2)
		}
		hits = append(hits, o.hits...)
		samp = append(samp, o.samples...)
		spawns += o.spawns
	}
	sort.Slice(hits, func(i, j int) bool { return hits[i].idx < hits[j].idx })
	sort.Slice(samp, func(i, j int) bool { return samp[i].idx < samp[j].idx })

	// fingerprints: side/mode + clause + ending + class of the place where the
	// reference decoder stops. The delivery pattern is added only for classes
	// that do not also fail under the plain "whole" delivery.
	type vio struct {
		c *Case
		h *hit
		f Finding
	}
	var vios []vio
	whole := map[string]bool{}
	for i := range hits {
		h := &hits[i]
		c := sp.at(h.idx)
		fs := h.findings
		if h.crash != "" {
			fs = crashFindings(c, h.crash)
		}
		for _, f := range fs {
			vios = append(vios, vio{c, h, f})
			if c.Delivery == "whole" {
				whole[baseFingerprint(c, f)] = true
			}
		}
	}
	perFP := map[string]int{}
	for _, v := range vios {
		fp := baseFingerprint(v.c, v.f)
		if !whole[fp] {
			fp += "|delivery=" + v.c.Delivery
		}
		perFP[fp]++
		rep.Violation(fp, describe(v.c, v.h, v.f), v.c)
	}

	// coverage
	distinct := map[uint64]struct{}{}
	byClass := map[string]int{}
	for i := 0; i < total; i++ {
		c := sp.at(i)
		nt, cls := nontrivial(c)
		if !nt {
			continue
		}
		k := fnv64([]byte(c.Side + "|" + c.Mode + "|" + c.ending() + "|" + string(c.Body())))
		if _, ok := distinct[k]; !ok {
			distinct[k] = struct{}{}
			byClass[c.Side+"/"+cls]++
		}
	}
	var samples []interface{}
	for _, s := range samp {
		c := sp.at(s.idx)
		cls := ""
		if c.Mode != "unary" {
			cls = refModel(c.Side, c.Body()).Stop
		}
		samples = append(samples, map[string]interface{}{"case": c, "reference_stop": cls, "observed": s.obs, "findings": s.findings})
	}
	recNames := []string{}
	recBytes := 0
	for _, r := range sp.recs {
		recNames = append(recNames, fmt.Sprintf("%s [%s %s, %d bytes]", r.Name, r.Side, r.Mode, len(r.Body)))
		recBytes += len(r.Body) + 1
	}
	if os.Getenv("VERIF_C07_TIMING") != "" {
		fmt.Fprintf(os.Stderr, "timing: workers %v, total %v\n", tWorkers, time.Since(t0))
	}
	fmt.Printf("C07 %s: %d cases (%d A1 over %d hostile bodies, %d A2 over %d recorded bodies / %d cut points, %d A2-large over %d bodies / %d cut points), %d workers, %d worker starts, %d violating cases, %d fingerprints\n",
		rep.Tier, total, sp.nA1, sp.hostile.len(), sp.nA2, len(sp.recs), recBytes, sp.nLarge, len(largeSizes(rep.Tier)), len(sp.large), W, spawns, len(hits), len(perFP))
	os.Exit(rep.Finish("fault_enumeration", map[string]interface{}{
		"evaluations":         total,
		"distinct_nontrivial": len(distinct),
		"rule": "A1: every sequence of <=3 frames over the frame alphabet (12 prefixes x payload lengths {0,n-1,n,n+1} (n<=5) or {0,7} (huge) x valid/invalid payloads) plus every byte string of length <=5 over {00,01,7F,80,FF}, each fed to client stream (server-streaming and single-response) and server stream (client-streaming and single-request); " +
			"A2: every byte offset of every distinct recorded genuine body, clean and abrupt ending; A2-large: genuine request and response bodies of 3-6 consecutive large frames (64 KiB, 64 KiB+1, 1 MiB, mixed; thorough also 4 MiB), every message filled with its own index, complete and cut just after the prefix / in the middle / one byte before the end of every frame but the first, clean and abrupt ending, every delivered message compared byte for byte. thorough adds abrupt endings for A1, three delivery patterns of the body reader, long messages and a second error outcome. " +
			"A case is non-trivial when the reference decoder stops anywhere but at a complete trailer frame (client) / a clean end of a whole request (server), i.e. the decoder must validate a prefix, classify an EOF or detect a cut; distinct by (side, mode, ending, body bytes).",
		"nontrivial_by_class":   byClass,
		"frame_alphabet":        sp.nFrameSyms,
		"hostile_bodies":        sp.hostile.len(),
		"recorded_bodies":       recNames,
		"cut_points":            recBytes,
		"large_bodies":          largeSizes(rep.Tier),
		"large_cut_points":      len(sp.large),
		"large_cases":           sp.nLarge,
		"violating_cases":       len(hits),
		"cases_per_fingerprint": perFP,
		"worker_starts":         spawns,
		"samples":               samples,
		"exhaustive":            true,
	}, []string{
		"net/http is not exercised: client on a synthetic RoundTripper, server on httptest.ResponseRecorder; a body that ends abruptly is modelled by a reader returning io.ErrUnexpectedEOF (what net/http reports for a short chunked/Content-Length body); no real loopback connection is cut",
		"unary (unframed) bodies: only no-panic, bounded allocation and 'a failed body read delivers no message' are demanded; a cleanly shortened unary body cannot be told from a genuine one without Content-Length, which net/http enforces",
		"allocation is measured as runtime.MemStats.TotalAlloc growth around one decode in a worker process with RLIMIT_AS = 6 GiB; bound 100 MiB + 1 MiB",
		"server side: an abrupt end of the request exactly at a frame boundary and a negative size prefix are not required to be errors, only not to yield messages",
	}))
}
