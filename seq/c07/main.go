// C07: HTTP framing decodes safely: bounded memory, no panic, truncation is an error.
//
// Fault enumeration over two alphabets, each member run through the real
// httpgrpc client stream / server stream and compared with a small reference
// decoder (model.go):
//
//	A1  hostile bodies: every sequence of <= 3 frames over an alphabet of
//	    adversarial size prefixes x payload lengths x valid/invalid payloads,
//	    plus every byte string of length <= 5 over {00,01,7F,80,FF};
//	A2  truncation: genuine request/response bodies of every RPC kind x 0..3
//	    messages x ok / error+details+trailers, cut at EVERY byte offset, ending
//	    cleanly (io.EOF) and abruptly (io.ErrUnexpectedEOF).
//
// Further dimensions are swept around every one of these bodies (gen.go,
// buildSpace; the last two: dims.go): READ FRAGMENTATION (one byte per Read; every single read
// boundary 1..len-1, thorough: every pair; the ending reported with the last
// bytes) and the DECLARED LENGTH of the body (ContentLength / Content-Length of
// the reply resp. request: not declared, 0, the true length, the length of the
// uncut body, 1 GiB, 1 TiB). The oracle is the reference decoder of the body
// bytes alone, so neither may change the outcome; and a complete genuine body
// must decode to what the genuine run delivered under every fragmentation.
// DESTINATION MESSAGE OBJECT: what RecvMsg is given to decode into (a fresh
// zero message per receive; a fresh one that already holds a value; one object
// reused for every receive, zero or holding a value before the first), with
// message sequences in which all-default messages (zero-size frames) follow
// non-empty ones (A1 has the zero-size frame; the A2 recordings cover every
// pattern of empty / non-empty messages of length <= 3). THE CONTEXT ENDS AT A
// FRAME-GRANULAR INSTANT: for every complete recorded response, every pair
// (frames the body has released = K, messages the consumer has taken = J <= K),
// consumer between two RecvMsg calls or inside the next one, the call's context
// is cancelled / its deadline passes exactly there (a body whose Read blocks at
// a gate), the harness waits until the reader goroutine has left and drains the
// stream: a prefix, and a clean end only after a complete OK trailer with every
// message delivered.
// WHICH RETURN CARRIES THE CALL'S OUTCOME (verdict.go): a call with a single
// response tells its application the outcome with the return of the one RecvMsg
// that hands over the response (nil = success); that return is judged like the
// io.EOF of a response stream, in every case of the decoder client/single.
//
// All library code runs in worker processes of this binary (--child) under a
// hard address-space cap, so a 2 GiB allocation on the strength of a prefix is
// measured (runtime.MemStats.TotalAlloc) without hurting the host.
package main

import (
	"bufio"
	"bytes"
	"encoding/json"
	"fmt"
	"os"
	"os/exec"
	"runtime"
	"sort"
	"strconv"
	"strings"
	"sync"
	"time"

	"verif/seq/common"
	"verif/vlib"
)

type hit struct {
	idx      int
	findings []Finding
	obs      *Obs
	crash    string
}

type workerOut struct {
	hits    []hit
	samples []hit
	hang    int
	err     error
	spawns  int
	skipped int
}

// A case in which the worker process dies (a panic in a goroutine of the
// library, an allocation beyond the address-space cap) costs a process start.
// A broken tree can make tens of thousands of cases die the same death; once
// crashLimit cases of one class (decoder, ending, place where the reference
// decoder stops) have died, the workers skip the other cases of that class.
// Skipped cases are counted and make the run non-exhaustive; nothing is ever
// skipped on a tree where no worker dies.
const crashLimit = 3

var (
	crashMu    sync.Mutex
	crashCount = map[string]int{}
)

func crashClass(c *Case) string {
	stop := stUnary
	if c.Mode != "unary" {
		stop = refModel(c.Side, c.Visible()).Stop
	}
	return c.Side + "/" + c.Mode + "/" + c.ending() + "/" + stop
}

func skipList() string {
	crashMu.Lock()
	defer crashMu.Unlock()
	var ks []string
	for k, n := range crashCount {
		if n >= crashLimit {
			ks = append(ks, k)
		}
	}
	sort.Strings(ks)
	return strings.Join(ks, ",")
}

func hasFlag(name string) bool {
	for _, a := range os.Args[1:] {
		if a == "--"+name {
			return true
		}
	}
	return false
}

// spawn runs one worker and parses its protocol. It returns the index to
// restart from (-1 when the shard is done).
func spawn(exe string, args []string, of int, out *workerOut, sp *space) (next int) {
	cmd := exec.Command(exe, args...)
	var stderr bytes.Buffer
	cmd.Stderr = &stderr
	pipe, err := cmd.StdoutPipe()
	if err != nil {
		out.err = err
		return -1
	}
	if err := cmd.Start(); err != nil {
		out.err = err
		return -1
	}
	out.spawns++
	lastS, finished := -1, false
	next = -1
	sc := bufio.NewScanner(pipe)
	sc.Buffer(make([]byte, 1<<16), 1<<22)
	for sc.Scan() {
		l := sc.Text()
		if len(l) < 1 {
			continue
		}
		switch l[0] {
		case 'S':
			lastS, _ = strconv.Atoi(l[2:])
		case 'V', 'O':
			parts := strings.SplitN(l, " ", 3)
			idx, _ := strconv.Atoi(parts[1])
			var r childResult
			if err := json.Unmarshal([]byte(parts[2]), &r); err != nil {
				out.err = fmt.Errorf("bad worker line %q: %v", l, err)
				continue
			}
			if l[0] == 'V' {
				out.hits = append(out.hits, hit{idx: idx, findings: r.Findings, obs: r.Obs})
			} else {
				out.samples = append(out.samples, hit{idx: idx, findings: r.Findings, obs: r.Obs})
			}
		case 'K':
			out.skipped++
		case 'F':
			next, _ = strconv.Atoi(l[2:])
			finished = true
		case 'D':
			finished = true
		case 'H':
			out.hang, _ = strconv.Atoi(l[2:])
			finished = true
		}
	}
	werr := cmd.Wait()
	if out.hang >= 0 {
		return -1
	}
	if finished && werr == nil {
		return next
	}
	if lastS < 0 {
		out.err = fmt.Errorf("worker failed before its first case: %v: %s", werr, tail(stderr.String(), 800))
		return -1
	}
	// the worker died inside case lastS
	out.hits = append(out.hits, hit{idx: lastS, crash: fmt.Sprintf("%v: %s", werr, crashSummary(stderr.String()))})
	if sp.blocks != nil {
		k := crashClass(sp.at(lastS))
		crashMu.Lock()
		crashCount[k]++
		crashMu.Unlock()
	}
	if lastS+of >= sp.total() {
		return -1
	}
	return lastS + of
}

func tail(s string, n int) string {
	if len(s) > n {
		s = s[len(s)-n:]
	}
	return strings.ReplaceAll(s, "\n", " / ")
}

func crashSummary(stderr string) string {
	lines := strings.Split(stderr, "\n")
	var keep []string
	for _, l := range lines {
		if strings.HasPrefix(l, "panic:") || strings.HasPrefix(l, "fatal error:") || strings.HasPrefix(l, "runtime:") || strings.Contains(l, "httpgrpc.") {
			keep = append(keep, strings.TrimSpace(l))
		}
		if len(keep) >= 8 {
			break
		}
	}
	if len(keep) == 0 {
		return tail(stderr, 400)
	}
	return strings.Join(keep, " / ")
}

// crashFindings turns the death of a worker inside a case into findings.
func crashFindings(c *Case, crash string) []Finding {
	stop := stUnary
	if c.Mode != "unary" {
		stop = refModel(c.Side, c.Visible()).Stop
	}
	switch {
	case strings.Contains(crash, "out of memory") || strings.Contains(crash, "cannot allocate memory"):
		return []Finding{{"alloc", stop, fmt.Sprintf("worker process died allocating under its %d GiB address-space cap: %s", hardCapAS>>30, crash)}}
	case strings.Contains(crash, "panic:"):
		return []Finding{{"panic", stop, "library goroutine panicked (process died): " + crash}}
	}
	return []Finding{{"crash", stop, "worker process died: " + crash}}
}

func baseFingerprint(c *Case, f Finding) string {
	cls := f.Stop
	if f.Clause != "alloc" && f.Stop != stTrailerOK && f.Stop != stTrailerErr {
		cls = c.ending() + "-" + f.Stop
	}
	return fmt.Sprintf("C07|%s/%s|%s|%s", c.Side, c.Mode, f.Clause, cls)
}

// variantTags names how a case departs from the plain presentation of its body
// (in one piece, length not declared, received into fresh zero messages, the
// context alive throughout): the class of its read fragmentation, of the
// declared length, the kind of destination object and the way the context
// ends. Display order: delivery, length, destination, context.
type tag struct {
	dim, val string
	prio     int // the order in which single dimensions are tried as the explanation of a failure
}

func (t tag) String() string { return t.dim + "=" + t.val }

func variantTags(c *Case) []tag {
	var out []tag
	if c.Delivery != "whole" {
		out = append(out, tag{"delivery", deliveryClass(c), 1})
	}
	if c.CL != nil {
		out = append(out, tag{"content-length", clClass(c), 0})
	}
	if c.Dest != "" {
		out = append(out, tag{"dest", c.Dest, 2})
	}
	if c.Ctx != nil {
		out = append(out, tag{"ctx", c.Ctx.class(), 3})
	}
	return out
}

func joinTags(ts []tag) string {
	var ss []string
	for _, t := range ts {
		ss = append(ss, t.String())
	}
	return strings.Join(ss, "|")
}

func variantTag(c *Case) string { return joinTags(variantTags(c)) }

// subsetsBySize lists the subsets of ts (each in display order), smaller ones
// first and, among those of one size, the ones made of dimensions that are
// tried first first.
func subsetsBySize(ts []tag) [][]tag {
	n := len(ts)
	type sub struct {
		ts   []tag
		rank []int
	}
	var subs []sub
	for m := 0; m < 1<<uint(n); m++ {
		var x sub
		for i := 0; i < n; i++ {
			if m&(1<<uint(i)) != 0 {
				x.ts = append(x.ts, ts[i])
				x.rank = append(x.rank, ts[i].prio)
			}
		}
		sort.Ints(x.rank)
		subs = append(subs, x)
	}
	sort.SliceStable(subs, func(i, j int) bool {
		a, b := subs[i], subs[j]
		if len(a.ts) != len(b.ts) {
			return len(a.ts) < len(b.ts)
		}
		for k := range a.rank {
			if a.rank[k] != b.rank[k] {
				return a.rank[k] < b.rank[k]
			}
		}
		return false
	})
	out := make([][]tag, len(subs))
	for i, x := range subs {
		out[i] = x.ts
	}
	return out
}

func clClass(c *Case) string {
	switch v := *c.CL; {
	case v < 0:
		return "none"
	case v == 0:
		return "0"
	case v == int64(len(c.Body())):
		return "body-length"
	case v == int64(c.FullLen):
		return "uncut-length"
	case v == clGiB:
		return "1GiB"
	case v == clTiB:
		return "1TiB"
	default:
		return "other"
	}
}

func presentation(c *Case) string {
	s := "delivery " + c.Delivery
	if c.Delivery == "split" {
		s += fmt.Sprintf(" at %v (%s)", c.Splits, deliveryClass(c))
	}
	if c.CL != nil {
		s += fmt.Sprintf(", declared Content-Length %d", *c.CL)
	}
	if c.Dest != "" {
		s += ", destination " + c.Dest
	}
	if c.Ctx != nil {
		s += ", " + c.Ctx.text()
	}
	return s
}

func describe(c *Case, h *hit, f Finding) string {
	s := f.What + fmt.Sprintf(" | input: %s [%s, %s %s, %s ending, %s, body %d bytes", c.Label, c.Alphabet, c.Side, c.Mode, c.ending(), presentation(c), len(c.Body()))
	if c.Synth == nil && len(c.BodyHex) <= 80 {
		s += " = " + c.BodyHex
	}
	s += "]"
	if h.obs != nil {
		s += fmt.Sprintf(" | observed: delivered %q, final error %q, allocated %d bytes", h.obs.DeliveredS, h.obs.FinalErr, h.obs.Alloc)
	}
	return s
}

func replayMain(rep *vlib.Reporter, exe, path string) {
	var c Case
	if err := common.LoadReplay(path, &c); err != nil {
		fmt.Fprintln(os.Stderr, "INCONCLUSIVE:", err)
		os.Exit(2)
	}
	out := &workerOut{hang: -1}
	sp := &space{starts: []int{0, 1}}
	spawn(exe, []string{"--child", "--one", path}, 1, out, sp)
	if out.err != nil || out.hang >= 0 || len(out.hits) == 0 {
		fmt.Fprintln(os.Stderr, "INCONCLUSIVE: replay worker:", out.err, "hang:", out.hang)
		os.Exit(2)
	}
	h := out.hits[0]
	fs := h.findings
	if h.crash != "" {
		fs = crashFindings(&c, h.crash)
	}
	fmt.Printf("replay: %s | %s %s | %s ending | %s | body %s\n", c.Label, c.Side, c.Mode, c.ending(), presentation(&c), c.BodyHex)
	if h.obs != nil {
		fmt.Printf("  observed: delivered %q, final error %q, panic %q, allocated %d bytes\n", h.obs.DeliveredS, h.obs.FinalErr, h.obs.Panic, h.obs.Alloc)
	}
	for _, f := range fs {
		fp := baseFingerprint(&c, f)
		if t := variantTag(&c); t != "" {
			fp += " [" + t + "]"
		}
		fmt.Printf("  %s: %s\n", fp, f.What)
	}
	if len(fs) > 0 {
		fmt.Printf("VIOLATION property=C07 replay=%s\n", path)
		os.Exit(1)
	}
	os.Exit(0)
}

func main() {
	if hasFlag("child") {
		childMain()
		return
	}
	rep := vlib.NewReporter("C07")
	exe, err := os.Executable()
	if err != nil {
		fmt.Fprintln(os.Stderr, "INCONCLUSIVE:", err)
		os.Exit(2)
	}
	if p := common.Arg("replay"); p != "" {
		replayMain(rep, exe, p)
	}

	sp, err := buildSpace(rep.Tier)
	if err != nil {
		fmt.Fprintln(os.Stderr, "INCONCLUSIVE: recording the genuine bodies failed:", err)
		os.Exit(2)
	}
	for _, selfTest := range []func() error{harnessSelfTest, gateSelfTest, destSelfTest, oracleSelfTest, verdictSelfTest} {
		if err := selfTest(); err != nil {
			fmt.Fprintln(os.Stderr, "INCONCLUSIVE:", err)
			os.Exit(2)
		}
	}
	if err := faithful(sp.recs); err != nil {
		fmt.Fprintln(os.Stderr, "INCONCLUSIVE:", err)
		os.Exit(2)
	}
	if err := genuineLarge(rep.Tier); err != nil {
		fmt.Fprintln(os.Stderr, "INCONCLUSIVE:", err)
		os.Exit(2)
	}
	total := sp.total()
	W := runtime.NumCPU() / 2
	if W > 8 {
		W = 8
	}
	if W < 1 {
		W = 1
	}
	if v, _ := strconv.Atoi(os.Getenv("VERIF_C07_WORKERS")); v > 0 {
		W = v
	}
	t0 := time.Now()
	outs := make([]*workerOut, W)
	var wg sync.WaitGroup
	for k := 0; k < W; k++ {
		outs[k] = &workerOut{hang: -1}
		wg.Add(1)
		go func(k int) {
			defer wg.Done()
			from := k
			for from >= 0 && from < total && outs[k].err == nil {
				from = spawn(exe, []string{"--child", "--tier", rep.Tier, "--shard", strconv.Itoa(k), "--of", strconv.Itoa(W),
					"--from", strconv.Itoa(from), "--spacehash", sp.hash(), "--skip", skipList()}, W, outs[k], sp)
			}
		}(k)
	}
	wg.Wait()
	tWorkers := time.Since(t0)
	var hits, samp []hit
	spawns, skipped := 0, 0
	for _, o := range outs {
		if o.err != nil {
			fmt.Fprintln(os.Stderr, "INCONCLUSIVE: worker:", o.err)
			os.Exit(2)
		}
		if o.hang >= 0 {
			c := sp.at(o.hang)
			b, _ := json.Marshal(c)
			fmt.Fprintf(os.Stderr, "INCONCLUSIVE: case %d did not finish within the hang guard: %s\n", o.hang, b)
			os.Exit(2)
		}
		hits = append(hits, o.hits...)
		samp = append(samp, o.samples...)
		spawns += o.spawns
		skipped += o.skipped
	}
	sort.Slice(hits, func(i, j int) bool { return hits[i].idx < hits[j].idx })
	sort.Slice(samp, func(i, j int) bool { return samp[i].idx < samp[j].idx })

	// fingerprints: side/mode + clause + ending + class of the place where the
	// reference decoder stops. Of the swept dimensions (read fragmentation,
	// declared length, destination object, context end) a fingerprint names only
	// those without which this class does not fail: the smallest set of the
	// case's departures from the plain presentation under which the class fails.
	type vio struct {
		c *Case
		h *hit
		f Finding
	}
	var vios []vio
	failedWith := map[string]bool{}
	for i := range hits {
		h := &hits[i]
		c := sp.at(h.idx)
		fs := h.findings
		if h.crash != "" {
			fs = crashFindings(c, h.crash)
		}
		for _, f := range fs {
			vios = append(vios, vio{c, h, f})
			failedWith[baseFingerprint(c, f)+"|"+variantTag(c)] = true
		}
	}
	perFP := map[string]int{}
	for _, v := range vios {
		fp := baseFingerprint(v.c, v.f)
		for _, sub := range subsetsBySize(variantTags(v.c)) {
			if failedWith[fp+"|"+joinTags(sub)] {
				if len(sub) > 0 {
					fp += "|" + joinTags(sub)
				}
				break
			}
		}
		perFP[fp]++
		rep.Violation(fp, describe(v.c, v.h, v.f), v.c)
	}

	// coverage: distinct non-trivial cases, counted in parallel (hash of all the
	// case parameters), by class of the reference decoder's stop
	nG := runtime.NumCPU()
	if nG > 16 {
		nG = 16
	}
	type part struct {
		keys    map[string][]uint64
		verdict map[string][]uint64 // single-response calls that must be refused their success although a response is there, by reference stop
	}
	parts := make([]part, nG)
	var cw sync.WaitGroup
	for g := 0; g < nG; g++ {
		cw.Add(1)
		go func(g int) {
			defer cw.Done()
			sq := sp
			pt := part{keys: map[string][]uint64{}, verdict: map[string][]uint64{}}
			lo, hi := total*g/nG, total*(g+1)/nG
			for i := lo; i < hi; i++ {
				c := sq.at(i)
				nt, cls := nontrivial(c)
				vr, vcls := verdictWithResponse(c)
				if !nt && !vr {
					continue
				}
				cl := "-"
				if c.CL != nil {
					cl = strconv.FormatInt(*c.CL, 10)
				}
				cx := "-"
				if c.Ctx != nil {
					cx = fmt.Sprint(*c.Ctx)
				}
				k := fnv64([]byte(c.Side + "|" + c.Mode + "|" + c.ending() + "|" + c.Delivery + fmt.Sprint(c.Splits) + "|" + cl + "|" + c.Dest + "|" + cx + "|" + string(c.Body())))
				if nt {
					pt.keys[c.Side+"/"+cls] = append(pt.keys[c.Side+"/"+cls], k)
				}
				if vr {
					pt.verdict[vcls] = append(pt.verdict[vcls], k)
				}
			}
			parts[g] = pt
		}(g)
	}
	cw.Wait()
	nDistinct := 0
	byClass := map[string]int{}
	merged := map[string][]uint64{}
	for _, pt := range parts {
		for cls, ks := range pt.keys {
			merged[cls] = append(merged[cls], ks...)
		}
	}
	distinct := func(ks []uint64) int {
		sort.Slice(ks, func(i, j int) bool { return ks[i] < ks[j] })
		n := 0
		for i := range ks {
			if i == 0 || ks[i] != ks[i-1] {
				n++
			}
		}
		return n
	}
	for cls, ks := range merged {
		n := distinct(ks)
		byClass[cls] = n
		nDistinct += n
	}
	verdictMerged := map[string][]uint64{}
	for _, pt := range parts {
		for cls, ks := range pt.verdict {
			verdictMerged[cls] = append(verdictMerged[cls], ks...)
		}
	}
	verdictByStop, nVerdict := map[string]int{}, 0
	for cls, ks := range verdictMerged {
		n := distinct(ks)
		verdictByStop[cls] = n
		nVerdict += n
	}
	var samples []interface{}
	for _, s := range samp {
		c := sp.at(s.idx)
		cls := ""
		if c.Mode != "unary" {
			cls = refModel(c.Side, c.Visible()).Stop
		}
		samples = append(samples, map[string]interface{}{"case": c, "reference_stop": cls, "observed": s.obs, "findings": s.findings})
	}
	recNames := []string{}
	recBytes := 0
	for _, r := range sp.recs {
		recNames = append(recNames, fmt.Sprintf("%s [%s %s, %d bytes]", r.Name, r.Side, r.Mode, len(r.Body)))
		recBytes += len(r.Body) + 1
	}
	if os.Getenv("VERIF_C07_TIMING") != "" {
		fmt.Fprintf(os.Stderr, "timing: workers %v, total %v\n", tWorkers, time.Since(t0))
	}
	var blockList []string
	for _, b := range sp.blocks {
		blockList = append(blockList, fmt.Sprintf("%d %s", b.n, b.name))
	}
	fmt.Printf("C07 %s: %d cases (%s; %d hostile bodies, %d recorded bodies / %d cut points, %d large bodies / %d cut points), %d workers, %d worker starts, %d violating cases, %d fingerprints%s\n",
		rep.Tier, total, strings.Join(blockList, ", "), sp.hostile.len(), len(sp.recs), recBytes, len(largeSizes(rep.Tier)), len(sp.large), W, spawns, len(hits), len(perFP),
		map[bool]string{false: "", true: fmt.Sprintf("; %d cases SKIPPED because %d cases of their class had already killed the worker process", skipped, crashLimit)}[skipped > 0])
	fragRule := "every single read boundary (offsets 1..len-1; no Read of the body crosses it) and the ending reported together with the last bytes"
	lenRule := "hostile bodies of <=2 frames and the byte strings"
	if rep.Tier == "thorough" {
		fragRule = "every single read boundary and every pair of read boundaries (offsets 1..len-1)"
		lenRule = "all hostile bodies"
	}
	os.Exit(rep.Finish("fault_enumeration", map[string]interface{}{
		"evaluations":         total,
		"distinct_nontrivial": nDistinct,
		"rule": fmt.Sprintf("A1: every sequence of <=3 frames over the frame alphabet (%d prefixes x payload lengths {0,n-1,n,n+1} (n<=5) or {0,7} (larger) x valid/invalid payloads) plus every byte string of length <=5 over {00,01,7F,80,FF}, each fed to client stream (server-streaming and single-response) and server stream (client-streaming and single-request); ", len(prefixes)) +
			"A2: every byte offset of every distinct recorded genuine body, clean and abrupt ending; A2-large: genuine request and response bodies of 3-6 consecutive large frames (64 KiB, 64 KiB+1, 1 MiB, mixed; thorough also 4 MiB), every message filled with its own index, complete and cut just after the prefix / in the middle / one byte before the end of every frame but the first, clean and abrupt ending, every delivered message compared byte for byte. " +
			fmt.Sprintf("Base presentation of every body: delivered in one piece and one byte per Read%s, length not declared (ContentLength -1; unary replies: as recorded). ", map[bool]string{true: " and with the ending reported together with the last bytes", false: ""}[rep.Tier == "thorough"]) +
			"Dimension READ FRAGMENTATION, swept around the base cases: A1-frag = hostile bodies of <=2 frames and the byte strings x 4 decoders x endings x " + fragRule + "; " +
			fmt.Sprintf("A2-frag = every cut of every recorded body of <= %d bytes (longer recordings: the complete body only) x clean/abrupt x the same fragmentations (pairs: recordings of <= %d bytes); ", sp.splitRecMax, sp.pairRecMax) +
			"A2-large-frag = every large body and cut x clean/abrupt x one read boundary of every class for every frame (1, 2, 3 bytes into the size preface, right after it, mid-payload, at the frame end); the full one-byte-per-read pattern is crossed with everything. " +
			"Dimension DECLARED LENGTH (ContentLength field and Content-Length header of the reply on the client side, of the request on the server side), swept around the base cases over {0, length of the body, length of the uncut body, 1 GiB, 1 TiB} (-1 is the base): A1-len = " + lenRule + " x 4 decoders, clean ending, one piece; A2-len = every cut of every recorded body x clean/abrupt x the base deliveries; A2-large-len = every large body and cut x clean/abrupt, one piece. " +
			"Dimension DESTINATION MESSAGE OBJECT (what RecvMsg / the unary decode function / Invoke is given to decode into), swept around the base cases over {a fresh message that already holds a value, one zero message reused for every receive of the stream, one reused message that holds a value before the first receive} (a fresh zero message per receive is the base; unary bodies are one receive: fresh-prepopulated only): A1-dest = " + lenRule + " x 4 decoders, clean ending, one piece (the frame alphabet has the zero-size data frame, so every sequence of <=" + map[bool]string{false: "2", true: "3"}[rep.Tier == "thorough"] + " frames in which an all-default message follows a non-empty one is there); A2-dest = every cut of every recorded body x clean/abrupt x the base deliveries; A2-large-dest = every large body and cut x clean/abrupt, one piece. The recordings of A2 now cover every pattern of empty (all-default, zero-size frame) and non-empty messages of length <=3 as request stream and as response stream (x ok / error outcome), and the empty message as single request, single response, unary request and unary reply. What a receive yields is recorded before the next receive. " +
			fmt.Sprintf("Dimension THE CONTEXT ENDS AT A FRAME-GRANULAR INSTANT (client decoders): A2-ctx = every complete recorded response (n data frames + trailer; %d (response, instant) pairs) x every K in 0..n+1 (the body releases K frames, n+1 = all of it; a Read beyond them blocks) x every J in 0..min(K,n) (RecvMsg calls the consumer has completed; J<K: the reader goroutine holds a frame nobody takes) with the consumer between two RecvMsg calls, and J=K with the consumer inside its next RecvMsg (single-response calls: J=0 before the stream has ended, 'inside' = inside the first RecvMsg) x {the context is cancelled, a real deadline passes} x the base deliveries. The context ends when the body has reported that the reader goroutine has read frame J+1 / has arrived at the gate and the consumer is where the case wants it (channels; a deadline attempt counts only if the deadline had not passed when that state was reached, otherwise it is repeated with a later deadline); from then on every Read of the body fails with the context's error; the harness waits until the reader goroutine has closed the body and then drains the stream with RecvMsg. Oracle: the one below applied to the frames that were released; which error is reported is not looked at. ", len(sp.ctxBases)) +
			"Dimension WHICH RETURN CARRIES THE CALL'S OUTCOME (verdict.go): the application of a call with a single response (generated CloseAndRecv of a client-streaming method, a unary method invoked through NewStream) makes ONE RecvMsg and takes its return as the outcome of the call, nil = success with that response; the receive loop of the harness makes that call as its first one, so every case of the decoder client/single in every block above is a case of that application too, and every return of the recorded sequence that reports success is judged (nil from a RecvMsg of a single-response call: only after exactly one data frame and a complete OK trailer; io.EOF as before), not only the error the sequence ends with. single_response_refusals counts the distinct cases in which the reference decoder has an intact response to hand over and the success must be refused all the same (cut or invalid bytes after the response frame, a failure trailer, a second data frame, the context ends before the trailer is released). The A2 recordings include, for single-response calls, a handler that sends its response (non-empty / all-default) and then fails. " +
			"Oracle for all of it: the reference decoder of the body bytes alone (delivered messages are an intact prefix of the complete data frames, success only after a complete OK trailer / clean end of a whole request, allocation bound, no panic), so the outcome may not depend on the fragmentation or the declared length; and a complete genuine body with a clean ending and a consistent declared length must decode to exactly what the genuine run delivered, under every fragmentation. thorough adds abrupt endings for A1, long messages and a second error outcome. " +
			"A case is non-trivial when the reference decoder stops anywhere but at a complete trailer frame (client) / a clean end of a whole request (server), i.e. the decoder must validate a prefix, classify an EOF or detect a cut, or when a read boundary falls inside a frame (size preface or payload) so that the decoder must reassemble it; a case of the destination dimension is non-trivial when the reference decoder delivers a message into a destination that is not zero (>=1 message for the pre-populated kinds, >=2 for the reused zero message; classes dest:*); a case of the context dimension when the context ends before the stream is over (everything but K=n+1,J=n; classes ctx:*); distinct by (side, mode, ending, delivery and read boundaries, declared length, destination kind, context instant, body bytes).",
		"destinations":                         "fresh zero message per receive (base) | fresh-prepop | reused | reused-prepop",
		"outcome_carrying_returns":             "client response stream: io.EOF from RecvMsg | client single response: nil from the RecvMsg that hands over the response, io.EOF from RecvMsg | server: io.EOF from RecvMsg | unary: the return of Invoke / of the decode function",
		"single_response_refusals":             nVerdict,
		"single_response_refusals_by_stop":     verdictByStop,
		"context_end_instants":                 len(sp.ctxBases),
		"blocks":                               sp.blockSizes(),
		"prefixes":                             prefixes,
		"declared_lengths":                     "not declared (-1) | 0 | len(body) | len(uncut body) | 1<<30 | 1<<40",
		"nontrivial_by_class":                  byClass,
		"frame_alphabet":                       sp.nFrameSyms,
		"hostile_bodies":                       sp.hostile.len(),
		"recorded_bodies":                      recNames,
		"cut_points":                           recBytes,
		"large_bodies":                         largeSizes(rep.Tier),
		"large_cut_points":                     len(sp.large),
		"large_cases":                          sp.nLarge,
		"violating_cases":                      len(hits),
		"cases_per_fingerprint":                perFP,
		"worker_starts":                        spawns,
		"skipped_after_repeated_worker_deaths": skipped,
		"samples":                              samples,
		"exhaustive":                           skipped == 0,
	}, []string{
		"net/http is not exercised: client on a synthetic RoundTripper, server on httptest.ResponseRecorder; a body that ends abruptly is modelled by a reader returning io.ErrUnexpectedEOF (what net/http reports for a short chunked/Content-Length body); no real loopback connection is cut",
		"unary (unframed) bodies: only no-panic, bounded allocation and 'a failed body read delivers no message' are demanded; a cleanly shortened unary body cannot be told from a genuine one without Content-Length, which net/http enforces",
		fmt.Sprintf("allocation is measured as runtime.MemStats.TotalAlloc growth around one decode in a worker process with RLIMIT_AS = %d GiB; bound 100 MiB + 1 MiB", hardCapAS>>30),
		"read fragmentation, declared length, destination object and context end are swept around the base cases, not crossed with each other (except one-byte reads x each of the others on the recorded bodies); 3-frame hostile bodies and recordings longer than 200 bytes get one-byte reads but not every single read boundary",
		"destination objects: the messages are wrapperspb.StringValue (one scalar field), so 'the destination is not reset' shows only when an all-default message is decoded into a destination that holds a value; that is why empty messages after non-empty ones are in both alphabets",
		"context end: the body is synthetic (Read blocks at a gate and fails with the context's error once the context has ended, like the body of net/http); the context is ended from outside at an instant fixed by the body's channels, a deadline is a real timer that is only waited for, never measured; only client streams (the server decodes synchronously inside RecvMsg: a context that ends there is a failed body Read, which the abrupt endings cover); the instants are frame-granular (K whole frames released), the byte-granular cuts are the A2 truncations",
		"a declared length that disagrees with the body is an inconsistent input net/http itself would not produce; for it only the safety clauses are demanded (no panic, allocation bound, no fabricated or altered message, no success without a complete OK trailer), not that all messages of the body are delivered",
		"outcome-carrying returns: the single-response application (one RecvMsg, nil = success) is not run as a consumer of its own: its only call is the first call of the receive loop, made in the same state, so the loop's record contains what it is told; on the server side the nil return of the RecvMsg of a single-request method is not treated as 'the request is complete' (grpc-go's server does not look beyond the one request either); the receive loop stops at the first error: what a RecvMsg would return after the call has been reported as failed is not explored",
		"server side: an abrupt end of the request exactly at a frame boundary and a negative size prefix are not required to be errors, only not to yield messages",
	}))
}
