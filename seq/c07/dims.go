package main

import (
	"encoding/binary"
	"fmt"

	"google.golang.org/protobuf/proto"
	"google.golang.org/protobuf/types/known/wrapperspb"
)

// ---- dimension DESTINATION MESSAGE OBJECT --------------------------------
//
// What the application hands to RecvMsg (resp. to the decode function of a
// unary handler, to Invoke as the reply): the decoder must yield exactly the
// message that was encoded whatever that object held before, as
// proto.Unmarshal does for the standard transport (it resets the destination).
//
//	""             a fresh zero message for every receive (the base case)
//	fresh-prepop   a fresh message for every receive that already holds a value
//	reused         one zero message, handed to every receive of the stream
//	reused-prepop  one message that holds a value before the first receive,
//	               handed to every receive of the stream
//
// A reused destination holds message i-1 when message i is decoded into it, so
// message sequences in which an all-default (zero-size) message follows a
// non-empty one are what makes the difference observable: the frame alphabet
// of A1 has the zero-size frame, and the recordings of A2 cover every pattern
// of empty / non-empty messages of length <= 3.

var destValues = []string{"fresh-prepop", "reused", "reused-prepop"}

// a unary body is one receive: reused and fresh are the same thing there
var destValuesUnary = []string{"fresh-prepop"}

func destFor(mode string) []string {
	if mode == "unary" {
		return destValuesUnary
	}
	return destValues
}

// staleValue is what a pre-populated destination holds before receive i. No
// encoded message of any alphabet has such a value.
func staleValue(i int) string { return fmt.Sprintf("stale-destination-content#%d", i) }

// destSource hands out the destination objects of one stream.
type destSource struct {
	kind   string
	shared *wrapperspb.StringValue
}

func newDest(kind string) *destSource { return &destSource{kind: kind} }

func (d *destSource) next(i int) *wrapperspb.StringValue {
	switch d.kind {
	case "fresh-prepop":
		return &wrapperspb.StringValue{Value: staleValue(i)}
	case "reused", "reused-prepop":
		if d.shared == nil {
			d.shared = &wrapperspb.StringValue{}
			if d.kind == "reused-prepop" {
				d.shared.Value = staleValue(0)
			}
		}
		return d.shared
	}
	return &wrapperspb.StringValue{}
}

// destSelfTest checks the harness side of the dimension.
func destSelfTest() error {
	for _, k := range append([]string{""}, destValues...) {
		d := newDest(k)
		a := d.next(0)
		a0 := a.Value
		a.Value = "written-by-receive-0"
		b := d.next(1)
		reused := k == "reused" || k == "reused-prepop"
		prepop := k == "fresh-prepop" || k == "reused-prepop"
		if (a == b) != reused {
			return fmt.Errorf("harness: destination %q: same object for two receives = %v", k, a == b)
		}
		if (a0 != "") != prepop {
			return fmt.Errorf("harness: destination %q: first object holds %q", k, a0)
		}
		want := ""
		switch {
		case reused:
			want = "written-by-receive-0"
		case prepop:
			want = staleValue(1)
		}
		if b.Value != want {
			return fmt.Errorf("harness: destination %q: second object holds %q, want %q", k, b.Value, want)
		}
	}
	return nil
}

// refDelivered: how many leading frames of the visible body decode, i.e. how
// many messages the reference decoder delivers (single-message modes: <= 1).
func refDelivered(c *Case) int {
	m := refModel(c.Side, c.Visible())
	n := 0
	for _, f := range m.Frames {
		var v wrapperspb.StringValue
		if proto.Unmarshal(f, &v) != nil {
			break
		}
		n++
		if c.Mode == "single" {
			break
		}
	}
	return n
}

// destNontrivial: some message is decoded into a destination that is not zero.
func destNontrivial(c *Case) bool {
	if c.Mode == "unary" {
		return true
	}
	switch n := refDelivered(c); c.Dest {
	case "reused":
		return n >= 2
	default:
		return n >= 1
	}
}

// ---- dimension CONTEXT ENDS AT A FRAME-GRANULAR INSTANT ------------------
//
// A complete recorded response of n data frames and a trailer frame is served
// by a body that releases the first K frames (K = n+1: everything) and blocks
// any Read beyond them, as a slow server would; the consumer completes J
// RecvMsg calls and then either stays away (between two calls) or enters its
// next RecvMsg (inside). Once the reader goroutine of the stream can make no
// further progress (it has fully read frame J+1 and nobody takes it: the
// consumer lags; or it waits for bytes at the gate) the call's context ends:
// it is cancelled, or its deadline passes. From then on every Read of the body
// fails with the context's error, as net/http's body does. The harness waits
// until the reader goroutine has left (it closes the body), then drains the
// stream with RecvMsg. Oracle: that of every other case, applied to the bytes
// that were released: the delivered messages are an intact prefix, and a clean
// end (io.EOF) is reported only after a complete OK trailer and with every
// message delivered. Which error is reported otherwise is not looked at.

type ctxSpec struct {
	K     int    `json:"frames_released"` // the body releases K frames (n+1: all of it, trailer included)
	J     int    `json:"messages_taken"`  // RecvMsg calls the consumer has completed when the context ends
	Where string `json:"consumer"`        // between (two RecvMsg calls) | inside (its next RecvMsg)
	How   string `json:"how"`             // cancel | deadline
}

var ctxHows = []string{"cancel", "deadline"}

func (s *ctxSpec) position() string {
	switch {
	case s.Where == "inside":
		return "consumer-in-RecvMsg"
	case s.J < s.K:
		return "consumer-lags"
	}
	return "reader-waits-for-body"
}

func (s *ctxSpec) class() string { return s.How + ":" + s.position() }

func (s *ctxSpec) text() string {
	how := "the context is cancelled"
	if s.How == "deadline" {
		how = "the context's deadline passes"
	}
	where := "is between two RecvMsg calls"
	if s.Where == "inside" {
		where = "is inside its next RecvMsg"
	}
	return fmt.Sprintf("%s when the body has released %d frame(s), the consumer has taken %d message(s) and %s", how, s.K, s.J, where)
}

// frameEnds returns, for a well-formed body of n data frames and one trailer
// frame, ends[0..n+1]: ends[i] is the offset just behind data frame i
// (ends[0] = 0) and ends[n+1] = len(body).
func frameEnds(body []byte) []int {
	ends := []int{0}
	pos := 0
	for len(body)-pos >= 4 {
		p := int32(binary.BigEndian.Uint32(body[pos:]))
		if p < 0 || pos+4+int(p) > len(body) {
			break
		}
		pos += 4 + int(p)
		ends = append(ends, pos)
	}
	return append(ends, len(body))
}

// ctxPoints enumerates every (K, J, where) for a response of n data frames:
// between: 0 <= J <= min(K, n), 0 <= K <= n+1; inside: the consumer waits in
// RecvMsg J+1 while the reader waits at the gate, J = K <= n. A call with a
// single response differs in one respect: its first RecvMsg returns only once
// the stream has ended, so before that J is 0, and "inside" means inside that
// first RecvMsg (which already holds the message when K = 1).
func ctxPoints(mode string, n int) []ctxSpec {
	var out []ctxSpec
	for K := 0; K <= n+1; K++ {
		maxJ := K
		if maxJ > n {
			maxJ = n
		}
		for J := 0; J <= maxJ; J++ {
			if mode == "single" && J > 0 && K <= n {
				continue
			}
			out = append(out, ctxSpec{K: K, J: J, Where: "between"})
		}
		if K <= n {
			J := K
			if mode == "single" {
				J = 0
			}
			out = append(out, ctxSpec{K: K, J: J, Where: "inside"})
		}
	}
	return out
}

// Visible is the part of the body the decoder can have seen: all of it, or,
// when the context ends at a gate, the frames released before that.
func (c *Case) Visible() []byte {
	b := c.Body()
	if c.Ctx != nil {
		if e := frameEnds(b); c.Ctx.K < len(e)-1 {
			return b[:e[c.Ctx.K]]
		}
	}
	return b
}

// ctxNontrivial: the context ends while the stream is still in progress.
func ctxNontrivial(c *Case) bool {
	n := len(frameEnds(c.Body())) - 2
	return !(c.Ctx.K == n+1 && c.Ctx.J == n)
}

type ctxBase struct {
	a2   int // index into space.a2 (the complete body of a recording)
	spec ctxSpec
}

func (s *space) buildCtxBases() {
	for j, b := range s.a2 {
		r := b.rec
		if r.Side != "client" || r.Mode == "unary" || b.cut != len(r.Body) {
			continue
		}
		ends := frameEnds(r.Body)
		n := len(ends) - 2
		if n != len(refModel("client", r.Body).Frames) {
			continue // not data frames followed by one trailer frame
		}
		for _, p := range ctxPoints(r.Mode, n) {
			for _, how := range ctxHows {
				p.How = how
				s.ctxBases = append(s.ctxBases, ctxBase{j, p})
			}
		}
	}
}

// oracleSelfTest: the oracle flags what the two dimensions are there to find,
// and accepts the outcomes that are legitimate (fabricated observations; the
// library is not involved).
func oracleSelfTest() error {
	// "ab", "" and an OK trailer
	body := []byte{0, 0, 0, 4, 0x0A, 2, 'a', 'b', 0, 0, 0, 0}
	body = append(body, okTrailerFrame...)
	enc := func(vals ...string) *Obs {
		o := &Obs{DeliveredS: []string{}}
		for _, v := range vals {
			o.deliver(wrapperspb.String(v))
		}
		return o
	}
	has := func(fs []Finding, clause string) bool {
		for _, f := range fs {
			if f.Clause == clause {
				return true
			}
		}
		return false
	}
	mk := func(ctx *ctxSpec) *Case {
		return &Case{Alphabet: "A2", Side: "client", Mode: "stream", body: body, Delivery: "whole", Dest: "reused", Ctx: ctx, FullLen: len(body)}
	}
	type tc struct {
		name   string
		c      *Case
		o      *Obs
		eof    bool
		clause string // "" = no finding at all
	}
	good := enc("ab", "")
	dup := enc("ab", "ab")
	pre1 := enc("ab")
	cases := []tc{
		{"exact messages, clean end", mk(nil), good, true, ""},
		{"empty message delivered with the previous contents", mk(nil), dup, true, "altered-message"},
		{"prefix and an error", mk(&ctxSpec{K: 3, J: 1, Where: "between", How: "cancel"}), pre1, false, ""},
		{"prefix and a clean end, whole body released", mk(&ctxSpec{K: 3, J: 1, Where: "between", How: "cancel"}), pre1, true, "lost-message-on-success"},
		{"prefix and a clean end, trailer not released", mk(&ctxSpec{K: 2, J: 1, Where: "between", How: "cancel"}), pre1, true, "reported-success"},
		{"all messages and a clean end, trailer not released", mk(&ctxSpec{K: 2, J: 2, Where: "between", How: "deadline"}), good, true, "reported-success"},
		{"all messages and a clean end, whole body released", mk(&ctxSpec{K: 3, J: 2, Where: "between", How: "deadline"}), good, true, ""},
		{"a message beyond the released frames", mk(&ctxSpec{K: 1, J: 1, Where: "between", How: "cancel"}), good, false, "fabricated-message"},
	}
	for _, t := range cases {
		o := *t.o
		if t.eof {
			o.FinalErr, o.FinalEOF = "EOF", true
		} else {
			o.FinalErr = "rpc error: code = Canceled desc = context canceled"
		}
		fs := oracle(t.c, &o)
		if t.clause == "" && len(fs) > 0 {
			return fmt.Errorf("oracle self-test: %s: unexpected finding %v", t.name, fs)
		}
		if t.clause != "" && !has(fs, t.clause) {
			return fmt.Errorf("oracle self-test: %s: no %s finding (%v)", t.name, t.clause, fs)
		}
	}
	return nil
}
