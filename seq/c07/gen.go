package main

import (
	"encoding/binary"
	"encoding/hex"
	"fmt"
	"math"
	"strings"
	"sync"
)

// ---- A1: hostile bodies -------------------------------------------------

// 1<<16 and 1<<28: sizes whose low bytes are all zero, so that a decoder which
// misplaces or drops bytes of a preface that arrives in pieces computes a small
// size (a fabricated message) rather than another huge one; 1<<28 also lies
// between the limit and any plausible "declared length" of a body.
var prefixes = []int32{0, 1, 2, 5, -1, -2, -5, 1 << 16, 100 << 20, 100<<20 + 1, 1 << 28, math.MaxInt32, math.MinInt32, -math.MaxInt32}

type frame struct {
	bytes []byte
	desc  string
}

// validData returns a valid wrapperspb.StringValue encoding of exactly l bytes (nil,false when none exists).
func validData(l int) ([]byte, bool) {
	switch {
	case l == 0:
		return []byte{}, true
	case l >= 2 && l-2 < 128:
		b := []byte{0x0A, byte(l - 2)}
		for i := 0; i < l-2; i++ {
			b = append(b, 'a')
		}
		return b, true
	}
	return nil, false
}

// validTrailer returns a valid httpgrpc.HttpTrailer encoding of exactly l bytes
// carrying code 0 (ok) or code 3.
func validTrailer(l int, ok bool) ([]byte, bool) {
	code := byte(3)
	if ok {
		code = 0
	}
	switch {
	case l == 0:
		return []byte{}, ok // the empty trailer means code 0
	case l == 2:
		return []byte{0x10, code}, true
	case l == 3:
		if ok {
			return []byte{0x1A, 0x01, 'x'}, true
		}
		return []byte{0x10, 0x83, 0x00}, true // non-minimal varint 3
	case l >= 4 && l-4 < 128:
		b := []byte{0x10, code, 0x1A, byte(l - 4)}
		for i := 0; i < l-4; i++ {
			b = append(b, 'x')
		}
		return b, true
	}
	return nil, false
}

func invalidBytes(l int) []byte {
	b := make([]byte, l)
	for i := range b {
		b[i] = 0xFF
	}
	return b
}

func payloadLens(p int32) []int {
	n := int64(p)
	if n < 0 {
		n = -n
	}
	if n > 5 {
		return []int{0, 7}
	}
	var out []int
	for _, l := range []int64{0, n - 1, n, n + 1} {
		if l < 0 {
			continue
		}
		dup := false
		for _, o := range out {
			if o == int(l) {
				dup = true
			}
		}
		if !dup {
			out = append(out, int(l))
		}
	}
	return out
}

func frameAlphabet() []frame {
	var out []frame
	for _, p := range prefixes {
		for _, l := range payloadLens(p) {
			type pl struct {
				b    []byte
				name string
			}
			var pls []pl
			if l == 0 {
				pls = append(pls, pl{[]byte{}, "empty"})
			} else if p >= 0 {
				if b, ok := validData(l); ok {
					pls = append(pls, pl{b, "valid"})
				}
				pls = append(pls, pl{invalidBytes(l), "invalid"})
			} else {
				if b, ok := validTrailer(l, true); ok {
					pls = append(pls, pl{b, "valid-ok"})
				}
				if b, ok := validTrailer(l, false); ok {
					pls = append(pls, pl{b, "valid-err"})
				}
				pls = append(pls, pl{invalidBytes(l), "invalid"})
			}
			for _, x := range pls {
				b := make([]byte, 4, 4+l)
				binary.BigEndian.PutUint32(b, uint32(p))
				b = append(b, x.b...)
				out = append(out, frame{b, fmt.Sprintf("(%d,len%d,%s)", p, l, x.name)})
			}
		}
	}
	return out
}

type hostile struct {
	body  []byte
	label string
	alpha string // A1-frames | A1-bytes
}

var byteSyms = []byte{0x00, 0x01, 0x7F, 0x80, 0xFF}

// hostileSet enumerates lazily, simplest first: every sequence of <= 3 frames
// over frameAlphabet (byte-identical bodies produced by different sequences,
// about 2%, are not removed), then every byte string of length <= 5 over byteSyms.
type hostileSet struct {
	fa      []frame
	nSeq    int // 1 + F + F^2 + F^3
	nBytes  int // 5^0 + ... + 5^5
	seqBase [4]int
}

func newHostileSet() *hostileSet {
	h := &hostileSet{fa: frameAlphabet()}
	f := len(h.fa)
	h.seqBase = [4]int{0, 1, 1 + f, 1 + f + f*f}
	h.nSeq = 1 + f + f*f + f*f*f
	n := 1
	for l := 0; l <= 5; l++ {
		h.nBytes += n
		n *= len(byteSyms)
	}
	return h
}

func (h *hostileSet) len() int { return h.nSeq + h.nBytes }

// lenAt is len(h.at(i).body), without building the body.
func (h *hostileSet) lenAt(i int) int {
	f := len(h.fa)
	if i < h.nSeq {
		k := 3
		for i < h.seqBase[k] {
			k--
		}
		x, n := i-h.seqBase[k], 0
		for j := 0; j < k; j++ {
			n += len(h.fa[x%f].bytes)
			x /= f
		}
		return n
	}
	i -= h.nSeq
	n := 1
	for l := 0; ; l++ {
		if i < n {
			return l
		}
		i -= n
		n *= len(byteSyms)
	}
}

// the "small" subset: the bodies of <= 2 frames and all the byte strings
func (h *hostileSet) smallLen() int { return h.seqBase[3] + h.nBytes }

func (h *hostileSet) smallIdx(j int) int {
	if j < h.seqBase[3] {
		return j
	}
	return h.nSeq + (j - h.seqBase[3])
}

func (h *hostileSet) at(i int) hostile {
	f := len(h.fa)
	if i < h.nSeq {
		k := 3
		for i < h.seqBase[k] {
			k--
		}
		x := i - h.seqBase[k]
		idx := make([]int, k)
		for j := k - 1; j >= 0; j-- {
			idx[j] = x % f
			x /= f
		}
		body := []byte{}
		label := "frames["
		for _, j := range idx {
			body = append(body, h.fa[j].bytes...)
			label += h.fa[j].desc
		}
		return hostile{body, label + "]", "A1-frames"}
	}
	i -= h.nSeq
	n := 1
	for l := 0; ; l++ {
		if i < n {
			b := make([]byte, l)
			x := i
			for j := l - 1; j >= 0; j-- {
				b[j] = byteSyms[x%len(byteSyms)]
				x /= len(byteSyms)
			}
			return hostile{b, "bytes:" + hex.EncodeToString(b), "A1-bytes"}
		}
		i -= n
		n *= len(byteSyms)
	}
}

// ---- the case space -----------------------------------------------------

// Case is one evaluation: a body fed to one side of the real library.
type Case struct {
	Alphabet string              `json:"alphabet"` // A1-frames | A1-bytes | A2
	Side     string              `json:"side"`     // client | server
	Mode     string              `json:"mode"`     // stream | single | unary
	BodyHex  string              `json:"body_hex"`
	Abrupt   bool                `json:"abrupt"`                   // body reader ends with io.ErrUnexpectedEOF instead of io.EOF
	Delivery string              `json:"delivery"`                 // whole | bytewise | with-err | split
	Splits   []int               `json:"splits,omitempty"`         // delivery "split": no Read of the body crosses any of these offsets
	CL       *int64              `json:"content_length,omitempty"` // declared length of the body (ContentLength field and Content-Length header); nil: not declared (-1; unary replies: as recorded)
	Expect   *expect             `json:"expect,omitempty"`         // complete genuine bodies: what the genuine run delivered
	Label    string              `json:"label"`
	Status   int                 `json:"status,omitempty"` // unary client replay
	Header   map[string][]string `json:"header,omitempty"`
	FullLen  int                 `json:"full_len,omitempty"` // A2: length of the uncut recorded body
	Synth    *synthSpec          `json:"synth,omitempty"`    // A2-large: the body is generated from this instead of body_hex
	Dest     string              `json:"dest,omitempty"`     // destination message objects handed to RecvMsg: "" (a fresh zero message per receive) | fresh-prepop | reused | reused-prepop
	Ctx      *ctxSpec            `json:"ctx_end,omitempty"`  // the call's context ends at a frame-granular instant (client streams)

	body []byte
}

func (c *Case) Body() []byte {
	if c.body == nil && c.Synth != nil {
		c.body = c.Synth.body(c.Side)
	}
	if c.body == nil {
		c.body, _ = hex.DecodeString(c.BodyHex)
		if c.body == nil {
			c.body = []byte{}
		}
	}
	return c.body
}

func (c *Case) ending() string {
	if c.Ctx != nil {
		return "context-ends"
	}
	if c.Abrupt {
		return "abrupt-eof"
	}
	return "clean-eof"
}

// ---- A2-large: bodies with consecutive large frames ----------------------

// synthSpec describes a body of len(Sizes) data frames, frame i holding a
// StringValue whose encoding is exactly Sizes[i] bytes long and whose
// characters are all 'A'+i, followed (response bodies only) by the OK trailer
// frame the real server writes; cut at Cut bytes (Cut < 0: complete). The
// parent checks once per run that the real client and server produce exactly
// these bytes for these messages.
type synthSpec struct {
	Sizes []int `json:"frame_sizes"`
	Cut   int   `json:"cut"`
}

var okTrailerFrame = []byte{0xFF, 0xFF, 0xFF, 0xFC, 0x1A, 0x02, 'O', 'K'}

// largeLen is the length of the string whose StringValue encoding is size bytes long.
func largeLen(size int) int {
	for vl := 1; vl <= 5; vl++ {
		l := size - 1 - vl
		if l >= 0 && len(binary.AppendUvarint(nil, uint64(l))) == vl {
			return l
		}
	}
	panic(fmt.Sprintf("no StringValue encodes to %d bytes", size))
}

// largeString is the value of message i of a body whose frame is size bytes long.
func largeString(i, size int) string {
	return strings.Repeat(string(rune('A'+i)), largeLen(size))
}

func (sp *synthSpec) full(side string) []byte {
	n := 8
	for _, z := range sp.Sizes {
		n += 4 + z
	}
	out := make([]byte, 0, n)
	for i, z := range sp.Sizes {
		out = binary.BigEndian.AppendUint32(out, uint32(z))
		l := largeLen(z)
		out = append(out, 0x0A)
		out = binary.AppendUvarint(out, uint64(l))
		for k := 0; k < l; k++ {
			out = append(out, byte('A'+i))
		}
	}
	if side == "client" {
		out = append(out, okTrailerFrame...)
	}
	return out
}

func (sp *synthSpec) fullLen(side string) int {
	n := 0
	for _, z := range sp.Sizes {
		n += 4 + z
	}
	if side == "client" {
		n += len(okTrailerFrame)
	}
	return n
}

func (sp *synthSpec) body(side string) []byte {
	b := sp.full(side)
	if sp.Cut >= 0 && sp.Cut <= len(b) {
		b = b[:sp.Cut:sp.Cut]
	}
	return b
}

func (sp *synthSpec) name() string {
	return strings.ReplaceAll(fmt.Sprint(sp.Sizes), " ", ",")
}

// cuts: complete; and, for every frame after the first, just after its prefix
// plus one byte, in its middle, and one byte short of its end.
func (sp *synthSpec) cuts() []int {
	out := []int{-1}
	pos := 0
	for i, z := range sp.Sizes {
		if i > 0 {
			out = append(out, pos+5, pos+4+z/2, pos+4+z-1)
		}
		pos += 4 + z
	}
	return out
}

func largeSizes(tier string) [][]int {
	const k64, m1 = 64 << 10, 1 << 20
	out := [][]int{
		{k64, k64, k64},
		{k64 + 1, k64 + 1, k64 + 1},
		{m1, m1, m1},
		{k64, k64, k64, k64, k64, k64},
		{m1, k64 + 1, k64, k64},
	}
	if tier == "thorough" {
		out = append(out,
			[]int{k64 + 1, k64 + 1, k64 + 1, k64 + 1, k64 + 1, k64 + 1},
			[]int{m1, m1, m1, m1, m1, m1},
			[]int{k64, m1, k64 + 1, m1, k64, k64},
			[]int{4 << 20, 4 << 20, 4 << 20})
	}
	return out
}

type largeBase struct {
	sizes []int
	cut   int
}

var largeSides = []string{"client", "server"}

type a2base struct {
	rec *recording
	cut int
}

// expect is what the genuine run (real client against real server) delivered
// to the application that decodes the body.
type expect struct {
	Msgs     []string `json:"msgs"`
	FinalEOF bool     `json:"final_eof"`
	Final    string   `json:"final"`
}

// ---- the two swept dimensions: read fragmentation, declared length -------

// variant is one way of presenting a body: how it is cut into reads and what
// length the message that carries it declares.
type variant struct {
	delivery string
	splits   []int
	cl       *int64
	dest     string
	ctx      *ctxSpec
}

func i64(v int64) *int64 { return &v }

const (
	clGiB = int64(1) << 30 // above the limit, below the largest size preface
	clTiB = int64(1) << 40 // above every size preface
)

// fragCount / fragAt enumerate the fragmentations of a body of L bytes:
// (with-err, when that pattern is not already a base delivery), every single
// read boundary 1..L-1, and (pairs) every pair of read boundaries.
func fragCount(L int, withErr, pairs bool) int {
	n := 0
	if withErr {
		n++
	}
	if L > 1 {
		n += L - 1
		if pairs {
			n += (L - 1) * (L - 2) / 2
		}
	}
	return n
}

func fragAt(L, i int, withErr bool) variant {
	if withErr {
		if i == 0 {
			return variant{delivery: "with-err"}
		}
		i--
	}
	if i < L-1 {
		return variant{delivery: "split", splits: []int{i + 1}}
	}
	i -= L - 1
	// pair (a,b), 1 <= a < b <= L-1, in lexicographic order
	for a := 1; a < L-1; a++ {
		cnt := L - 1 - a
		if i < cnt {
			return variant{delivery: "split", splits: []int{a, a + 1 + i}}
		}
		i -= cnt
	}
	panic("fragAt: index out of range")
}

// clValues: the declared lengths swept around a body of L bytes that is (a
// prefix of) a body of full bytes: 0, the true length, the length of the uncut
// body, 1 GiB and 1 TiB. "Not declared" (-1) is the base case everywhere else.
func clValues(L, full int) []int64 {
	out := []int64{0}
	if L != 0 {
		out = append(out, int64(L))
	}
	if full != L && full != 0 {
		out = append(out, int64(full))
	}
	return append(out, clGiB, clTiB)
}

// cum is a block of cases with a variable number of variants per base.
type cum struct{ before []int } // before[j] = number of cases of the bases < j; len = bases+1

func newCum(nBases int, count func(j int) int) *cum {
	c := &cum{before: make([]int, nBases+1)}
	for j := 0; j < nBases; j++ {
		c.before[j+1] = c.before[j] + count(j)
	}
	return c
}

func (c *cum) total() int { return c.before[len(c.before)-1] }

func (c *cum) find(i int) (base, off int) {
	lo, hi := 0, len(c.before)-1 // before[lo] <= i < before[hi]
	for hi-lo > 1 {
		mid := (lo + hi) / 2
		if c.before[mid] <= i {
			lo = mid
		} else {
			hi = mid
		}
	}
	return lo, i - c.before[lo]
}

// block is a contiguous range of the case space.
type block struct {
	name    string
	n       int
	at      func(i int) *Case
	gcAfter bool // cases leave megabytes of garbage each
}

type space struct {
	tier       string
	hostile    *hostileSet
	nFrameSyms int
	endingsA1  []bool
	endingsA2  []bool
	deliveries []string
	recs       []*recording
	a2         []a2base
	large      []largeBase
	fullCache  map[string][]byte
	fullMu     sync.Mutex
	blocks     []block
	starts     []int // starts[k] = index of the first case of block k; len = blocks+1
	nA1, nA2   int
	nLarge     int
	ctxBases   []ctxBase

	pairs       bool // fragmentations into three reads as well
	fragWithErr bool
	splitRecMax int // recorded bodies up to this length: every cut x every fragmentation; longer: complete body only
	pairRecMax  int
}

var sideModes = [][2]string{{"client", "stream"}, {"client", "single"}, {"server", "stream"}, {"server", "single"}}

func (s *space) a1Case(h hostile, sm int, abrupt bool, v variant, alpha string) *Case {
	if alpha == "" {
		alpha = h.alpha
	}
	return &Case{Alphabet: alpha, Side: sideModes[sm][0], Mode: sideModes[sm][1], BodyHex: hex.EncodeToString(h.body), body: h.body,
		Abrupt: abrupt, Delivery: v.delivery, Splits: v.splits, CL: v.cl, Dest: v.dest, Label: h.label}
}

func (s *space) a2Case(b a2base, abrupt bool, v variant) *Case {
	body := b.rec.Body[:b.cut:b.cut]
	c := &Case{Alphabet: "A2", Side: b.rec.Side, Mode: b.rec.Mode, BodyHex: hex.EncodeToString(body), body: body,
		Abrupt: abrupt, Delivery: v.delivery, Splits: v.splits, CL: v.cl, Dest: v.dest, Ctx: v.ctx, Label: fmt.Sprintf("%s cut at %d of %d", b.rec.Name, b.cut, len(b.rec.Body)), FullLen: len(b.rec.Body)}
	if b.rec.Mode == "unary" && b.rec.Side == "client" {
		c.Status = b.rec.Status
		c.Header = b.rec.Header
	}
	if b.cut == len(b.rec.Body) {
		c.Expect = &expect{Msgs: b.rec.Msgs, FinalEOF: b.rec.FinalEOF, Final: b.rec.Final}
	}
	if v.ctx != nil {
		// the body is complete but the context ends before it is consumed: only
		// the safety clauses apply, not "decodes to what the genuine run delivered"
		c.Expect = nil
		c.Label = fmt.Sprintf("%s, complete (%d bytes)", b.rec.Name, len(b.rec.Body))
	}
	return c
}

func (s *space) largeCase(b largeBase, side string, abrupt bool, v variant) *Case {
	spec := &synthSpec{Sizes: b.sizes, Cut: b.cut}
	k := side + spec.name()
	s.fullMu.Lock()
	full, ok := s.fullCache[k]
	if !ok {
		full = spec.full(side)
		s.fullCache[k] = full
	}
	s.fullMu.Unlock()
	body, where := full, "complete"
	if b.cut >= 0 {
		body, where = full[:b.cut:b.cut], fmt.Sprintf("cut at %d of %d", b.cut, len(full))
	}
	what := "response"
	if side == "server" {
		what = "request"
	}
	c := &Case{Alphabet: "A2-large", Side: side, Mode: "stream", body: body, Abrupt: abrupt, Delivery: v.delivery, Splits: v.splits, CL: v.cl, Dest: v.dest,
		Label: fmt.Sprintf("%s with large frames %s %s", what, spec.name(), where), FullLen: len(full), Synth: spec}
	if b.cut < 0 {
		e := &expect{Msgs: []string{}, FinalEOF: true, Final: "EOF"}
		for i, z := range b.sizes {
			e.Msgs = append(e.Msgs, abbr(largeString(i, z)))
		}
		c.Expect = e
	}
	return c
}

// largeSplits: one read boundary of every class for every frame of a large
// body: 1, 2 and 3 bytes into its size preface, right after the preface, in the
// middle of its payload, and at its end (bodies of megabytes cannot be split at
// every offset; the small bodies are).
func largeSplits(sizes []int, side string, L int) []int {
	var out []int
	add := func(k int) {
		if k > 0 && k < L {
			out = append(out, k)
		}
	}
	pos := 0
	frames := append([]int{}, sizes...)
	if side == "client" {
		frames = append(frames, len(okTrailerFrame)-4)
	}
	for _, z := range frames {
		add(pos + 1)
		add(pos + 2)
		add(pos + 3)
		add(pos + 4)
		add(pos + 4 + z/2)
		add(pos + 4 + z)
		pos += 4 + z
	}
	return out
}

func buildSpace(tier string) (*space, error) {
	s := &space{tier: tier}
	s.hostile = newHostileSet()
	s.nFrameSyms = len(s.hostile.fa)
	s.endingsA2 = []bool{false, true}
	if tier == "thorough" {
		s.endingsA1 = []bool{false, true}
		s.deliveries = []string{"whole", "bytewise", "with-err"}
		s.pairs, s.fragWithErr = true, false
		s.splitRecMax, s.pairRecMax = 200, 48
	} else {
		s.endingsA1 = []bool{false}
		s.deliveries = []string{"whole", "bytewise"}
		s.pairs, s.fragWithErr = false, true
		s.splitRecMax, s.pairRecMax = 200, 0
	}
	recs, err := recordAll(tier)
	if err != nil {
		return nil, err
	}
	s.recs = recs
	for _, r := range recs {
		for c := 0; c <= len(r.Body); c++ {
			s.a2 = append(s.a2, a2base{r, c})
		}
	}
	for _, sz := range largeSizes(tier) {
		for _, c := range (&synthSpec{Sizes: sz}).cuts() {
			s.large = append(s.large, largeBase{sz, c})
		}
	}
	s.fullCache = map[string][]byte{}
	nD, nE1, nE2, nSM := len(s.deliveries), len(s.endingsA1), len(s.endingsA2), len(sideModes)

	// --- the base blocks: every body x ending x base delivery, length not declared
	s.nA1 = s.hostile.len() * nSM * nE1 * nD
	s.add(block{name: "A1", n: s.nA1, at: func(i int) *Case {
		d := i % nD
		i /= nD
		e := i % nE1
		i /= nE1
		sm := i % nSM
		i /= nSM
		return s.a1Case(s.hostile.at(i), sm, s.endingsA1[e], variant{delivery: s.deliveries[d]}, "")
	}})
	s.nA2 = len(s.a2) * nE2 * nD
	s.add(block{name: "A2", n: s.nA2, at: func(i int) *Case {
		d := i % nD
		i /= nD
		e := i % nE2
		i /= nE2
		return s.a2Case(s.a2[i], s.endingsA2[e], variant{delivery: s.deliveries[d]})
	}})
	// --- read fragmentation
	// hostile bodies of <= 2 frames and the byte strings x side/mode x ending x every fragmentation
	small := s.hostile.smallLen()
	lens := make([]int, small)
	for j := range lens {
		lens[j] = s.hostile.lenAt(s.hostile.smallIdx(j))
	}
	cf := newCum(small, func(j int) int { return fragCount(lens[j], s.fragWithErr, s.pairs) })
	s.add(block{name: "A1-frag", n: cf.total() * nSM * nE1, at: func(i int) *Case {
		e := i % nE1
		i /= nE1
		sm := i % nSM
		i /= nSM
		j, off := cf.find(i)
		return s.a1Case(s.hostile.at(s.hostile.smallIdx(j)), sm, s.endingsA1[e], fragAt(lens[j], off, s.fragWithErr), "")
	}})
	// recorded bodies: every cut x ending x every fragmentation (long recordings: complete body only)
	a2frag := func(b a2base) (bool, bool) {
		n := len(b.rec.Body)
		return n <= s.splitRecMax || b.cut == n, s.pairs && n <= s.pairRecMax
	}
	ca := newCum(len(s.a2), func(j int) int {
		on, pairs := a2frag(s.a2[j])
		if !on {
			return 0
		}
		return fragCount(s.a2[j].cut, s.fragWithErr, pairs)
	})
	s.add(block{name: "A2-frag", n: ca.total() * nE2, at: func(i int) *Case {
		e := i % nE2
		i /= nE2
		j, off := ca.find(i)
		return s.a2Case(s.a2[j], s.endingsA2[e], fragAt(s.a2[j].cut, off, s.fragWithErr))
	}})
	// --- declared length of the body
	// hostile bodies (quick: <= 2 frames and the byte strings; thorough: all) x side/mode x declared length, clean ending, whole
	nH, hIdx := small, s.hostile.smallIdx
	if tier == "thorough" {
		nH, hIdx = s.hostile.len(), func(j int) int { return j }
	}
	cc := newCum(nH, func(j int) int { return len(clValues(s.hostile.lenAt(hIdx(j)), 0)) })
	s.add(block{name: "A1-len", n: cc.total() * nSM, at: func(i int) *Case {
		sm := i % nSM
		i /= nSM
		j, off := cc.find(i)
		h := s.hostile.at(hIdx(j))
		return s.a1Case(h, sm, false, variant{delivery: "whole", cl: i64(clValues(len(h.body), 0)[off])}, "")
	}})
	// recorded bodies: every cut x ending x declared length x base delivery
	c2 := newCum(len(s.a2), func(j int) int { return len(clValues(s.a2[j].cut, len(s.a2[j].rec.Body))) })
	s.add(block{name: "A2-len", n: c2.total() * nE2 * nD, at: func(i int) *Case {
		d := i % nD
		i /= nD
		e := i % nE2
		i /= nE2
		j, off := c2.find(i)
		b := s.a2[j]
		return s.a2Case(b, s.endingsA2[e], variant{delivery: s.deliveries[d], cl: i64(clValues(b.cut, len(b.rec.Body))[off])})
	}})
	// --- destination message object (dims.go), swept around the base cases
	// hostile bodies (quick: <= 2 frames and the byte strings; thorough: all) x side/mode x destination, clean ending, whole
	nDV := len(destValues)
	s.add(block{name: "A1-dest", n: nH * nSM * nDV, at: func(i int) *Case {
		dv := i % nDV
		i /= nDV
		sm := i % nSM
		i /= nSM
		return s.a1Case(s.hostile.at(hIdx(i)), sm, false, variant{delivery: "whole", dest: destValues[dv]}, "")
	}})
	// recorded bodies: every cut x ending x base delivery x destination
	cd := newCum(len(s.a2), func(j int) int { return len(destFor(s.a2[j].rec.Mode)) })
	s.add(block{name: "A2-dest", n: cd.total() * nE2 * nD, at: func(i int) *Case {
		d := i % nD
		i /= nD
		e := i % nE2
		i /= nE2
		j, off := cd.find(i)
		return s.a2Case(s.a2[j], s.endingsA2[e], variant{delivery: s.deliveries[d], dest: destFor(s.a2[j].rec.Mode)[off]})
	}})
	// --- the context ends at a frame-granular instant (dims.go): every complete
	// recorded response x every (frames released, messages taken, consumer
	// between calls / inside RecvMsg) x cancel / deadline x base delivery
	s.buildCtxBases()
	s.add(block{name: "A2-ctx", n: len(s.ctxBases) * nD, at: func(i int) *Case {
		d := i % nD
		i /= nD
		b := s.ctxBases[i]
		spec := b.spec
		return s.a2Case(s.a2[b.a2], false, variant{delivery: s.deliveries[d], ctx: &spec})
	}})
	// --- the large bodies come last: each leaves megabytes of garbage, and the
	// collections that clear it must not recycle memory for the huge frames above
	s.nLarge = len(s.large) * len(largeSides) * nE2 * nD
	s.add(block{name: "A2-large", n: s.nLarge, gcAfter: true, at: func(i int) *Case {
		d := i % nD
		i /= nD
		e := i % nE2
		i /= nE2
		side := largeSides[i%len(largeSides)]
		i /= len(largeSides)
		return s.largeCase(s.large[i], side, s.endingsA2[e], variant{delivery: s.deliveries[d]})
	}})

	// large bodies: one read boundary of every class per frame
	lsplits := map[string][]int{}
	lbLen := func(b largeBase, side string) int {
		L := (&synthSpec{Sizes: b.sizes}).fullLen(side)
		if b.cut >= 0 {
			L = b.cut
		}
		return L
	}
	type ls struct {
		b    largeBase
		side string
	}
	var lbases []ls
	for _, b := range s.large {
		for _, side := range largeSides {
			lbases = append(lbases, ls{b, side})
			lsplits[fmt.Sprint(b, side)] = largeSplits(b.sizes, side, lbLen(b, side))
		}
	}
	cl := newCum(len(lbases), func(j int) int { return len(lsplits[fmt.Sprint(lbases[j].b, lbases[j].side)]) })
	s.add(block{name: "A2-large-frag", n: cl.total() * nE2, gcAfter: true, at: func(i int) *Case {
		e := i % nE2
		i /= nE2
		j, off := cl.find(i)
		k := lsplits[fmt.Sprint(lbases[j].b, lbases[j].side)][off]
		return s.largeCase(lbases[j].b, lbases[j].side, s.endingsA2[e], variant{delivery: "split", splits: []int{k}})
	}})

	// large bodies x ending x declared length, whole
	c3 := newCum(len(lbases), func(j int) int {
		return len(clValues(lbLen(lbases[j].b, lbases[j].side), (&synthSpec{Sizes: lbases[j].b.sizes}).fullLen(lbases[j].side)))
	})
	s.add(block{name: "A2-large-len", n: c3.total() * nE2, gcAfter: true, at: func(i int) *Case {
		e := i % nE2
		i /= nE2
		j, off := c3.find(i)
		lb := lbases[j]
		full := (&synthSpec{Sizes: lb.b.sizes}).fullLen(lb.side)
		return s.largeCase(lb.b, lb.side, s.endingsA2[e], variant{delivery: "whole", cl: i64(clValues(lbLen(lb.b, lb.side), full)[off])})
	}})
	// large bodies x ending x destination, whole
	s.add(block{name: "A2-large-dest", n: len(lbases) * nE2 * nDV, gcAfter: true, at: func(i int) *Case {
		dv := i % nDV
		i /= nDV
		e := i % nE2
		i /= nE2
		return s.largeCase(lbases[i].b, lbases[i].side, s.endingsA2[e], variant{delivery: "whole", dest: destValues[dv]})
	}})
	return s, nil
}

func (s *space) add(b block) {
	if len(s.starts) == 0 {
		s.starts = []int{0}
	}
	s.blocks = append(s.blocks, b)
	s.starts = append(s.starts, s.starts[len(s.starts)-1]+b.n)
}

func (s *space) total() int { return s.starts[len(s.starts)-1] }

// blockOf returns the block that holds case i and the index of the case in it.
func (s *space) blockOf(i int) (int, int) {
	for k := range s.blocks {
		if i < s.starts[k+1] {
			return k, i - s.starts[k]
		}
	}
	panic(fmt.Sprintf("case index %d out of range", i))
}

func (s *space) at(i int) *Case {
	k, j := s.blockOf(i)
	return s.blocks[k].at(j)
}

func (s *space) blockSizes() map[string]int {
	out := map[string]int{}
	for _, b := range s.blocks {
		out[b.name] = b.n
	}
	return out
}

// hash identifies the case space so that parent and workers agree on it.
func (s *space) hash() string {
	var sb strings.Builder
	fmt.Fprintf(&sb, "%s|%v|%v|", s.tier, s.starts, s.large)
	for _, r := range s.recs {
		fmt.Fprintf(&sb, "%s/%s/%s/%x|", r.Name, r.Side, r.Mode, r.Body)
	}
	return fmt.Sprintf("%x", fnv64([]byte(sb.String())))
}

func fnv64(b []byte) uint64 {
	h := uint64(14695981039346656037)
	for _, c := range b {
		h ^= uint64(c)
		h *= 1099511628211
	}
	return h
}
