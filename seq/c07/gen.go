package main

import (
	"encoding/binary"
	"encoding/hex"
	"fmt"
	"math"
	"strings"
)

// ---- A1: hostile bodies -------------------------------------------------

var prefixes = []int32{0, 1, 2, 5, -1, -2, -5, 100 << 20, 100<<20 + 1, math.MaxInt32, math.MinInt32, -math.MaxInt32}

type frame struct {
	bytes []byte
	desc  string
}

// validData returns a valid wrapperspb.StringValue encoding of exactly l bytes (nil,false when none exists).
func validData(l int) ([]byte, bool) {
	switch {
	case l == 0:
		return []byte{}, true
	case l >= 2 && l-2 < 128:
		b := []byte{0x0A, byte(l - 2)}
		for i := 0; i < l-2; i++ {
			b = append(b, 'a')
		}
		return b, true
	}
	return nil, false
}

// validTrailer returns a valid httpgrpc.HttpTrailer encoding of exactly l bytes
// carrying code 0 (ok) or code 3.
func validTrailer(l int, ok bool) ([]byte, bool) {
	code := byte(3)
	if ok {
		code = 0
	}
	switch {
	case l == 0:
		return []byte{}, ok // the empty trailer means code 0
	case l == 2:
		return []byte{0x10, code}, true
	case l == 3:
		if ok {
			return []byte{0x1A, 0x01, 'x'}, true
		}
		return []byte{0x10, 0x83, 0x00}, true // non-minimal varint 3
	case l >= 4 && l-4 < 128:
		b := []byte{0x10, code, 0x1A, byte(l - 4)}
		for i := 0; i < l-4; i++ {
			b = append(b, 'x')
		}
		return b, true
	}
	return nil, false
}

func invalidBytes(l int) []byte {
	b := make([]byte, l)
	for i := range b {
		b[i] = 0xFF
	}
	return b
}

func payloadLens(p int32) []int {
	n := int64(p)
	if n < 0 {
		n = -n
	}
	if n > 5 {
		return []int{0, 7}
	}
	var out []int
	for _, l := range []int64{0, n - 1, n, n + 1} {
		if l < 0 {
			continue
		}
		dup := false
		for _, o := range out {
			if o == int(l) {
				dup = true
			}
		}
		if !dup {
			out = append(out, int(l))
		}
	}
	return out
}

func frameAlphabet() []frame {
	var out []frame
	for _, p := range prefixes {
		for _, l := range payloadLens(p) {
			type pl struct {
				b    []byte
				name string
			}
			var pls []pl
			if l == 0 {
				pls = append(pls, pl{[]byte{}, "empty"})
			} else if p >= 0 {
				if b, ok := validData(l); ok {
					pls = append(pls, pl{b, "valid"})
				}
				pls = append(pls, pl{invalidBytes(l), "invalid"})
			} else {
				if b, ok := validTrailer(l, true); ok {
					pls = append(pls, pl{b, "valid-ok"})
				}
				if b, ok := validTrailer(l, false); ok {
					pls = append(pls, pl{b, "valid-err"})
				}
				pls = append(pls, pl{invalidBytes(l), "invalid"})
			}
			for _, x := range pls {
				b := make([]byte, 4, 4+l)
				binary.BigEndian.PutUint32(b, uint32(p))
				b = append(b, x.b...)
				out = append(out, frame{b, fmt.Sprintf("(%d,len%d,%s)", p, l, x.name)})
			}
		}
	}
	return out
}

type hostile struct {
	body  []byte
	label string
	alpha string // A1-frames | A1-bytes
}

var byteSyms = []byte{0x00, 0x01, 0x7F, 0x80, 0xFF}

// hostileSet enumerates lazily, simplest first: every sequence of <= 3 frames
// over frameAlphabet (byte-identical bodies produced by different sequences,
// about 2%, are not removed), then every byte string of length <= 5 over byteSyms.
type hostileSet struct {
	fa      []frame
	nSeq    int // 1 + F + F^2 + F^3
	nBytes  int // 5^0 + ... + 5^5
	seqBase [4]int
}

func newHostileSet() *hostileSet {
	h := &hostileSet{fa: frameAlphabet()}
	f := len(h.fa)
	h.seqBase = [4]int{0, 1, 1 + f, 1 + f + f*f}
	h.nSeq = 1 + f + f*f + f*f*f
	n := 1
	for l := 0; l <= 5; l++ {
		h.nBytes += n
		n *= len(byteSyms)
	}
	return h
}

func (h *hostileSet) len() int { return h.nSeq + h.nBytes }

func (h *hostileSet) at(i int) hostile {
	f := len(h.fa)
	if i < h.nSeq {
		k := 3
		for i < h.seqBase[k] {
			k--
		}
		x := i - h.seqBase[k]
		idx := make([]int, k)
		for j := k - 1; j >= 0; j-- {
			idx[j] = x % f
			x /= f
		}
		body := []byte{}
		label := "frames["
		for _, j := range idx {
			body = append(body, h.fa[j].bytes...)
			label += h.fa[j].desc
		}
		return hostile{body, label + "]", "A1-frames"}
	}
	i -= h.nSeq
	n := 1
	for l := 0; ; l++ {
		if i < n {
			b := make([]byte, l)
			x := i
			for j := l - 1; j >= 0; j-- {
				b[j] = byteSyms[x%len(byteSyms)]
				x /= len(byteSyms)
			}
			return hostile{b, "bytes:" + hex.EncodeToString(b), "A1-bytes"}
		}
		i -= n
		n *= len(byteSyms)
	}
}

// ---- the case space -----------------------------------------------------

// Case is one evaluation: a body fed to one side of the real library.
type Case struct {
	Alphabet string              `json:"alphabet"` // A1-frames | A1-bytes | A2
	Side     string              `json:"side"`     // client | server
	Mode     string              `json:"mode"`     // stream | single | unary
	BodyHex  string              `json:"body_hex"`
	Abrupt   bool                `json:"abrupt"`   // body reader ends with io.ErrUnexpectedEOF instead of io.EOF
	Delivery string              `json:"delivery"` // whole | bytewise | with-err
	Label    string              `json:"label"`
	Status   int                 `json:"status,omitempty"` // unary client replay
	Header   map[string][]string `json:"header,omitempty"`
	FullLen  int                 `json:"full_len,omitempty"` // A2: length of the uncut recorded body
	Synth    *synthSpec          `json:"synth,omitempty"`    // A2-large: the body is generated from this instead of body_hex

	body []byte
}

func (c *Case) Body() []byte {
	if c.body == nil && c.Synth != nil {
		c.body = c.Synth.body(c.Side)
	}
	if c.body == nil {
		c.body, _ = hex.DecodeString(c.BodyHex)
		if c.body == nil {
			c.body = []byte{}
		}
	}
	return c.body
}

func (c *Case) ending() string {
	if c.Abrupt {
		return "abrupt-eof"
	}
	return "clean-eof"
}

// ---- A2-large: bodies with consecutive large frames ----------------------

// synthSpec describes a body of len(Sizes) data frames, frame i holding a
// StringValue whose encoding is exactly Sizes[i] bytes long and whose
// characters are all 'A'+i, followed (response bodies only) by the OK trailer
// frame the real server writes; cut at Cut bytes (Cut < 0: complete). The
// parent checks once per run that the real client and server produce exactly
// these bytes for these messages.
type synthSpec struct {
	Sizes []int `json:"frame_sizes"`
	Cut   int   `json:"cut"`
}

var okTrailerFrame = []byte{0xFF, 0xFF, 0xFF, 0xFC, 0x1A, 0x02, 'O', 'K'}

// largeLen is the length of the string whose StringValue encoding is size bytes long.
func largeLen(size int) int {
	for vl := 1; vl <= 5; vl++ {
		l := size - 1 - vl
		if l >= 0 && len(binary.AppendUvarint(nil, uint64(l))) == vl {
			return l
		}
	}
	panic(fmt.Sprintf("no StringValue encodes to %d bytes", size))
}

// largeString is the value of message i of a body whose frame is size bytes long.
func largeString(i, size int) string {
	return strings.Repeat(string(rune('A'+i)), largeLen(size))
}

func (sp *synthSpec) full(side string) []byte {
	n := 8
	for _, z := range sp.Sizes {
		n += 4 + z
	}
	out := make([]byte, 0, n)
	for i, z := range sp.Sizes {
		out = binary.BigEndian.AppendUint32(out, uint32(z))
		l := largeLen(z)
		out = append(out, 0x0A)
		out = binary.AppendUvarint(out, uint64(l))
		for k := 0; k < l; k++ {
			out = append(out, byte('A'+i))
		}
	}
	if side == "client" {
		out = append(out, okTrailerFrame...)
	}
	return out
}

func (sp *synthSpec) body(side string) []byte {
	b := sp.full(side)
	if sp.Cut >= 0 && sp.Cut <= len(b) {
		b = b[:sp.Cut:sp.Cut]
	}
	return b
}

func (sp *synthSpec) name() string {
	return strings.ReplaceAll(fmt.Sprint(sp.Sizes), " ", ",")
}

// cuts: complete; and, for every frame after the first, just after its prefix
// plus one byte, in its middle, and one byte short of its end.
func (sp *synthSpec) cuts() []int {
	out := []int{-1}
	pos := 0
	for i, z := range sp.Sizes {
		if i > 0 {
			out = append(out, pos+5, pos+4+z/2, pos+4+z-1)
		}
		pos += 4 + z
	}
	return out
}

func largeSizes(tier string) [][]int {
	const k64, m1 = 64 << 10, 1 << 20
	out := [][]int{
		{k64, k64, k64},
		{k64 + 1, k64 + 1, k64 + 1},
		{m1, m1, m1},
		{k64, k64, k64, k64, k64, k64},
		{m1, k64 + 1, k64, k64},
	}
	if tier == "thorough" {
		out = append(out,
			[]int{k64 + 1, k64 + 1, k64 + 1, k64 + 1, k64 + 1, k64 + 1},
			[]int{m1, m1, m1, m1, m1, m1},
			[]int{k64, m1, k64 + 1, m1, k64, k64},
			[]int{4 << 20, 4 << 20, 4 << 20})
	}
	return out
}

type largeBase struct {
	sizes []int
	cut   int
}

var largeSides = []string{"client", "server"}

type a2base struct {
	rec *recording
	cut int
}

type space struct {
	tier       string
	hostile    *hostileSet
	nFrameSyms int
	endingsA1  []bool
	endingsA2  []bool
	deliveries []string
	recs       []*recording
	a2         []a2base
	large      []largeBase
	fullCache  map[string][]byte
	nA1, nA2   int
	nLarge     int
}

var sideModes = [][2]string{{"client", "stream"}, {"client", "single"}, {"server", "stream"}, {"server", "single"}}

func buildSpace(tier string) (*space, error) {
	s := &space{tier: tier}
	s.hostile = newHostileSet()
	s.nFrameSyms = len(s.hostile.fa)
	s.endingsA2 = []bool{false, true}
	if tier == "thorough" {
		s.endingsA1 = []bool{false, true}
		s.deliveries = []string{"whole", "bytewise", "with-err"}
	} else {
		s.endingsA1 = []bool{false}
		s.deliveries = []string{"whole"}
	}
	recs, err := recordAll(tier)
	if err != nil {
		return nil, err
	}
	s.recs = recs
	for _, r := range recs {
		for c := 0; c <= len(r.Body); c++ {
			s.a2 = append(s.a2, a2base{r, c})
		}
	}
	s.nA1 = s.hostile.len() * len(sideModes) * len(s.endingsA1) * len(s.deliveries)
	s.nA2 = len(s.a2) * len(s.endingsA2) * len(s.deliveries)
	for _, sz := range largeSizes(tier) {
		for _, c := range (&synthSpec{Sizes: sz}).cuts() {
			s.large = append(s.large, largeBase{sz, c})
		}
	}
	s.fullCache = map[string][]byte{}
	s.nLarge = len(s.large) * len(largeSides) * len(s.endingsA2) * len(s.deliveries)
	return s, nil
}

func (s *space) total() int { return s.nA1 + s.nA2 + s.nLarge }

func (s *space) largeAt(i int) *Case {
	d := i % len(s.deliveries)
	i /= len(s.deliveries)
	e := i % len(s.endingsA2)
	i /= len(s.endingsA2)
	side := largeSides[i%len(largeSides)]
	i /= len(largeSides)
	b := s.large[i]
	spec := &synthSpec{Sizes: b.sizes, Cut: b.cut}
	k := side + spec.name()
	full, ok := s.fullCache[k]
	if !ok {
		full = spec.full(side)
		s.fullCache[k] = full
	}
	body, where := full, "complete"
	if b.cut >= 0 {
		body, where = full[:b.cut:b.cut], fmt.Sprintf("cut at %d of %d", b.cut, len(full))
	}
	what := "response"
	if side == "server" {
		what = "request"
	}
	return &Case{Alphabet: "A2-large", Side: side, Mode: "stream", body: body, Abrupt: s.endingsA2[e], Delivery: s.deliveries[d],
		Label: fmt.Sprintf("%s with large frames %s %s", what, spec.name(), where), FullLen: len(full), Synth: spec}
}

func (s *space) at(i int) *Case {
	if i < s.nA1 {
		d := i % len(s.deliveries)
		i /= len(s.deliveries)
		e := i % len(s.endingsA1)
		i /= len(s.endingsA1)
		sm := i % len(sideModes)
		i /= len(sideModes)
		h := s.hostile.at(i)
		return &Case{Alphabet: h.alpha, Side: sideModes[sm][0], Mode: sideModes[sm][1], BodyHex: hex.EncodeToString(h.body), body: h.body,
			Abrupt: s.endingsA1[e], Delivery: s.deliveries[d], Label: h.label}
	}
	i -= s.nA1
	if i >= s.nA2 {
		return s.largeAt(i - s.nA2)
	}
	d := i % len(s.deliveries)
	i /= len(s.deliveries)
	e := i % len(s.endingsA2)
	i /= len(s.endingsA2)
	b := s.a2[i]
	body := b.rec.Body[:b.cut:b.cut]
	c := &Case{Alphabet: "A2", Side: b.rec.Side, Mode: b.rec.Mode, BodyHex: hex.EncodeToString(body), body: body,
		Abrupt: s.endingsA2[e], Delivery: s.deliveries[d], Label: fmt.Sprintf("%s cut at %d of %d", b.rec.Name, b.cut, len(b.rec.Body)), FullLen: len(b.rec.Body)}
	if b.rec.Mode == "unary" && b.rec.Side == "client" {
		c.Status = b.rec.Status
		c.Header = b.rec.Header
	}
	return c
}

// hash identifies the case space so that parent and workers agree on it.
func (s *space) hash() string {
	var sb strings.Builder
	fmt.Fprintf(&sb, "%s|%d|%d|%d|%v|", s.tier, s.nA1, s.nA2, s.nLarge, s.large)
	for _, r := range s.recs {
		fmt.Fprintf(&sb, "%s/%s/%s/%x|", r.Name, r.Side, r.Mode, r.Body)
	}
	return fmt.Sprintf("%x", fnv64([]byte(sb.String())))
}

func fnv64(b []byte) uint64 {
	h := uint64(14695981039346656037)
	for _, c := range b {
		h ^= uint64(c)
		h *= 1099511628211
	}
	return h
}
