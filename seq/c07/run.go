package main

import (
	"context"
	"fmt"
	"io"
	"net/http"
	"net/http/httptest"
	"net/url"
	"runtime"
	"runtime/debug"
	"strconv"
	"strings"
	"sync"

	"github.com/fullstorydev/grpchan/httpgrpc"
	"google.golang.org/grpc"
	"google.golang.org/protobuf/proto"
	"google.golang.org/protobuf/types/known/wrapperspb"

	"verif/seq/common"
)

// faultBody is an http body that yields data and then ends cleanly (io.EOF)
// or abruptly (io.ErrUnexpectedEOF), in one of four delivery patterns: as much
// as the reader asks for, one byte per Read, the ending reported together with
// the last bytes, or with read boundaries at given offsets (no Read crosses one).
type faultBody struct {
	data     []byte
	off      int   // bytes handed out so far
	splits   []int // delivery "split": no Read crosses one of these offsets
	end      error
	delivery string
	once     sync.Once
	closed   chan struct{}
	gate     *gate // nil: all of the body is available at once
}

// gate makes a body release only a prefix and reports how far its reader got
// (dimension "the context ends at a frame-granular instant", dims.go). Read is
// only ever called by one goroutine at a time (the reader goroutine of the
// stream); the harness looks at the channels only.
type gate struct {
	off     int             // no Read crosses this offset and a Read at it blocks until ctx ends; < 0: no such offset
	watch   int             // reached is closed as soon as this many bytes have been handed out; < 0: never
	ctx     context.Context // the context of the request (set by the RoundTripper); once it has ended every Read fails with its error
	reached chan struct{}
	blocked chan struct{} // closed when a Read arrives at off
	rOnce   sync.Once
	bOnce   sync.Once
}

func newGate(off, watch int) *gate {
	return &gate{off: off, watch: watch, reached: make(chan struct{}), blocked: make(chan struct{})}
}

func newFaultBody(c *Case) *faultBody {
	end := io.EOF
	if c.Abrupt {
		end = io.ErrUnexpectedEOF
	}
	return &faultBody{data: c.Body(), end: end, delivery: c.Delivery, splits: c.Splits, closed: make(chan struct{})}
}

func (f *faultBody) Read(p []byte) (int, error) {
	g := f.gate
	if g != nil {
		if err := g.ctx.Err(); err != nil {
			return 0, err
		}
		if g.off >= 0 && f.off >= g.off {
			g.bOnce.Do(func() { close(g.blocked) })
			<-g.ctx.Done()
			return 0, g.ctx.Err()
		}
	}
	if len(f.data) == 0 {
		return 0, f.end
	}
	if len(p) == 0 {
		return 0, nil
	}
	n := len(p)
	if f.delivery == "bytewise" {
		n = 1
	}
	if g != nil && g.off >= 0 && f.off+n > g.off {
		n = g.off - f.off
	}
	for _, b := range f.splits {
		if f.off < b && b < f.off+n {
			n = b - f.off
		}
	}
	n = copy(p[:n], f.data)
	f.data = f.data[n:]
	f.off += n
	if g != nil && g.watch >= 0 && f.off >= g.watch {
		g.rOnce.Do(func() { close(g.reached) })
	}
	if f.delivery == "with-err" && len(f.data) == 0 {
		return n, f.end
	}
	return n, nil
}

// harnessSelfTest checks the body reader itself: under every fragmentation of
// a 9-byte body (and every size of the reader's buffer) it hands out exactly
// the bytes of the body, no Read crosses a declared read boundary, every
// declared boundary is a boundary between two Reads when the buffer is large
// enough, and the ending is the one asked for.
func harnessSelfTest() error {
	body := []byte("012345678")
	L := len(body)
	n := fragCount(L, true, true)
	for i := 0; i < n; i++ {
		v := fragAt(L, i, true)
		for _, abrupt := range []bool{false, true} {
			for bufLen := 1; bufLen <= L+1; bufLen++ {
				c := &Case{body: body, Abrupt: abrupt, Delivery: v.delivery, Splits: v.splits}
				fb := newFaultBody(c)
				var got []byte
				ends := map[int]bool{}
				var err error
				for k := 0; k < 4*L && err == nil; k++ {
					var m int
					from := len(got)
					m, err = fb.Read(make([]byte, bufLen))
					got = append(got, body[from:from+m]...)
					for _, b := range v.splits {
						if from < b && b < from+m {
							return fmt.Errorf("harness: a Read of %d bytes at offset %d crosses the read boundary %d", m, from, b)
						}
					}
					ends[from+m] = true
				}
				want := io.EOF
				if abrupt {
					want = io.ErrUnexpectedEOF
				}
				if string(got) != string(body) || err != want {
					return fmt.Errorf("harness: fragmentation %v %v yields %q / %v", v.delivery, v.splits, got, err)
				}
				for _, b := range v.splits {
					if !ends[b] {
						return fmt.Errorf("harness: fragmentation %v: no Read ended at %d", v.splits, b)
					}
				}
			}
		}
	}
	return nil
}

func (f *faultBody) Close() error {
	f.once.Do(func() { close(f.closed) })
	return nil
}

// declare returns the length the message carrying the body declares for it
// (the ContentLength field of the request/response) and makes the
// Content-Length header agree with it, as net/http would have it.
func declare(c *Case, h http.Header, dflt int64) int64 {
	if c.CL == nil {
		return dflt
	}
	if *c.CL >= 0 {
		h.Set("Content-Length", strconv.FormatInt(*c.CL, 10))
	} else {
		h.Del("Content-Length")
	}
	return *c.CL
}

func totalAlloc() uint64 {
	var ms runtime.MemStats
	runtime.ReadMemStats(&ms)
	return ms.TotalAlloc
}

func recovered(o *Obs) {
	if r := recover(); r != nil {
		st := string(debug.Stack())
		if i := strings.Index(st, "panic("); i >= 0 {
			st = st[i:]
		}
		if len(st) > 600 {
			st = st[:600]
		}
		o.Panic = fmt.Sprintf("%v | %s", r, strings.ReplaceAll(st, "\n", " "))
	}
}

func (o *Obs) deliver(m *wrapperspb.StringValue) {
	b, _ := proto.MarshalOptions{Deterministic: true}.Marshal(m)
	o.Delivered = append(o.Delivered, b)
	o.DeliveredS = append(o.DeliveredS, abbr(m.Value))
}

// abbr keeps reports readable for large messages: head, length and a hash.
func abbr(s string) string {
	if len(s) <= 64 {
		return s
	}
	return fmt.Sprintf("%s...[%d bytes, fnv %016x]", s[:12], len(s), fnv64([]byte(s)))
}

// firstDiff describes where two strings start to differ.
func firstDiff(got, want string) string {
	n := len(got)
	if len(want) < n {
		n = len(want)
	}
	i := 0
	for i < n && got[i] == want[i] {
		i++
	}
	if i == n {
		return fmt.Sprintf("lengths %d vs %d, equal up to the shorter", len(got), len(want))
	}
	j := i
	for j < n && got[j] != want[j] {
		j++
	}
	return fmt.Sprintf("lengths %d vs %d, first difference at character %d: got %q want %q, differing run of %d", len(got), len(want), i, got[i], want[i], j-i)
}

func (o *Obs) final(err error) {
	o.FinalErr = err.Error()
	o.FinalEOF = err == io.EOF
}

var baseURL, _ = url.Parse("http://example.test/")

type recvr interface{ RecvMsg(interface{}) error }

func recvAll(s recvr, o *Obs) { recvAllInto(s, o, newDest("")) }

// recvAllInto receives until RecvMsg fails, into the destination objects that
// dst hands out; what a receive yields is recorded at once (a reused object is
// overwritten by the next receive).
func recvAllInto(s recvr, o *Obs, dst *destSource) {
	for i := 0; i < maxRecv; i++ {
		m := dst.next(i)
		if err := s.RecvMsg(m); err != nil {
			o.final(err)
			return
		}
		o.deliver(m)
	}
	o.FinalNil = true
}

// runClient feeds the body as the response of a streaming call to the real client stream.
func runClient(c *Case) *Obs {
	o := &Obs{DeliveredS: []string{}}
	fb := newFaultBody(c)
	called := make(chan struct{})
	rt := common.RT(func(r *http.Request) (*http.Response, error) {
		close(called)
		h := http.Header{"Content-Type": {httpgrpc.StreamRpcContentType_V1}}
		return &http.Response{StatusCode: 200, Status: "200 OK", Proto: "HTTP/1.1", ProtoMajor: 1, ProtoMinor: 1,
			Header: h, Body: fb, ContentLength: declare(c, h, -1), Request: r}, nil
	})
	ch := &httpgrpc.Channel{Transport: rt, BaseURL: baseURL}
	ctx, cancel := context.WithCancel(context.Background())
	before := totalAlloc()
	started := false
	func() {
		defer recovered(o)
		st, err := ch.NewStream(ctx, &grpc.StreamDesc{StreamName: "M", ClientStreams: true, ServerStreams: c.Mode == "stream"}, "/t.S/M")
		if err != nil {
			o.final(err)
			o.Note = "NewStream failed"
			return
		}
		started = true
		st.CloseSend()
		recvAllInto(st, o, newDest(c.Dest))
	}()
	cancel()
	if started {
		// the reader goroutine of the stream closes the body when it is done; only
		// then is everything this body made the library allocate accounted for
		<-called
		<-fb.closed
	}
	o.Alloc = totalAlloc() - before
	return o
}

func newServer(handler func(grpc.ServerStream) error, unary common.UnaryFn) *httpgrpc.Server {
	srv := httpgrpc.NewServer()
	svc := &common.Svc{Name: "t.S",
		Unary: map[string]common.UnaryFn{"U": unary},
		Streams: map[string]common.StreamDef{
			"Stream": {Fn: handler, ClientStreams: true, ServerStreams: true},
			"Single": {Fn: handler, ClientStreams: false, ServerStreams: true},
		}}
	srv.RegisterService(svc.Desc(), common.Impl{})
	return srv
}

// runServer feeds the body as the request of a streaming method to the real server.
func runServer(c *Case) *Obs {
	o := &Obs{DeliveredS: []string{}}
	handlerRan := false
	srv := newServer(func(ss grpc.ServerStream) error {
		handlerRan = true
		recvAllInto(ss, o, newDest(c.Dest))
		return nil
	}, nil)
	path := "/t.S/Stream"
	if c.Mode == "single" {
		path = "/t.S/Single"
	}
	fb := newFaultBody(c)
	req := httptest.NewRequest("POST", path, fb)
	req.Header.Set("Content-Type", httpgrpc.StreamRpcContentType_V1)
	req.ContentLength = declare(c, req.Header, -1)
	rec := httptest.NewRecorder()
	before := totalAlloc()
	func() {
		defer recovered(o)
		srv.ServeHTTP(rec, req)
	}()
	o.Alloc = totalAlloc() - before
	if !handlerRan && o.Panic == "" {
		o.Note = fmt.Sprintf("handler not reached: http %d", rec.Code)
		o.FinalErr = o.Note
	}
	return o
}

// runUnaryClient feeds the body as the reply of a unary call.
func runUnaryClient(c *Case) *Obs {
	o := &Obs{DeliveredS: []string{}}
	fb := newFaultBody(c)
	rt := common.RT(func(r *http.Request) (*http.Response, error) {
		if r.Body != nil {
			io.Copy(io.Discard, r.Body)
			r.Body.Close()
		}
		h := http.Header{}
		for k, v := range c.Header {
			h[k] = append([]string(nil), v...)
		}
		recorded := int64(-1)
		if v, err := strconv.ParseInt(h.Get("Content-Length"), 10, 64); err == nil {
			recorded = v // the real server declares the length of a unary reply
		}
		return &http.Response{StatusCode: c.Status, Status: http.StatusText(c.Status), Proto: "HTTP/1.1", ProtoMajor: 1, ProtoMinor: 1,
			Header: h, Body: fb, ContentLength: declare(c, h, recorded), Request: r}, nil
	})
	ch := &httpgrpc.Channel{Transport: rt, BaseURL: baseURL}
	before := totalAlloc()
	func() {
		defer recovered(o)
		out := newDest(c.Dest).next(0)
		err := ch.Invoke(context.Background(), "/t.S/U", wrapperspb.String("req"), out)
		if err != nil {
			o.final(err)
			return
		}
		o.deliver(out)
		o.FinalErr = "<nil>"
	}()
	if o.Panic == "" {
		<-fb.closed // Invoke reads and closes the body in a goroutine of its own
	}
	o.Alloc = totalAlloc() - before
	return o
}

// runUnaryServer feeds the body as the request of a unary method.
func runUnaryServer(c *Case) *Obs {
	o := &Obs{DeliveredS: []string{}}
	srv := newServer(func(grpc.ServerStream) error { return nil }, func(ctx context.Context, dec func(interface{}) error) (interface{}, error) {
		in := newDest(c.Dest).next(0)
		if err := dec(in); err != nil {
			o.final(err)
			return nil, err
		}
		o.deliver(in)
		o.FinalErr = "<nil>"
		return wrapperspb.String("resp"), nil
	})
	req := httptest.NewRequest("POST", "/t.S/U", newFaultBody(c))
	req.Header.Set("Content-Type", httpgrpc.UnaryRpcContentType_V1)
	req.ContentLength = declare(c, req.Header, -1)
	rec := httptest.NewRecorder()
	before := totalAlloc()
	func() {
		defer recovered(o)
		srv.ServeHTTP(rec, req)
	}()
	o.Alloc = totalAlloc() - before
	if o.FinalErr == "" {
		o.FinalErr = fmt.Sprintf("handler not reached: http %d", rec.Code)
	}
	return o
}

func runCase(c *Case) *Obs {
	switch {
	case c.Mode == "unary" && c.Side == "client":
		return runUnaryClient(c)
	case c.Mode == "unary":
		return runUnaryServer(c)
	case c.Side == "client" && c.Ctx != nil:
		return runClientCtx(c)
	case c.Side == "client":
		return runClient(c)
	}
	return runServer(c)
}
