package main

import (
	"context"
	"fmt"
	"net/http"
	"runtime"
	"strings"
	"time"

	"github.com/fullstorydev/grpchan/httpgrpc"
	"google.golang.org/grpc"

	"verif/seq/common"
)

// runClientCtx runs one case of the dimension "the context ends at a
// frame-granular instant" (dims.go). A deadline is a real one; the attempt
// counts only if the deadline had not yet passed when the state asked for was
// reached, otherwise it is repeated with a deadline twice as far away. No
// outcome depends on how long anything takes.
func runClientCtx(c *Case) *Obs {
	for d := 4 * time.Millisecond; ; d *= 2 {
		o, valid := runClientCtxOnce(c, d)
		if valid {
			return o
		}
		if d > 16*time.Second {
			select {} // the hang guard of the worker reports the case as undecided
		}
	}
}

func runClientCtxOnce(c *Case, d time.Duration) (o *Obs, valid bool) {
	o = &Obs{DeliveredS: []string{}}
	sp := c.Ctx
	body := c.Body()
	ends := frameEnds(body)
	if sp.K < 0 || sp.J < 0 || sp.K > len(ends)-1 || sp.J > len(ends)-2 || sp.J > sp.K {
		o.Note = "bad ctx_end"
		o.final(fmt.Errorf("harness: bad ctx_end %+v for a body of %d data frames", *sp, len(ends)-2))
		return o, true
	}
	// where the reader goroutine can make no further progress: at the gate, or
	// (the consumer lags) once it has fully read a frame that nobody takes
	off, watch := -1, -1
	if sp.K < len(ends)-1 {
		off = ends[sp.K]
	}
	if sp.Where == "between" && sp.J < sp.K {
		watch = ends[sp.J+1]
	}
	g := newGate(off, watch)
	fb := newFaultBody(c)
	fb.gate = g
	called := make(chan struct{})
	readerGID := ""
	rt := common.RT(func(r *http.Request) (*http.Response, error) {
		g.ctx = r.Context()
		readerGID = curGoroutine()
		close(called)
		h := http.Header{"Content-Type": {httpgrpc.StreamRpcContentType_V1}}
		return &http.Response{StatusCode: 200, Status: "200 OK", Proto: "HTTP/1.1", ProtoMajor: 1, ProtoMinor: 1,
			Header: h, Body: fb, ContentLength: -1, Request: r}, nil
	})
	ch := &httpgrpc.Channel{Transport: rt, BaseURL: baseURL}
	var ctx context.Context
	var cancel context.CancelFunc
	if sp.How == "deadline" {
		ctx, cancel = context.WithDeadline(context.Background(), time.Now().Add(d))
	} else {
		ctx, cancel = context.WithCancel(context.Background())
	}
	defer cancel()
	valid = true
	idle := make(chan struct{})         // the consumer has completed its J receives
	ended := make(chan struct{})        // the harness has ended the context
	consumerDone := make(chan struct{}) // the consumer has returned
	helperDone := make(chan struct{})
	yield := func(n int) {
		// steering only (the workers run on one P): lets the other goroutines get
		// to wherever they park; no outcome that is demanded depends on it
		for i := 0; i < n; i++ {
			runtime.Gosched()
		}
	}
	// The helper ends the context once nothing moves any more: the reader
	// goroutine can make no further progress and the consumer is where the case
	// wants it. With a decoder that does not hand over J messages from the frames
	// released (the consumer then waits inside RecvMsg, the reader at the gate)
	// it ends the context in that state instead: the case must not hang.
	go func() {
		defer close(helperDone)
		reader, idleSeen, spins := "", false, 0
		for reader == "" {
			if !idleSeen {
				select {
				case <-consumerDone:
					return
				case <-fb.closed:
					reader = "left"
				case <-g.blocked:
					reader = "gate"
				case <-g.reached:
					reader = "ahead"
				case <-idle:
					idleSeen = true
				}
				continue
			}
			select {
			case <-consumerDone:
				return
			case <-fb.closed:
				reader = "left"
			case <-g.blocked:
				reader = "gate"
			case <-g.reached:
				reader = "ahead"
			default:
				// the consumer stays away and none of the body's signals has come:
				// poll for the state "the reader goroutine is parked" (it holds a
				// frame that is not one of the body's)
				yield(1)
				if spins++; spins > 64 {
					<-called
					if goroutineParked(readerGID) {
						reader = "parked"
					} else {
						time.Sleep(50 * time.Microsecond) // poll interval
					}
				}
			}
		}
		if reader == "ahead" || reader == "parked" {
			// it holds a frame: the consumer can complete its receives (unless the
			// reader got to the gate or left after all, with a decoder that sees
			// other frames in the body than the body's)
			select {
			case <-idle:
			case <-g.blocked:
			case <-fb.closed:
			case <-consumerDone:
				return
			}
		}
		yield(8)
		if sp.How == "deadline" {
			if ctx.Err() != nil {
				valid = false // the deadline passed before the state was reached
			}
			<-ctx.Done()
		} else {
			cancel()
		}
		close(ended)
	}()
	before := totalAlloc()
	started := false
	func() {
		defer close(consumerDone)
		defer recovered(o)
		st, err := ch.NewStream(ctx, &grpc.StreamDesc{StreamName: "M", ClientStreams: true, ServerStreams: c.Mode == "stream"}, "/t.S/M")
		if err != nil {
			o.final(err)
			o.Note = "NewStream failed"
			return
		}
		started = true
		st.CloseSend()
		dst := newDest(c.Dest)
		for i := 0; i < maxRecv; i++ {
			if i == sp.J {
				close(idle)
				if sp.Where == "between" {
					<-ended
					<-fb.closed // the reader goroutine has left
				}
			}
			m := dst.next(i)
			if err := st.RecvMsg(m); err != nil {
				o.final(err)
				return
			}
			o.deliver(m)
			if i == sp.J && sp.Where == "inside" {
				<-ended
				<-fb.closed
			}
		}
		o.FinalNil = true
	}()
	<-helperDone
	select {
	case <-ended:
	default:
		// the stream was over before the context had to end; with a deadline that
		// only counts if the deadline did not do it
		if sp.How == "deadline" && ctx.Err() != nil {
			valid = false
		}
	}
	cancel()
	if started {
		<-called
		<-fb.closed
	}
	o.Alloc = totalAlloc() - before
	return o, valid
}

// curGoroutine returns the id of the calling goroutine as the runtime prints it.
func curGoroutine() string {
	buf := make([]byte, 64)
	f := strings.Fields(string(buf[:runtime.Stack(buf, false)]))
	if len(f) < 2 {
		return "?"
	}
	return f[1]
}

// goroutineParked: the goroutine is gone or waits for something (its state in
// the runtime's goroutine dump is neither running nor runnable).
func goroutineParked(id string) bool {
	buf := make([]byte, 1<<16)
	for {
		n := runtime.Stack(buf, true)
		if n < len(buf) {
			buf = buf[:n]
			break
		}
		buf = make([]byte, 2*len(buf))
	}
	s := "\n" + string(buf)
	key := "\ngoroutine " + id + " ["
	i := strings.Index(s, key)
	if i < 0 {
		return true
	}
	st := s[i+len(key):]
	if j := strings.IndexAny(st, ",]"); j >= 0 {
		st = st[:j]
	}
	return st != "running" && st != "runnable"
}

// gateSelfTest checks the gated body: it hands out exactly the bytes before
// the gate, in reads that do not cross it, reports the watched offset and the
// arrival at the gate, blocks there until the context ends and fails from then
// on with the context's error.
func gateSelfTest() error {
	// the state poll: a goroutine that waits is parked, the caller is not, one
	// that has returned is gone
	if goroutineParked(curGoroutine()) {
		return fmt.Errorf("harness: the running goroutine is reported as parked")
	}
	idc, release, gone := make(chan string), make(chan struct{}), make(chan struct{})
	go func() {
		defer close(gone)
		idc <- curGoroutine()
		<-release
	}()
	id := <-idc
	for i := 0; !goroutineParked(id); i++ {
		if i > 1000000 {
			return fmt.Errorf("harness: a goroutine that waits on a channel is never reported as parked")
		}
		runtime.Gosched()
	}
	close(release)
	<-gone
	for i := 0; !goroutineParked(id); i++ {
		if i > 1000000 {
			return fmt.Errorf("harness: a goroutine that has returned is not reported as gone")
		}
		runtime.Gosched()
	}
	data := []byte("0123456789")
	for _, delivery := range []string{"whole", "bytewise"} {
		for off := 0; off <= len(data); off++ {
			for watch := 1; watch <= off; watch++ {
				ctx, cancel := context.WithCancel(context.Background())
				c := &Case{body: data, Delivery: delivery}
				fb := newFaultBody(c)
				g := newGate(off, watch)
				g.ctx = ctx
				fb.gate = g
				var got []byte
				buf := make([]byte, 4)
				for len(got) < off {
					select {
					case <-g.reached:
						if len(got) < watch {
							cancel()
							return fmt.Errorf("harness: gate %d/%d: reached reported after %d bytes", off, watch, len(got))
						}
					default:
						if len(got) >= watch {
							cancel()
							return fmt.Errorf("harness: gate %d/%d: reached not reported after %d bytes", off, watch, len(got))
						}
					}
					n, err := fb.Read(buf)
					if err != nil || n == 0 || len(got)+n > off {
						cancel()
						return fmt.Errorf("harness: gate %d/%d: Read at %d gives %d, %v", off, watch, len(got), n, err)
					}
					got = append(got, buf[:n]...)
				}
				if string(got) != string(data[:off]) {
					cancel()
					return fmt.Errorf("harness: gate %d: handed out %q", off, got)
				}
				select {
				case <-g.blocked:
					cancel()
					return fmt.Errorf("harness: gate %d: arrival reported before any Read at the gate", off)
				default:
				}
				res := make(chan error, 1)
				go func() {
					_, err := fb.Read(buf)
					res <- err
				}()
				<-g.blocked
				select {
				case err := <-res:
					cancel()
					return fmt.Errorf("harness: gate %d: Read at the gate returned %v before the context ended", off, err)
				default:
				}
				cancel()
				if err := <-res; err != context.Canceled {
					return fmt.Errorf("harness: gate %d: Read at the gate gives %v after the context ended", off, err)
				}
				if _, err := fb.Read(buf); err != context.Canceled {
					return fmt.Errorf("harness: gate %d: Read after the context ended gives %v", off, err)
				}
			}
		}
	}
	return nil
}
