package main

import (
	"bytes"
	"context"
	"fmt"
	"io"
	"net/http"
	"net/http/httptest"
	"strings"

	"github.com/fullstorydev/grpchan/httpgrpc"
	"google.golang.org/grpc"
	"google.golang.org/grpc/codes"
	"google.golang.org/grpc/metadata"
	"google.golang.org/grpc/status"
	"google.golang.org/protobuf/types/known/wrapperspb"

	"verif/seq/common"
)

// recording is one genuine body produced by the real client talking to the
// real server (no network: the handler runs on a recorder inside RoundTrip).
type recording struct {
	Name   string
	Side   string // who decodes it: "client" (a response body) or "server" (a request body)
	Mode   string // stream | single | unary
	Body   []byte
	Status int
	Header map[string][]string
	// what the genuine run delivered to the decoding application
	Msgs     []string
	FinalEOF bool
	Final    string
}

type scenario struct {
	kind    string // unary | cstream | sstream | bidi
	nReq    int
	nResp   int
	outcome string // ok | err | err2
	long    bool
	// bit i set: request / response message i is the all-default message (no
	// field set), which is encoded as a frame of size zero
	reqEmpty, respEmpty uint
}

// pattern spells a mask out: N a non-empty message, E an empty one.
func pattern(n int, mask uint) string {
	b := make([]byte, n)
	for i := range b {
		b[i] = 'N'
		if mask&(1<<uint(i)) != 0 {
			b[i] = 'E'
		}
	}
	return string(b)
}

func (s scenario) name() string {
	l := ""
	if s.long {
		l = "/long"
	}
	if s.reqEmpty != 0 || s.respEmpty != 0 {
		l += fmt.Sprintf("/req=%s,resp=%s", pattern(s.nReq, s.reqEmpty), pattern(s.nResp, s.respEmpty))
	}
	return fmt.Sprintf("%s/req%d/resp%d/%s%s", s.kind, s.nReq, s.nResp, s.outcome, l)
}

func (s scenario) msg(dir string, i int) string {
	mask := s.reqEmpty
	if dir == "r" {
		mask = s.respEmpty
	}
	if mask&(1<<uint(i)) != 0 {
		return ""
	}
	if s.long {
		return dir + fmt.Sprint(i) + strings.Repeat("x", 298)
	}
	return dir + fmt.Sprint(i)
}

func (s scenario) fail() error {
	if s.outcome == "ok" {
		return nil
	}
	st := status.New(codes.FailedPrecondition, "handler failed")
	var err error
	if s.outcome == "err2" {
		st, err = st.WithDetails(wrapperspb.String("detail-one"), wrapperspb.Int32(2))
	} else {
		st, err = st.WithDetails(wrapperspb.String("detail-one"))
	}
	if err != nil {
		panic(err)
	}
	return st.Err()
}

func scenarios(tier string) []scenario {
	var out []scenario
	for _, long := range []bool{false, true} {
		if long && tier != "thorough" {
			continue
		}
		outcomes := []string{"ok", "err"}
		if tier == "thorough" {
			outcomes = append(outcomes, "err2")
		}
		for _, oc := range outcomes {
			out = append(out, scenario{kind: "unary", nReq: 1, nResp: 1, outcome: oc, long: long})
			for n := 0; n <= 3; n++ {
				nr := 1
				if oc != "ok" {
					nr = 0
				}
				out = append(out, scenario{kind: "cstream", nReq: n, nResp: nr, outcome: oc, long: long})
			}
			if oc != "ok" {
				// a single-response call whose handler sends its response and then
				// fails: the response is on the wire, the failure takes precedence
				// (dimension "which return carries the call's outcome", verdict.go)
				out = append(out, scenario{kind: "cstream", nReq: 1, nResp: 1, outcome: oc, long: long})
				if !long {
					out = append(out, scenario{kind: "cstream", nReq: 1, nResp: 1, outcome: oc, respEmpty: 1})
				}
			}
			for m := 0; m <= 3; m++ {
				out = append(out, scenario{kind: "sstream", nReq: 1, nResp: m, outcome: oc, long: long})
			}
			for n := 0; n <= 3; n++ {
				for m := 0; m <= 3; m++ {
					out = append(out, scenario{kind: "bidi", nReq: n, nResp: m, outcome: oc, long: long})
				}
			}
			if long {
				continue
			}
			// every pattern of empty / non-empty messages of length <= 3 with at
			// least one empty message (the scenarios above are the all-non-empty
			// patterns), as request stream and as response stream; and the empty
			// message as single request, single response, unary request and reply
			nr := 1
			if oc != "ok" {
				nr = 0
			}
			for n := 1; n <= 3; n++ {
				for mask := uint(1); mask < 1<<uint(n); mask++ {
					out = append(out, scenario{kind: "cstream", nReq: n, nResp: nr, outcome: oc, reqEmpty: mask})
					out = append(out, scenario{kind: "sstream", nReq: 1, nResp: n, outcome: oc, respEmpty: mask})
				}
			}
			out = append(out, scenario{kind: "sstream", nReq: 1, nResp: 1, outcome: oc, reqEmpty: 1})
			out = append(out, scenario{kind: "unary", nReq: 1, nResp: 1, outcome: oc, reqEmpty: 1})
			if oc == "ok" {
				out = append(out, scenario{kind: "cstream", nReq: 1, nResp: 1, outcome: oc, respEmpty: 1})
				out = append(out, scenario{kind: "unary", nReq: 1, nResp: 1, outcome: oc, respEmpty: 1})
			}
		}
	}
	return out
}

type capture struct {
	req, resp []byte
	status    int
	header    http.Header
}

func recordingRT(h http.Handler, cp *capture) http.RoundTripper {
	return common.RT(func(r *http.Request) (*http.Response, error) {
		var buf bytes.Buffer
		r2 := r.Clone(r.Context())
		if r.Body == nil {
			r2.Body = io.NopCloser(bytes.NewReader(nil))
		} else {
			r2.Body = io.NopCloser(io.TeeReader(r.Body, &buf))
		}
		r2.RemoteAddr = "192.0.2.1:1234"
		r2.RequestURI = r2.URL.RequestURI()
		rec := httptest.NewRecorder()
		h.ServeHTTP(rec, r2)
		cp.req = append([]byte{}, buf.Bytes()...)
		cp.resp = append([]byte{}, rec.Body.Bytes()...)
		resp := rec.Result()
		cp.status = resp.StatusCode
		cp.header = resp.Header.Clone()
		resp.Request = r
		return resp, nil
	})
}

// record runs one scenario natively and returns the request-side and the
// response-side recording.
func record(s scenario) (reqRec, respRec *recording, err error) {
	srvGot := &Obs{DeliveredS: []string{}}
	handler := func(ss grpc.ServerStream) error {
		recvAll(ss, srvGot)
		if !srvGot.FinalEOF {
			return status.Error(codes.Internal, "recording: unexpected receive error "+srvGot.FinalErr)
		}
		for i := 0; i < s.nResp; i++ {
			if err := ss.SendMsg(wrapperspb.String(s.msg("r", i))); err != nil {
				return err
			}
		}
		if s.outcome != "ok" {
			ss.SetTrailer(metadata.MD{"tk": {"tv1", "tv2"}})
		}
		return s.fail()
	}
	srv := httpgrpc.NewServer()
	svc := &common.Svc{Name: "t.S",
		Unary: map[string]common.UnaryFn{"U": func(ctx context.Context, dec func(interface{}) error) (interface{}, error) {
			var in wrapperspb.StringValue
			if err := dec(&in); err != nil {
				return nil, err
			}
			srvGot.deliver(&in)
			srvGot.FinalErr = "<nil>"
			if s.outcome != "ok" {
				grpc.SetTrailer(ctx, metadata.MD{"tk": {"tv1", "tv2"}})
				return nil, s.fail()
			}
			return wrapperspb.String(s.msg("r", 0)), nil
		}},
		Streams: map[string]common.StreamDef{
			"cstream": {Fn: handler, ClientStreams: true, ServerStreams: false},
			"sstream": {Fn: handler, ClientStreams: false, ServerStreams: true},
			"bidi":    {Fn: handler, ClientStreams: true, ServerStreams: true},
		}}
	srv.RegisterService(svc.Desc(), common.Impl{})
	var cp capture
	ch := &httpgrpc.Channel{Transport: recordingRT(srv, &cp), BaseURL: baseURL}
	cliGot := &Obs{DeliveredS: []string{}}
	ctx, cancel := context.WithCancel(context.Background())
	defer cancel()
	reqMode, respMode := "stream", "stream"
	if s.kind == "unary" {
		reqMode, respMode = "unary", "unary"
		var out wrapperspb.StringValue
		if e := ch.Invoke(ctx, "/t.S/U", wrapperspb.String(s.msg("q", 0)), &out); e != nil {
			cliGot.final(e)
		} else {
			cliGot.deliver(&out)
			cliGot.FinalErr = "<nil>"
		}
	} else {
		desc := &grpc.StreamDesc{StreamName: s.kind, ClientStreams: s.kind != "sstream", ServerStreams: s.kind != "cstream"}
		if !desc.ClientStreams {
			reqMode = "single"
		}
		if !desc.ServerStreams {
			respMode = "single"
		}
		st, e := ch.NewStream(ctx, desc, "/t.S/"+s.kind)
		if e != nil {
			return nil, nil, e
		}
		for i := 0; i < s.nReq; i++ {
			if e := st.SendMsg(wrapperspb.String(s.msg("q", i))); e != nil {
				return nil, nil, fmt.Errorf("%s: SendMsg: %v", s.name(), e)
			}
		}
		st.CloseSend()
		recvAll(st, cliGot)
	}
	// the genuine run itself must have behaved as scripted
	if len(srvGot.DeliveredS) != s.nReq {
		return nil, nil, fmt.Errorf("%s: genuine run delivered %d requests to the handler, want %d (%s)", s.name(), len(srvGot.DeliveredS), s.nReq, srvGot.FinalErr)
	}
	wantResp := s.nResp
	if s.kind == "unary" && s.outcome != "ok" {
		wantResp = 0
	}
	if s.kind == "cstream" && s.outcome != "ok" && len(cliGot.DeliveredS) <= s.nResp {
		// a response followed by a failure: whether the application may see the
		// response is for the oracle to say (the replay of this body is a case)
		wantResp = len(cliGot.DeliveredS)
	}
	if len(cliGot.DeliveredS) != wantResp || (s.outcome == "ok") != (cliGot.FinalEOF || cliGot.FinalErr == "<nil>") {
		return nil, nil, fmt.Errorf("%s: genuine run delivered %d responses / final %q, want %d", s.name(), len(cliGot.DeliveredS), cliGot.FinalErr, wantResp)
	}
	reqRec = &recording{Name: "request of " + s.name(), Side: "server", Mode: reqMode, Body: cp.req, Msgs: srvGot.DeliveredS, FinalEOF: srvGot.FinalEOF, Final: srvGot.FinalErr}
	respRec = &recording{Name: "response of " + s.name(), Side: "client", Mode: respMode, Body: cp.resp, Status: cp.status, Header: cp.header,
		Msgs: cliGot.DeliveredS, FinalEOF: cliGot.FinalEOF, Final: cliGot.FinalErr}
	return reqRec, respRec, nil
}

// recordAll records every scenario of the tier; byte-identical bodies for the
// same decoder (side, mode) are kept once.
func recordAll(tier string) ([]*recording, error) {
	var out []*recording
	seen := map[string]bool{}
	for _, s := range scenarios(tier) {
		rq, rs, err := record(s)
		if err != nil {
			return nil, err
		}
		for _, r := range []*recording{rs, rq} {
			k := r.Side + "|" + r.Mode + "|" + string(r.Body)
			if r.Mode == "unary" && r.Side == "client" {
				k += fmt.Sprintf("|%d|%v", r.Status, r.Header["X-Grpc-Status"])
			}
			if seen[k] {
				continue
			}
			seen[k] = true
			out = append(out, r)
		}
	}
	return out, nil
}

// faithful replays every complete recording (clean ending) through the replay
// harness and compares with what the genuine run delivered: the harness must
// not distort what it measures.
func faithful(recs []*recording) error {
	for _, r := range recs {
		c := &Case{Alphabet: "A2", Side: r.Side, Mode: r.Mode, body: r.Body, Delivery: "whole", Status: r.Status, Header: r.Header, FullLen: len(r.Body)}
		o := runCase(c)
		if o.Panic != "" {
			continue // reported by the enumeration itself
		}
		same := len(o.DeliveredS) == len(r.Msgs) && o.FinalEOF == r.FinalEOF && o.FinalErr == r.Final
		for i := 0; same && i < len(r.Msgs); i++ {
			same = o.DeliveredS[i] == r.Msgs[i]
		}
		if !same {
			return fmt.Errorf("replay of the complete %s differs from the genuine run: replay %v / %q, genuine %v / %q", r.Name, o.DeliveredS, o.FinalErr, r.Msgs, r.Final)
		}
	}
	return nil
}

// genuineLarge runs the real client against the real server with the large
// messages of every A2-large body and checks that the request and response
// bodies on the wire are byte-identical to the synthesised ones, so that the
// A2-large alphabet consists of genuine bodies.
func genuineLarge(tier string) error {
	for _, sizes := range largeSizes(tier) {
		spec := &synthSpec{Sizes: sizes, Cut: -1}
		srv := httpgrpc.NewServer()
		svc := &common.Svc{Name: "t.S", Streams: map[string]common.StreamDef{"bidi": {ClientStreams: true, ServerStreams: true, Fn: func(ss grpc.ServerStream) error {
			n := 0
			for {
				var in wrapperspb.StringValue
				if err := ss.RecvMsg(&in); err != nil {
					break
				}
				n++
			}
			if n != len(sizes) {
				return status.Errorf(codes.Internal, "got %d requests", n)
			}
			for i, z := range sizes {
				if err := ss.SendMsg(wrapperspb.String(largeString(i, z))); err != nil {
					return err
				}
			}
			return nil
		}}}}
		srv.RegisterService(svc.Desc(), common.Impl{})
		var cp capture
		ch := &httpgrpc.Channel{Transport: recordingRT(srv, &cp), BaseURL: baseURL}
		ctx, cancel := context.WithCancel(context.Background())
		st, err := ch.NewStream(ctx, &grpc.StreamDesc{StreamName: "bidi", ClientStreams: true, ServerStreams: true}, "/t.S/bidi")
		if err != nil {
			cancel()
			return err
		}
		for i, z := range sizes {
			if err := st.SendMsg(wrapperspb.String(largeString(i, z))); err != nil {
				cancel()
				return fmt.Errorf("large %v: SendMsg: %v", sizes, err)
			}
		}
		st.CloseSend()
		for {
			var m wrapperspb.StringValue
			if err := st.RecvMsg(&m); err != nil {
				break
			}
		}
		cancel()
		if !bytes.Equal(cp.resp, spec.full("client")) {
			return fmt.Errorf("large %v: the genuine response body (%d bytes) differs from the synthesised one (%d bytes)", sizes, len(cp.resp), len(spec.full("client")))
		}
		if !bytes.Equal(cp.req, spec.full("server")) {
			return fmt.Errorf("large %v: the genuine request body (%d bytes) differs from the synthesised one (%d bytes)", sizes, len(cp.req), len(spec.full("server")))
		}
	}
	return nil
}
