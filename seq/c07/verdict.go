package main

import (
	"fmt"

	"google.golang.org/protobuf/proto"
	"google.golang.org/protobuf/types/known/wrapperspb"
)

// ---- dimension WHICH RETURN CARRIES THE CALL'S OUTCOME --------------------
//
// "Reported to the client as a failed call" is a statement about what the
// application is told, and the application is told at a different point of its
// operation sequence for every kind of call:
//
//	response stream (server-streaming, bidi)   Recv until it fails: the error that
//	                                           ends the loop; io.EOF = success
//	single response (client-streaming method,  ONE RecvMsg (generated CloseAndRecv;
//	 unary method invoked through NewStream)   grpc.Invoke over a stream): its
//	                                           return; nil = success with that
//	                                           response. No further call is made.
//	unary through Invoke                       the return of Invoke
//	request stream, request single (server)    io.EOF from RecvMsg = "the client
//	                                           has finished sending"
//
// (grpc-go does the same: for a method without ServerStreams its RecvMsg reads
// on to the end of the stream before it returns the response, and returns the
// status instead if the call failed.) The receive loop of the harness makes
// the call of the single-response application as its first call, in the same
// state, so every case of the decoder client/single (all blocks: A1, A2, read
// fragmentation, declared length, destination object, context end) is also a
// case of that application: successVerdicts lists every return of the recorded
// sequence that reports success, and the oracle judges each of them with the
// reference decoder, not only the error the sequence ends with.
//
// The A2 recordings get the outcome this dimension adds to single-response
// calls: a handler that sends its response and then fails ("the failure takes
// precedence": no message, the error).

const clauseSuccessByResponse = "reported-success-with-response"

// verdict is one return of the recorded call sequence that tells the
// application the call (server: the request) is complete and successful.
type verdict struct {
	At        string // which call
	Delivered int    // messages handed over up to and including that call
	Final     bool   // the io.EOF that ended the receive loop
}

func successVerdicts(c *Case, o *Obs) []verdict {
	var out []verdict
	if c.Side == "client" && c.Mode == "single" {
		// every RecvMsg that returned nil handed over a message
		for i := 1; i <= len(o.Delivered); i++ {
			out = append(out, verdict{At: fmt.Sprintf("client RecvMsg #%d", i), Delivered: i})
		}
	}
	if o.FinalEOF {
		out = append(out, verdict{At: fmt.Sprintf("%s RecvMsg #%d", c.Side, len(o.Delivered)+1), Delivered: len(o.Delivered), Final: true})
	}
	return out
}

// verdictWithResponse: a case in which the single-response application has to
// be refused its success although an intact response is there to hand over:
// the reference decoder finds a decodable first data frame, and anything but
// exactly that frame followed by a complete OK trailer.
func verdictWithResponse(c *Case) (bool, string) {
	if c.Side != "client" || c.Mode != "single" {
		return false, ""
	}
	m := refModel(c.Side, c.Visible())
	if len(m.Frames) == 0 {
		return false, ""
	}
	var v wrapperspb.StringValue
	if proto.Unmarshal(m.Frames[0], &v) != nil {
		return false, ""
	}
	if m.Stop == stTrailerOK && len(m.Frames) == 1 {
		return false, ""
	}
	return true, m.Stop
}

// verdictSelfTest: the oracle judges the return that hands over the single
// response, and only for calls with a single response (fabricated
// observations; the library is not involved).
func verdictSelfTest() error {
	frame := []byte{0, 0, 0, 4, 0x0A, 2, 'a', 'b'}
	errTrailer := []byte{0xFF, 0xFF, 0xFF, 0xFE, 0x10, 0x03}
	cat := func(bs ...[]byte) []byte {
		var out []byte
		for _, b := range bs {
			out = append(out, b...)
		}
		return out
	}
	full := cat(frame, okTrailerFrame)
	obs := func(final string, eof bool, vals ...string) *Obs {
		o := &Obs{DeliveredS: []string{}, FinalErr: final, FinalEOF: eof}
		for _, v := range vals {
			o.deliver(wrapperspb.String(v))
		}
		return o
	}
	mk := func(mode string, body []byte, abrupt bool, ctx *ctxSpec) *Case {
		return &Case{Alphabet: "A2", Side: "client", Mode: mode, body: body, Abrupt: abrupt, Delivery: "whole", Ctx: ctx, FullLen: len(full)}
	}
	const failed = "rpc error: code = Internal desc = unexpected EOF"
	type tc struct {
		name   string
		c      *Case
		o      *Obs
		clause string // "" = no finding at all
	}
	cases := []tc{
		{"single: response and a complete OK trailer, response handed over", mk("single", full, false, nil), obs("EOF", true, "ab"), ""},
		{"single: the same, the application is refused", mk("single", full, false, nil), obs(failed, false), ""},
		{"single: cut at the end of the response frame, response handed over, later call fails", mk("single", full[:len(frame)], false, nil), obs(failed, false, "ab"), clauseSuccessByResponse},
		{"single: cut one byte short of the end of the trailer, abrupt", mk("single", full[:len(full)-1], true, nil), obs(failed, false, "ab"), clauseSuccessByResponse},
		{"single: cut at the end of the response frame, error", mk("single", full[:len(frame)], false, nil), obs(failed, false), ""},
		{"single: failure after the response, response handed over", mk("single", cat(frame, errTrailer), false, nil), obs("rpc error: code = InvalidArgument desc = ", false, "ab"), clauseSuccessByResponse},
		{"single: two responses and an OK trailer, the first handed over", mk("single", cat(frame, frame, okTrailerFrame), false, nil), obs(failed, false, "ab"), "lost-message-on-success"},
		{"single: the context ends before the trailer is released, response handed over", mk("single", full, false, &ctxSpec{K: 1, J: 0, Where: "inside", How: "cancel"}), obs("rpc error: code = Canceled desc = context canceled", false, "ab"), clauseSuccessByResponse},
		{"stream: cut at the end of the first frame, message handed over, then an error", mk("stream", full[:len(frame)], false, nil), obs(failed, false, "ab"), ""},
		{"stream: cut at the end of the first frame, message handed over, then a clean end", mk("stream", full[:len(frame)], false, nil), obs("EOF", true, "ab"), "reported-success"},
	}
	for _, t := range cases {
		fs := oracle(t.c, t.o)
		if t.clause == "" && len(fs) > 0 {
			return fmt.Errorf("oracle self-test (verdict): %s: unexpected finding %v", t.name, fs)
		}
		found := false
		for _, f := range fs {
			found = found || f.Clause == t.clause
		}
		if t.clause != "" && !found {
			return fmt.Errorf("oracle self-test (verdict): %s: no %s finding (%v)", t.name, t.clause, fs)
		}
	}
	if nt, _ := verdictWithResponse(mk("single", full, false, nil)); nt {
		return fmt.Errorf("oracle self-test (verdict): the complete body counts as a refusal case")
	}
	if nt, _ := verdictWithResponse(mk("single", full[:len(full)-1], false, nil)); !nt {
		return fmt.Errorf("oracle self-test (verdict): a body cut inside the trailer does not count as a refusal case")
	}
	if nt, _ := verdictWithResponse(mk("stream", full[:len(full)-1], false, nil)); nt {
		return fmt.Errorf("oracle self-test (verdict): a response stream counts as a refusal case")
	}
	return nil
}
