package main

import (
	"encoding/json"
	"fmt"
	"os"
	"runtime"
	"runtime/debug"
	"strconv"
	"strings"
	"sync/atomic"
	"syscall"
	"time"

	"verif/seq/common"
)

// A worker ("--child") runs the cases idx = shard (mod of), idx >= from, of
// the case space it rebuilds itself, under a hard address-space cap. Protocol
// on stdout, one line each, unbuffered:
//
//	S <idx>            case idx starts
//	V <idx> <json>     case idx violates (json: findings + observation)
//	K <idx>            case idx skipped: its class has killed the worker process crashLimit times already
//	F <next>           worker leaves to be restarted at next (fresh address space after a huge allocation)
//	D                  shard finished
//
// A worker that dies after "S idx" without another line died in case idx.

type childResult struct {
	Findings []Finding `json:"findings"`
	Obs      *Obs      `json:"obs"`
}

var (
	curIdx   atomic.Int64
	curStart atomic.Int64
)

// capMemory: hard cap on the address space; and no garbage collection, so
// that a huge block is never recycled: a recycled block must be zeroed, i.e.
// touched, whereas a fresh one stays virtual. The worker leaves (and is
// restarted by the parent) before the cap or the resident-set guard is near.
func capMemory() {
	debug.SetGCPercent(-1)
	lim := syscall.Rlimit{Cur: hardCapAS, Max: hardCapAS}
	if err := syscall.Setrlimit(syscall.RLIMIT_AS, &lim); err != nil {
		fmt.Fprintln(os.Stderr, "INCONCLUSIVE: cannot set RLIMIT_AS:", err)
		os.Exit(2)
	}
}

func rss() uint64 {
	b, err := os.ReadFile("/proc/self/statm")
	if err != nil {
		return 0
	}
	f := strings.Fields(string(b))
	if len(f) < 2 {
		return 0
	}
	pages, _ := strconv.ParseUint(f[1], 10, 64)
	return pages * uint64(os.Getpagesize())
}

func watchdog() {
	curIdx.Store(-1)
	go func() {
		for {
			time.Sleep(time.Second) // hang guard only; no case outcome depends on it
			if i := curIdx.Load(); i >= 0 && time.Now().Unix()-curStart.Load() > 60 {
				os.Stdout.WriteString("H " + strconv.FormatInt(i, 10) + "\n")
				os.Exit(3)
			}
		}
	}()
}

func evalCase(c *Case) childResult {
	o := runCase(c)
	return childResult{Findings: oracle(c, o), Obs: o}
}

func childMain() {
	runtime.GOMAXPROCS(1) // goroutine hand-offs without futex wake-ups, cheap stop-the-world for ReadMemStats; the cases are sequential anyway
	capMemory()
	watchdog()
	if p := common.Arg("one"); p != "" {
		var c Case
		if err := common.LoadReplay(p, &c); err != nil {
			fmt.Fprintln(os.Stderr, "cannot load replay:", err)
			os.Exit(2)
		}
		os.Stdout.WriteString("S 0\n")
		curStart.Store(time.Now().Unix())
		curIdx.Store(0)
		r := evalCase(&c)
		b, _ := json.Marshal(r)
		os.Stdout.WriteString("V 0 " + string(b) + "\n")
		os.Stdout.WriteString("D\n")
		return
	}
	shard, _ := strconv.Atoi(common.Arg("shard"))
	of, _ := strconv.Atoi(common.Arg("of"))
	from, _ := strconv.Atoi(common.Arg("from"))
	sp, err := buildSpace(common.Arg("tier"))
	if err != nil {
		fmt.Fprintln(os.Stderr, "INCONCLUSIVE:", err)
		os.Exit(2)
	}
	if h := sp.hash(); h != common.Arg("spacehash") {
		fmt.Fprintln(os.Stderr, "INCONCLUSIVE: worker rebuilt a different case space:", h)
		os.Exit(2)
	}
	if of <= 0 || from%of != shard {
		fmt.Fprintln(os.Stderr, "INCONCLUSIVE: bad shard arguments")
		os.Exit(2)
	}
	total := sp.total()
	skip := map[string]bool{}
	for _, k := range strings.Split(common.Arg("skip"), ",") {
		if k != "" {
			skip[k] = true
		}
	}
	buf := make([]byte, 0, 32)
	alloc0, n := totalAlloc(), 0
	for i := from; i < total; i += of {
		bk, bi := sp.blockOf(i)
		c := sp.blocks[bk].at(bi)
		if len(skip) > 0 && skip[crashClass(c)] {
			os.Stdout.WriteString("K " + strconv.Itoa(i) + "\n")
			continue
		}
		buf = append(buf[:0], 'S', ' ')
		buf = strconv.AppendInt(buf, int64(i), 10)
		buf = append(buf, '\n')
		os.Stdout.Write(buf)
		curStart.Store(time.Now().Unix())
		curIdx.Store(int64(i))
		r := evalCase(c)
		curIdx.Store(-1)
		if sp.blocks[bk].gcAfter {
			runtime.GC() // these leave megabytes of garbage each
		}
		if len(r.Findings) > 0 {
			b, _ := json.Marshal(r)
			os.Stdout.WriteString("V " + strconv.Itoa(i) + " " + string(b) + "\n")
		}
		if bi%(sp.blocks[bk].n/3+1) == 0 { // three evenly spaced samples of every block
			b, _ := json.Marshal(r)
			os.Stdout.WriteString("O " + strconv.Itoa(i) + " " + string(b) + "\n")
		}
		n++
		if (totalAlloc()-alloc0 > restartAt || (n%256 == 0 && rss() > rssGuard)) && i+of < total {
			os.Stdout.WriteString("F " + strconv.Itoa(i+of) + "\n")
			return
		}
	}
	os.Stdout.WriteString("D\n")
}
