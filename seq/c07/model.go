package main

import (
	"encoding/binary"
	"fmt"
	"math"
	"sort"
	"strings"

	"github.com/fullstorydev/grpchan/httpgrpc"
	"google.golang.org/protobuf/proto"
	"google.golang.org/protobuf/types/known/wrapperspb"
)

const (
	limit      = 100 << 20         // the per-message limit of the protocol implementation
	allocBound = limit + (1 << 20) // what one decode may allocate on the strength of a prefix
	restartAt  = uint64(18) << 30  // a worker that has allocated this much in total leaves and is restarted
	rssGuard   = uint64(4) << 30   // ... or whose resident set grew to this
	hardCapAS  = uint64(24) << 30  // RLIMIT_AS of a worker
	maxRecv    = 16                // RecvMsg calls per case (bodies hold <= 3 data frames)
)

// Model is what the reference decoder makes of a body: the complete data
// frames in order and the reason decoding stops.
type Model struct {
	Frames [][]byte
	Stop   string
}

// stop classes
const (
	stBoundary       = "at-frame-boundary-before-trailer" // client
	stBoundarySrv    = "at-frame-boundary"                // server
	stInPrefix       = "inside-prefix"
	stInData         = "inside-data-frame"
	stDataOver       = "data-prefix-over-limit"
	stInTrailer      = "inside-trailer-frame"
	stTrailerOver    = "trailer-prefix-over-limit"
	stTrailerMin     = "trailer-prefix-min-int32"
	stTrailerBad     = "trailer-undecodable"
	stTrailerOK      = "trailer-ok"
	stTrailerErr     = "trailer-error"
	stNegativePrefix = "negative-prefix" // server: requests carry no trailer frame
	stUnary          = "unary"
)

func refModel(side string, body []byte) Model {
	var m Model
	pos := 0
	for {
		rem := len(body) - pos
		if rem == 0 {
			if side == "client" {
				m.Stop = stBoundary
			} else {
				m.Stop = stBoundarySrv
			}
			return m
		}
		if rem < 4 {
			m.Stop = stInPrefix
			return m
		}
		p := int32(binary.BigEndian.Uint32(body[pos:]))
		rem -= 4
		if p >= 0 {
			if p > limit {
				m.Stop = stDataOver
				return m
			}
			if rem < int(p) {
				m.Stop = stInData
				return m
			}
			m.Frames = append(m.Frames, body[pos+4:pos+4+int(p)])
			pos += 4 + int(p)
			continue
		}
		if side == "server" {
			m.Stop = stNegativePrefix
			return m
		}
		if p == math.MinInt32 {
			m.Stop = stTrailerMin
			return m
		}
		n := -int64(p)
		if n > limit {
			m.Stop = stTrailerOver
			return m
		}
		if int64(rem) < n {
			m.Stop = stInTrailer
			return m
		}
		var tr httpgrpc.HttpTrailer
		if err := proto.Unmarshal(body[pos+4:pos+4+int(n)], &tr); err != nil {
			m.Stop = stTrailerBad
		} else if tr.Code == 0 {
			m.Stop = stTrailerOK
		} else {
			m.Stop = stTrailerErr
		}
		return m
	}
}

// Obs is what the real code did with a body.
type Obs struct {
	Delivered  [][]byte `json:"-"`         // deterministic encodings of the messages handed to the application
	DeliveredS []string `json:"delivered"` // their string values
	FinalErr   string   `json:"final_err"` // "" when RecvMsg never failed within maxRecv calls
	FinalEOF   bool     `json:"final_eof"`
	FinalNil   bool     `json:"final_nil"`
	Panic      string   `json:"panic,omitempty"`
	Alloc      uint64   `json:"alloc_bytes"`
	Note       string   `json:"note,omitempty"`
}

type Finding struct {
	Clause string `json:"clause"`
	Stop   string `json:"stop"`
	What   string `json:"what"`
}

// oracle compares the observation with the reference model. It demands only
// what the property states.
func oracle(c *Case, o *Obs) []Finding {
	var out []Finding
	if c.Mode == "unary" {
		return oracleUnary(c, o)
	}
	m := refModel(c.Side, c.Visible())
	add := func(clause, what string) { out = append(out, Finding{clause, m.Stop, what}) }
	if o.Panic != "" {
		add("panic", "library code panicked: "+o.Panic)
	}
	if o.Alloc > allocBound {
		add("alloc", fmt.Sprintf("decode allocated %d bytes (%.1f MiB) > %d MiB + 1 MiB; body is %d bytes long", o.Alloc, float64(o.Alloc)/(1<<20), limit>>20, len(c.Body())))
	}
	if o.Panic != "" {
		return out
	}
	// delivered messages are an intact prefix of the encoded ones
	for i, d := range o.Delivered {
		if i >= len(m.Frames) {
			add("fabricated-message", fmt.Sprintf("message #%d %q delivered but the body holds only %d complete data frame(s)", i, o.DeliveredS[i], len(m.Frames)))
			break
		}
		var ref wrapperspb.StringValue
		if err := proto.Unmarshal(m.Frames[i], &ref); err != nil {
			add("fabricated-message", fmt.Sprintf("message #%d %q delivered for an undecodable frame %s", i, o.DeliveredS[i], abbr(fmt.Sprintf("% x", m.Frames[i]))))
			break
		}
		var got wrapperspb.StringValue
		if err := proto.Unmarshal(d, &got); err != nil || !proto.Equal(&ref, &got) {
			add("altered-message", fmt.Sprintf("message #%d delivered as %q, encoded as %q (%s)", i, o.DeliveredS[i], abbr(ref.Value), firstDiff(got.Value, ref.Value)))
			break
		}
	}
	if w := misdecoded(c, o); w != "" {
		add("genuine-body-misdecoded", w)
	}
	// Dimension WHICH RETURN CARRIES THE CALL'S OUTCOME (verdict.go): every return
	// that tells the application "the call succeeded" is judged, not only the
	// error that ends a receive loop.
	lost := false
	for _, v := range successVerdicts(c, o) {
		if v.Final {
			continue // io.EOF from the last RecvMsg: judged below
		}
		switch {
		case m.Stop != stTrailerOK:
			add(clauseSuccessByResponse, fmt.Sprintf("%s returned nil, handing over the single response %q: for a call with a single response that is the report of a successful call (a generated CloseAndRecv / a unary method invoked through NewStream makes no other call), but the response %s (%s ending)", v.At, o.DeliveredS[v.Delivered-1], describeStop(m.Stop), c.ending()))
		case len(m.Frames) != v.Delivered && !lost:
			lost = true
			add("lost-message-on-success", fmt.Sprintf("%s reported success with %d of %d messages", v.At, v.Delivered, len(m.Frames)))
		}
	}
	if o.FinalNil {
		add("no-terminal-error", fmt.Sprintf("%d RecvMsg calls, none failed", maxRecv))
		return out
	}
	if !o.FinalEOF {
		return out // an error was reported: always acceptable
	}
	// the stream was reported as complete and successful (io.EOF)
	if c.Side == "client" {
		if m.Stop != stTrailerOK {
			add("reported-success", fmt.Sprintf("client RecvMsg ended with io.EOF (call looks successful) after %d message(s), but the response %s (%s ending)", len(o.Delivered), describeStop(m.Stop), c.ending()))
		} else if len(o.Delivered) != len(m.Frames) && !lost {
			add("lost-message-on-success", fmt.Sprintf("success with %d of %d messages", len(o.Delivered), len(m.Frames)))
		}
		return out
	}
	// server: io.EOF = "client finished sending"
	switch m.Stop {
	case stInPrefix, stInData, stDataOver:
		add("reported-success", fmt.Sprintf("server RecvMsg ended with io.EOF (request looks complete) after %d message(s), but the request %s (%s ending)", len(o.Delivered), describeStop(m.Stop), c.ending()))
	case stBoundarySrv:
		if !c.Abrupt && declaredConsistent(c) && len(o.Delivered) != len(m.Frames) {
			add("lost-message-on-success", fmt.Sprintf("clean end of request with %d of %d messages delivered", len(o.Delivered), len(m.Frames)))
		}
	}
	return out
}

func describeStop(s string) string {
	switch s {
	case stBoundary:
		return "ends at a frame boundary before any trailer frame"
	case stInPrefix:
		return "ends inside a 4-byte size prefix"
	case stInData:
		return "ends inside a data frame"
	case stDataOver:
		return "announces a data frame beyond the limit"
	case stInTrailer:
		return "ends inside the trailer frame"
	case stTrailerOver, stTrailerMin:
		return "announces a trailer frame beyond the limit"
	case stTrailerBad:
		return "has an undecodable trailer frame"
	case stTrailerErr:
		return "has a trailer frame with a non-OK code"
	}
	return s
}

// Unary bodies are not framed; only: no panic, bounded allocation, and a body
// read that fails (abrupt ending) must not look like a delivered message.
func oracleUnary(c *Case, o *Obs) []Finding {
	var out []Finding
	add := func(clause, what string) { out = append(out, Finding{clause, stUnary, what}) }
	if o.Panic != "" {
		add("panic", "library code panicked: "+o.Panic)
		return out
	}
	if o.Alloc > allocBound {
		add("alloc", fmt.Sprintf("decode allocated %d bytes", o.Alloc))
	}
	if c.Abrupt && len(o.Delivered) > 0 {
		add("fabricated-message", fmt.Sprintf("body read failed with io.ErrUnexpectedEOF after %d of %d bytes, yet message %q was delivered", len(c.Body()), c.FullLen, o.DeliveredS[0]))
	}
	if w := misdecoded(c, o); w != "" {
		add("genuine-body-misdecoded", w)
	}
	// an unframed body that ends cleanly and whose declared length, if any, is
	// its length is the encoding of one message: a message that is delivered
	// must be that one, whatever the destination object held before
	if len(o.Delivered) > 0 && !c.Abrupt && declaredConsistent(c) {
		var ref, got wrapperspb.StringValue
		if err := proto.Unmarshal(c.Body(), &ref); err != nil {
			add("fabricated-message", fmt.Sprintf("message %q delivered for an undecodable body", o.DeliveredS[0]))
		} else if err := proto.Unmarshal(o.Delivered[0], &got); err != nil || !proto.Equal(&ref, &got) {
			add("altered-message", fmt.Sprintf("message delivered as %q, encoded as %q (%s)", o.DeliveredS[0], abbr(ref.Value), firstDiff(got.Value, ref.Value)))
		}
	}
	return out
}

// declaredConsistent: the declared length of the body, if any, is its length.
func declaredConsistent(c *Case) bool {
	return c.CL == nil || *c.CL < 0 || *c.CL == int64(len(c.Body()))
}

// misdecoded: a complete body that the real encoder produced, ending cleanly
// and carried by a message that declares its true length or none, is an
// encoding of a message sequence; the decoder must yield exactly the messages
// that were encoded and the outcome that was encoded, however the bytes are cut
// into reads (the genuine run, which saw the same bytes, is the reference).
func misdecoded(c *Case, o *Obs) string {
	e := c.Expect
	if e == nil || c.Abrupt || !declaredConsistent(c) || o.Panic != "" {
		return ""
	}
	same := len(o.DeliveredS) == len(e.Msgs) && o.FinalEOF == e.FinalEOF && o.FinalErr == e.Final
	for i := 0; same && i < len(e.Msgs); i++ {
		same = o.DeliveredS[i] == e.Msgs[i]
	}
	if same {
		return ""
	}
	return fmt.Sprintf("the complete genuine body, delivered %s, decodes to %q / final %q; the genuine run delivered %q / final %q", deliveryText(c), o.DeliveredS, o.FinalErr, e.Msgs, e.Final)
}

func deliveryText(c *Case) string {
	switch c.Delivery {
	case "split":
		return fmt.Sprintf("with read boundaries at %v (%s)", c.Splits, deliveryClass(c))
	case "bytewise":
		return "one byte per read"
	case "with-err":
		return "with the ending reported together with the last bytes"
	}
	return "in one piece"
}

// splitClass names where a read boundary at offset k (0 < k < len(body)) falls
// in the frame structure the reference decoder sees.
func splitClass(body []byte, k int) string {
	pos := 0
	for pos < len(body) {
		if k <= pos {
			break
		}
		if k < pos+4 {
			return fmt.Sprintf("in-preface+%d", k-pos)
		}
		if len(body)-pos < 4 {
			break
		}
		p := int32(binary.BigEndian.Uint32(body[pos:]))
		n := int64(p)
		if n < 0 {
			n = -n
		}
		if n > limit {
			return "after-refused-preface"
		}
		end := pos + 4 + int(n)
		switch {
		case k == pos+4 && n > 0:
			return "after-preface"
		case k < end:
			return "in-payload"
		case k == end && p >= 0:
			return "frame-boundary"
		}
		if p < 0 { // a trailer frame (client) / a refused frame (server) ends the decoding
			return "after-last-frame"
		}
		pos = end
	}
	return "outside-body"
}

// deliveryClass is the part of a fingerprint that says how the body was cut
// into reads, by the place of the read boundaries in the frame structure and
// not by their offsets.
func deliveryClass(c *Case) string {
	if c.Delivery != "split" {
		return c.Delivery
	}
	if c.Mode == "unary" {
		return "split"
	}
	seen := map[string]bool{}
	var names []string
	for _, k := range c.Splits {
		n := "outside-body"
		if k > 0 && k < len(c.Body()) {
			n = splitClass(c.Body(), k)
		}
		if !seen[n] {
			seen[n] = true
			names = append(names, n)
		}
	}
	sort.Strings(names)
	return "split:" + strings.Join(names, ",")
}

// fragmentedInside: some read boundary falls inside a frame (a size preface or
// a payload the decoder has to reassemble).
func fragmentedInside(c *Case) bool {
	switch c.Delivery {
	case "bytewise":
		return len(c.Body()) >= 2
	case "split":
		if c.Mode == "unary" {
			return false
		}
		for _, k := range c.Splits {
			if k > 0 && k < len(c.Body()) {
				if cl := splitClass(c.Body(), k); strings.HasPrefix(cl, "in-") || cl == "after-preface" {
					return true
				}
			}
		}
	}
	return false
}

// nontrivial: the decoder has to take a decision the property is about (a
// size prefix to validate, an EOF to classify, a cut to detect).
func nontrivial(c *Case) (bool, string) {
	if c.Dest != "" {
		// a case of the destination dimension counts when a message is decoded
		// into a destination that is not zero
		stop := stUnary
		if c.Mode != "unary" {
			stop = refModel(c.Side, c.Body()).Stop
		}
		return destNontrivial(c), "dest:" + stop
	}
	if c.Mode == "unary" {
		return c.Abrupt || len(c.Body()) < c.FullLen, stUnary
	}
	m := refModel(c.Side, c.Visible())
	if c.Ctx != nil {
		return ctxNontrivial(c), "ctx:" + m.Stop
	}
	switch m.Stop {
	case stTrailerOK, stTrailerErr:
		return fragmentedInside(c), m.Stop
	case stBoundarySrv:
		return c.Abrupt || fragmentedInside(c), m.Stop
	}
	return true, m.Stop
}
