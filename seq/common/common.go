// Package common holds small helpers shared by the E2 (seqmc) checks.
package common

import (
	"bytes"
	"context"
	"encoding/json"
	"io"
	"net/http"
	"net/http/httptest"
	"os"
	"strings"

	"google.golang.org/grpc"
)

// Arg returns the value of --name <v> or --name=<v> on the command line.
func Arg(name string) string {
	for i, a := range os.Args {
		if a == "--"+name && i+1 < len(os.Args) {
			return os.Args[i+1]
		}
		if strings.HasPrefix(a, "--"+name+"=") {
			return strings.TrimPrefix(a, "--"+name+"=")
		}
	}
	return ""
}

// RepoDir is the repository tree under check.
func RepoDir() string {
	if d := os.Getenv("VERIF_REPO"); d != "" {
		return d
	}
	return "/repo"
}

// LoadReplay reads the "replay" object of a replay file into v.
func LoadReplay(path string, v interface{}) error {
	b, err := os.ReadFile(path)
	if err != nil {
		return err
	}
	var f struct {
		Replay json.RawMessage `json:"replay"`
	}
	if err := json.Unmarshal(b, &f); err != nil {
		return err
	}
	return json.Unmarshal(f.Replay, v)
}

// RT adapts a function to http.RoundTripper.
type RT func(*http.Request) (*http.Response, error)

func (f RT) RoundTrip(r *http.Request) (*http.Response, error) { return f(r) }

// HandlerRT serves each request by calling h on an httptest recorder, with no
// network in between. The response is complete when RoundTrip returns.
func HandlerRT(h http.Handler) http.RoundTripper {
	return RT(func(r *http.Request) (*http.Response, error) {
		rec := httptest.NewRecorder()
		r2 := r.Clone(r.Context())
		if r2.Body == nil {
			r2.Body = io.NopCloser(bytes.NewReader(nil))
		}
		r2.RemoteAddr = "192.0.2.1:1234"
		r2.RequestURI = r2.URL.RequestURI()
		h.ServeHTTP(rec, r2)
		resp := rec.Result()
		resp.Request = r
		return resp, nil
	})
}

// CannedRT answers every request with the given status, headers and body.
func CannedRT(code int, hdr http.Header, body []byte) http.RoundTripper {
	return RT(func(r *http.Request) (*http.Response, error) {
		if r.Body != nil {
			io.Copy(io.Discard, r.Body)
			r.Body.Close()
		}
		h := http.Header{}
		for k, v := range hdr {
			h[k] = append([]string(nil), v...)
		}
		return &http.Response{StatusCode: code, Status: http.StatusText(code), Proto: "HTTP/1.1", ProtoMajor: 1, ProtoMinor: 1,
			Header: h, Body: io.NopCloser(bytes.NewReader(body)), Request: r}, nil
	})
}

// UnaryFn is the application part of a unary handler.
type UnaryFn func(ctx context.Context, dec func(interface{}) error) (interface{}, error)

// StreamFn is the application part of a streaming handler.
type StreamFn func(stream grpc.ServerStream) error

// Svc describes a hand-written service: no generated code needed.
type Svc struct {
	Name    string
	Unary   map[string]UnaryFn
	Streams map[string]StreamDef
	Order   []string // optional explicit method order
}

type StreamDef struct {
	Fn            StreamFn
	ClientStreams bool
	ServerStreams bool
}

type anyIface interface{}

// Desc builds the grpc.ServiceDesc; the unary handlers honour the interceptor argument.
func (s *Svc) Desc() *grpc.ServiceDesc {
	d := &grpc.ServiceDesc{ServiceName: s.Name, HandlerType: (*anyIface)(nil), Metadata: s.Name + ".proto"}
	names := s.Order
	if names == nil {
		for n := range s.Unary {
			names = append(names, n)
		}
		for n := range s.Streams {
			names = append(names, n)
		}
		sortStrings(names)
	}
	for _, n := range names {
		n := n
		if fn, ok := s.Unary[n]; ok {
			d.Methods = append(d.Methods, grpc.MethodDesc{MethodName: n, Handler: func(srv interface{}, ctx context.Context, dec func(interface{}) error, ic grpc.UnaryServerInterceptor) (interface{}, error) {
				if ic == nil {
					return fn(ctx, dec)
				}
				// like generated code: decode first, then run the interceptor chain
				var reqHolder interface{} = dec
				info := &grpc.UnaryServerInfo{Server: srv, FullMethod: "/" + s.Name + "/" + n}
				return ic(ctx, reqHolder, info, func(ctx context.Context, req interface{}) (interface{}, error) { return fn(ctx, dec) })
			}})
		} else if sd, ok := s.Streams[n]; ok {
			d.Streams = append(d.Streams, grpc.StreamDesc{StreamName: n, ClientStreams: sd.ClientStreams, ServerStreams: sd.ServerStreams,
				Handler: func(srv interface{}, stream grpc.ServerStream) error { return sd.Fn(stream) }})
		}
	}
	return d
}

func sortStrings(a []string) {
	for i := 1; i < len(a); i++ {
		for j := i; j > 0 && a[j] < a[j-1]; j-- {
			a[j], a[j-1] = a[j-1], a[j]
		}
	}
}

// Impl is a value that satisfies every HandlerType built by Desc.
type Impl struct{}
