package main

import (
	"context"
	"fmt"
	"net"
	"os"
	"runtime"
	"sort"
	"strings"
	"sync"
	"time"

	"google.golang.org/grpc"
	"google.golang.org/grpc/credentials/insecure"
	"google.golang.org/grpc/metadata"
	"google.golang.org/grpc/test/bufconn"
	"google.golang.org/protobuf/types/known/wrapperspb"

	"github.com/fullstorydev/grpchan/inprocgrpc"

	"verif/seq/common"
	"verif/vlib"
)

// runCase runs one case on a fresh in-process channel.
func runCase(c kase) *runState {
	st := newState(c, false)
	e := &env{cur: st}
	ch := &inprocgrpc.Channel{}
	if c.IC {
		ch.WithServerUnaryInterceptor(e.unaryIC).WithServerStreamInterceptor(e.streamIC)
	}
	ch.RegisterService(e.service().Desc(), common.Impl{})
	st.innerCC = ch

	func() {
		defer func() {
			if r := recover(); r != nil {
				st.add("panic", "caller", "", fmt.Sprintf("library panicked on the calling goroutine: %v", r))
			}
		}()
		switch c.Base {
		case "background":
			st.drive(ch, context.Background())
		case "in-unary-handler", "in-stream-handler":
			// the call under test is issued from inside another in-process handler,
			// on top of that handler's context
			outer := context.WithValue(context.Background(), outerMarkerKey{}, st.outerMarker)
			outer = metadata.AppendToOutgoingContext(outer, "outer-key", "o")
			done := make(chan struct{})
			var err error
			go func() {
				defer close(done)
				if c.Base == "in-unary-handler" {
					var out wrapperspb.StringValue
					err = ch.Invoke(outer, "/c10.S/OuterU", wrapperspb.String("outer"), &out)
					return
				}
				var cs grpc.ClientStream
				cs, err = ch.NewStream(outer, &grpc.StreamDesc{StreamName: "OuterSt", ClientStreams: true, ServerStreams: true}, "/c10.S/OuterSt")
				if err != nil {
					return
				}
				_ = cs.CloseSend()
				var out wrapperspb.StringValue
				if e := cs.RecvMsg(&out); e != nil && e.Error() != "EOF" {
					err = e
				}
			}()
			// the guarded waits inside drive, plus slack
			ok := waitFor(done, 8*guard+endBound+graceAfter)
			if !ok {
				st.fail("hang: outer call did not return")
			} else if err != nil {
				st.fail(fmt.Sprintf("outer call failed: %v", err))
			}
		default:
			st.fail("unknown base " + c.Base)
		}
	}()
	st.mu.Lock()
	defer st.mu.Unlock()
	if st.internal == "" && st.phases == 0 {
		st.internal = "the handler never ran"
	}
	if st.internal == "" && c.IC && !st.icRan {
		st.internal = "the interceptor never ran"
	}
	if st.internal == "" && st.creds != nil && st.creds.calls == 0 {
		st.internal = "the per-RPC credentials were never asked for metadata"
	}
	return st
}

// ------------------------------------------------------------ reference: real grpc-go over bufconn

type refServer struct {
	e   *env
	cc  *grpc.ClientConn
	srv *grpc.Server
}

func newRefServer(ic bool) (*refServer, error) {
	e := &env{}
	var opts []grpc.ServerOption
	if ic {
		opts = append(opts, grpc.UnaryInterceptor(e.unaryIC), grpc.StreamInterceptor(e.streamIC))
	}
	srv := grpc.NewServer(opts...)
	srv.RegisterService(e.service().Desc(), common.Impl{})
	lis := bufconn.Listen(1 << 20)
	go srv.Serve(lis)
	cc, err := grpc.Dial("passthrough:///bufnet", grpc.WithContextDialer(func(ctx context.Context, _ string) (net.Conn, error) { return lis.DialContext(ctx) }),
		grpc.WithTransportCredentials(insecure.NewCredentials()))
	if err != nil {
		return nil, err
	}
	return &refServer{e: e, cc: cc, srv: srv}, nil
}

func (r *refServer) run(c kase) *runState {
	var st *runState
	// a call with a short deadline may, on a busy machine, not reach the server in
	// time: that says nothing, try again
	for attempt := 0; attempt < 4; attempt++ {
		st = newState(c, true)
		r.e.cur = st
		st.drive(r.cc, context.Background())
		if st.internal == "" && st.phases == 0 {
			st.fail("the handler never ran")
		}
		if st.internal == "" || c.end() != "deadline" {
			break
		}
	}
	return st
}

// ------------------------------------------------------------ grammar

func popcount(x int) int {
	n := 0
	for ; x != 0; x &= x - 1 {
		n++
	}
	return n
}

type timing struct {
	deadline bool
	end      string
}

// contextGrammar: the nine layers fully crossed with everything that does not
// need real time to pass.
func contextGrammar(bases []string) []kase {
	var out []kase
	for _, base := range bases {
		for _, ic := range []bool{false, true} {
			for _, kind := range []string{"unary", "stream"} {
				for _, tm := range []timing{{false, ""}, {true, ""}, {false, "return"}, {true, "return"}} {
					for _, creds := range []string{"", "std"} {
						for layers := 0; layers < 1<<len(layerNames); layers++ {
							for _, order := range []string{"up", "down"} {
								out = append(out, kase{Base: base, Layers: layers, Order: order, Deadline: tm.deadline, Kind: kind, IC: ic, End: tm.end, Creds: creds})
							}
						}
					}
				}
			}
		}
	}
	// simplest first: fewer layers before more
	sort.SliceStable(out, func(i, j int) bool { return popcount(out[i].Layers) < popcount(out[j].Layers) })
	return out
}

// deadlineGrammar: the caller's deadline passes while the handler runs. Every
// case costs real time (the deadline has to pass), so the quick tier sweeps the
// layer sets {none, each single layer, all nine} and the thorough tier takes all.
func deadlineGrammar(bases []string, allLayers bool) []kase {
	var sets []int
	if allLayers {
		for l := 0; l < 1<<len(layerNames); l++ {
			sets = append(sets, l)
		}
	} else {
		sets = append(sets, 0)
		for i := range layerNames {
			sets = append(sets, 1<<i)
		}
		sets = append(sets, 1<<len(layerNames)-1)
	}
	var out []kase
	for _, base := range bases {
		for _, ic := range []bool{false, true} {
			for _, kind := range []string{"unary", "stream"} {
				for _, creds := range []string{"", "std"} {
					for _, layers := range sets {
						for _, order := range []string{"up", "down"} {
							out = append(out, kase{Base: base, Layers: layers, Order: order, Deadline: true, Kind: kind, IC: ic, End: "deadline", Creds: creds})
						}
					}
				}
			}
		}
	}
	sort.SliceStable(out, func(i, j int) bool { return popcount(out[i].Layers) < popcount(out[j].Layers) })
	return out
}

// mdGrammar: every triple (keys given to NewOutgoingContext, keys appended,
// keys returned by the credentials or no credentials option at all) over the
// three-key alphabet, both spellings, both stacking orders, swept around every
// base case (base context, kind, interceptors, other layers none / all seven).
func mdGrammar(bases []string) []kase {
	others := []int{0, (1<<len(layerNames) - 1) &^ (bitOutgoingMD | bitOutgoingApp)}
	n := 1 << len(mdAlphabet)
	var out []kase
	for _, base := range bases {
		for _, ic := range []bool{false, true} {
			for _, kind := range []string{"unary", "stream"} {
				for _, other := range others {
					for nw := 0; nw < n; nw++ {
						for ap := 0; ap < n; ap++ {
							for cr := -1; cr < n; cr++ {
								for _, sp := range []string{"lower", "mixed"} {
									if sp == "mixed" && nw == 0 && ap == 0 && cr <= 0 {
										continue // no key at all: nothing to spell
									}
									for _, order := range []string{"up", "down"} {
										c := kase{Base: base, Layers: other, Order: order, Kind: kind, IC: ic, Part: "md", MDNew: subsetName(nw), MDApp: subsetName(ap), Spelling: sp}
										if nw != 0 {
											c.Layers |= bitOutgoingMD
										}
										if ap != 0 {
											c.Layers |= bitOutgoingApp
										}
										switch {
										case cr == 0:
											c.Creds = "empty"
										case cr > 0:
											c.Creds = subsetName(cr)
										}
										out = append(out, c)
									}
								}
							}
						}
					}
				}
			}
		}
	}
	sort.SliceStable(out, func(i, j int) bool { return mdSize(out[i]) < mdSize(out[j]) })
	return out
}

func mdSize(c kase) int {
	n := popcount(c.Layers)
	for _, s := range []string{c.MDNew, c.MDApp, c.Creds} {
		if s != "" && s != "empty" {
			n += strings.Count(s, "+") + 1
		}
	}
	if c.Spelling == "mixed" {
		n++
	}
	return n
}

// ------------------------------------------------------------ running and grouping

// outcome is what is kept of one case.
type outcome struct {
	c                  kase
	findings           []finding
	internal           string
	phases             int
	late               int
	earlyLive, shared  bool
	cut, skipped       bool
	wantIn, credsWant  string
	credsCalls, layers int
}

func summarize(c kase, st *runState) outcome {
	o := outcome{c: c, findings: st.findings, internal: st.internal, phases: st.phases, late: st.lateLookups, earlyLive: st.earlyLive, shared: st.sharedSeen, cut: st.cut,
		wantIn: mdString(st.wantIncoming)}
	if st.creds != nil {
		o.credsWant = mdString(st.credsWant)
		o.credsCalls = st.creds.calls
	}
	return o
}

// runAll runs the cases on `workers` goroutines (every case has its own channel
// and its own state; the verdicts do not depend on the number of workers) and
// returns the outcomes in the order of the cases. After the first case that
// could not be decided no further case is started (the run ends INCONCLUSIVE).
func runAll(cases []kase, workers int) []outcome {
	out := make([]outcome, len(cases))
	var wg sync.WaitGroup
	next := make(chan int, 256)
	for w := 0; w < workers; w++ {
		wg.Add(1)
		go func() {
			defer wg.Done()
			for i := range next {
				if aborted.Load() {
					// a case could not be decided (INCONCLUSIVE): nothing more is started
					out[i] = outcome{c: cases[i], skipped: true}
					continue
				}
				out[i] = summarize(cases[i], runCase(cases[i]))
				if out[i].internal != "" {
					aborted.Store(true)
				}
			}
		}()
	}
	for i := range cases {
		next <- i
	}
	close(next)
	wg.Wait()
	return out
}

// A clause that fails is reported once per (clause, RPC kind): the unary and the
// streaming path build the handler context separately. The scope part says
// where it shows: "handler" (the usual case; the interceptor, whose context the
// handler's derives from, is then not reported separately), "interceptor-only",
// "caller"; base "any" when it already fails for a call made from a plain
// context, "nested-only" when it needs a call made from inside another handler;
// and, when the clause holds at handler entry and only fails later in the life
// of the call, "when=" the earliest instant at which it was seen to fail.
type group struct {
	first  kase
	detail string
	n      int
	wheres map[string]bool
	plain  bool
	rank   int
}

func groupKey(c kase, f finding) string {
	if f.Shape != "" && f.Shape != "ordinary" {
		return family(f.Clause) + ":key-shape=" + f.Shape + "|kind=" + c.Kind
	}
	return f.Clause + "|kind=" + c.Kind
}

// family of a clause: its name without sub-clause.
func family(clause string) string {
	if i := strings.Index(clause, ":"); i >= 0 {
		return clause[:i]
	}
	return clause
}

// A clause that fails on a key of the key-alphabet part is reported under the
// shape of that key (the parameter that matters there), unless the same family
// of clauses already fails, for the same RPC kind, on ordinary keys: then the
// shape of the key is not what matters and the case adds nothing.
func generalFailures(outs []outcome) map[string]bool {
	g := map[string]bool{}
	for _, o := range outs {
		for _, f := range o.findings {
			if f.Shape == "" || f.Shape == "ordinary" {
				g[family(f.Clause)+"|kind="+o.c.Kind] = true
			}
		}
	}
	return g
}

func (g *group) fingerprint(key string) string {
	where := "handler"
	switch {
	case g.wheres["handler"]:
	case g.wheres["interceptor"]:
		where = "interceptor-only"
	default:
		where = "caller"
	}
	base := "nested-only"
	if g.plain {
		base = "any"
	}
	// clauses that are about one instant by definition (aliasing is probed while
	// parked, cancellation after the cancel) carry no instant
	clause := key[:strings.Index(key, "|")]
	if g.rank > 0 && g.rank < len(instants) && !strings.HasPrefix(clause, "md-aliasing") && !strings.HasPrefix(clause, "cancel-") {
		key += "|when=" + instants[g.rank]
	}
	return fmt.Sprintf("C10|%s|where=%s|base=%s", key, where, base)
}

// reporter is set once main has one: violations that were reported before the
// check found that it cannot decide the rest stand (exit 1).
var reporter *vlib.Reporter

func inconclusive(msg string) {
	fmt.Fprintln(os.Stderr, "INCONCLUSIVE:", msg)
	if reporter != nil && reporter.Violations > 0 {
		fmt.Fprintf(os.Stderr, "(the %d violation(s) reported above stand; the rest of the grammar was not decided)\n", reporter.Violations)
		os.Exit(1)
	}
	os.Exit(2)
}

// selfTest: the metadata comparison must tell the ways in which credentials and
// caller metadata can be combined wrongly.
func selfTest() string {
	ca := metadata.MD{"k": {"a1", "a2"}, "only": {"o"}}
	cr := metadata.MD{"k": {"c"}, "cr-only": {"x"}}
	for _, t := range []struct {
		got  metadata.MD
		want string
	}{
		{metadata.MD{"k": {"a1", "a2", "c"}, "only": {"o"}, "cr-only": {"x"}}, ""},
		{metadata.MD{"k": {"c", "a1", "a2"}, "only": {"o"}, "cr-only": {"x"}, "user-agent": {"grpc"}}, ""},
		{metadata.MD{"k": {"c"}, "only": {"o"}, "cr-only": {"x"}}, "caller-values-lost-on-credentials-key"},
		{metadata.MD{"k": {"a2", "a1", "c"}, "only": {"o"}, "cr-only": {"x"}}, "caller-values-lost-on-credentials-key"},
		{metadata.MD{"k": {"a1", "a2"}, "only": {"o"}, "cr-only": {"x"}}, "credentials-values-lost"},
		{metadata.MD{"k": {"a1", "a2", "c"}, "only": {"o"}}, "credentials-values-lost"},
		{metadata.MD{"k": {"a1", "a2", "c", "c"}, "only": {"o"}, "cr-only": {"x"}}, "extra-values"},
		{metadata.MD{"k": {"a1", "a2", "c"}, "only": {"o", "o"}, "cr-only": {"x"}}, "mismatch"},
		{metadata.MD{"k": {"a1", "a2", "c"}, "cr-only": {"x"}}, "mismatch"},
	} {
		if got := carried(t.got, ca, cr); got != t.want {
			return fmt.Sprintf("self-test of the metadata oracle: carried(%s) = %q, want %q", mdString(t.got), got, t.want)
		}
	}
	// keys the standard transport withholds are left out, every other key is not,
	// and the failing key is named
	ca = metadata.MD{"te": {"x"}, "grpc-trace-bin": {"t"}, "ka": {"a"}}
	for _, t := range []struct {
		got       metadata.MD
		want, key string
	}{
		{metadata.MD{"grpc-trace-bin": {"t"}, "ka": {"a"}}, "", ""},
		{metadata.MD{"te": {"x"}, "grpc-trace-bin": {"t"}, "ka": {"a"}}, "", ""},
		{metadata.MD{"te": {"x"}, "ka": {"a"}}, "mismatch", "grpc-trace-bin"},
		{metadata.MD{"grpc-trace-bin": {"t"}}, "mismatch", "ka"},
	} {
		if got, key := carriedKey(t.got, ca, nil, withheldKey); got != t.want || key != t.key {
			return fmt.Sprintf("self-test of the metadata oracle: carriedKey(%s) = %q on %q, want %q on %q", mdString(t.got), got, key, t.want, t.key)
		}
	}
	if got, _ := carriedKey(metadata.MD{"grpc-trace-bin": {"t"}, "ka": {"a"}}, ca, nil, nil); got != "mismatch" {
		return "self-test of the metadata oracle: without the table of withheld keys a missing te must be a mismatch"
	}
	if k := firstDiffKey(metadata.MD{"a": {"1"}, "c": {"3"}}, metadata.MD{"a": {"1"}, "b": {"2"}, "c": {"4"}}); k != "b" {
		return "self-test: firstDiffKey = " + k
	}
	seen := map[string]bool{}
	for _, k := range keyAlphabet {
		if seen[k.Name] || k.Name != strings.ToLower(k.Name) || k.Name == "ka" {
			return "self-test: key alphabet entry " + k.Name
		}
		seen[k.Name] = true
		for _, src := range []string{"new", "app", "creds"} {
			if sp := spell(k.Name, src, true); sp == k.Name || strings.ToLower(sp) != k.Name {
				return fmt.Sprintf("self-test: mixed spelling of %q by %s is %q", k.Name, src, sp)
			}
		}
	}
	if keyShape("grpc-tags-bin") != "grpc-prefix-bin" || keyShape("ka") != "ordinary" || !withheldKey(":path") || withheldKey("grpc-") {
		return "self-test: key shapes"
	}
	// every kind of change the pinned part makes to the caller's MD changes what
	// the MD's context shows, so that a late read cannot go unnoticed
	for _, how := range reuseMutations {
		id := make([]string, 1, 8)
		id[0] = "id-0"
		md := metadata.MD{"call-id": id, "doomed-1": {"d"}}
		ctx := metadata.NewOutgoingContext(context.Background(), md)
		before, _ := metadata.FromOutgoingContext(ctx)
		mutate(md, how, 1)
		after, _ := metadata.FromOutgoingContext(ctx)
		if mdEqual(ours(before), ours(after)) {
			return "self-test: the change " + how + " of the caller's MD does not show"
		}
	}
	return ""
}

func main() {
	for _, a := range os.Args[1:] {
		if a == pinnedFlag {
			pinnedChildMain()
		}
	}
	rep := vlib.NewReporter("C10")
	reporter = rep
	thorough := rep.Tier == "thorough"

	if msg := selfTest(); msg != "" {
		inconclusive(msg)
	}

	if p := common.Arg("replay"); p != "" {
		var sniff struct {
			Part string `json:"part"`
		}
		_ = common.LoadReplay(p, &sniff)
		if sniff.Part == "reuse" {
			replayReuse(p)
		}
		if sniff.Part == "cancel" {
			replayCancel(p)
		}
		if sniff.Part == "callopts" {
			replayOpts(p)
		}
		measureControl()
		var c kase
		if err := common.LoadReplay(p, &c); err != nil || c.Kind == "" {
			inconclusive(fmt.Sprintf("cannot load replay: %v", err))
		}
		st := runCase(c)
		if st.internal != "" {
			inconclusive(st.internal)
		}
		fmt.Printf("replay: %s: handler phases completed %d/4, %d clause(s) violated (bound on the wait for the end of the handler's context: %v)\n", c, st.phases, len(st.findings), endBound)
		for _, f := range st.findings {
			fmt.Printf("  %s (%s, %s): %s\n", f.Clause, f.Where, f.When, f.Detail)
		}
		if len(st.findings) > 0 {
			fmt.Printf("VIOLATION property=C10 replay=%s\n", p)
			os.Exit(1)
		}
		os.Exit(0)
	}

	allBases := []string{"background", "in-unary-handler", "in-stream-handler"}
	workers := runtime.NumCPU()
	if workers > 16 {
		workers = 16
	}
	if workers < 2 {
		workers = 2
	}

	// how long a context that must end is waited for, from a control measurement on this machine
	measureControl()

	// the oracle against the standard transport (thorough only): must agree everywhere
	refRuns := 0
	if thorough {
		var refCases []kase
		refCases = append(refCases, contextGrammar([]string{"background"})...)
		refCases = append(refCases, deadlineGrammar([]string{"background"}, false)...)
		refCases = append(refCases, mdGrammar([]string{"background"})...)
		refCases = append(refCases, keysGrammar([]string{"background"})...)
		var mu sync.Mutex
		var problem string
		var wg sync.WaitGroup
		for _, ic := range []bool{false, true} {
			ic := ic
			wg.Add(1)
			go func() {
				defer wg.Done()
				r, err := newRefServer(ic)
				if err != nil {
					mu.Lock()
					problem = "bufconn reference: " + err.Error()
					mu.Unlock()
					return
				}
				defer r.srv.Stop()
				defer r.cc.Close()
				for _, c := range refCases {
					if c.IC != ic {
						continue
					}
					st := r.run(c)
					mu.Lock()
					refRuns++
					if problem == "" {
						if st.internal != "" {
							problem = "bufconn reference, " + c.String() + ": " + st.internal
						} else if len(st.findings) > 0 {
							f := st.findings[0]
							problem = fmt.Sprintf("the oracle disagrees with grpc-go over bufconn on %s: %s (%s, %s): %s", c, f.Clause, f.Where, f.When, f.Detail)
						}
					}
					stop := problem != ""
					mu.Unlock()
					if stop {
						return
					}
				}
			}()
		}
		wg.Wait()
		if problem != "" {
			inconclusive(problem)
		}
		// the pinned part over the standard transport
		routs, crash, _, err := runPinned(reuseGrammar(), true)
		if err != nil || crash != "" {
			inconclusive(fmt.Sprintf("bufconn reference of the pinned part: %v %s", err, crash))
		}
		for _, o := range routs {
			for _, r := range o.Runs {
				refRuns++
				c := reuseGrammar()[o.Index]
				if r.Internal != "" {
					inconclusive("bufconn reference, " + c.String() + ": " + r.Internal)
				}
				if len(r.Findings) > 0 {
					f := r.Findings[0]
					inconclusive(fmt.Sprintf("the oracle disagrees with grpc-go over bufconn on %s: %s (%s, %s): %s", c, f.Clause, f.Where, f.When, f.Detail))
				}
			}
		}
	}

	// the cancel part (cancel.go): first over the standard transport (thorough), then in-process
	cancelRefRuns := 0
	if thorough {
		refs := map[bool]*cancelRef{}
		for _, ic := range []bool{false, true} {
			r, err := newCancelRef(ic)
			if err != nil {
				inconclusive("bufconn reference: " + err.Error())
			}
			refs[ic] = r
		}
		for _, o := range runCancelPart(cancelGrammar([]string{"background"}), workers, refs) {
			if o.skipped {
				continue
			}
			cancelRefRuns++
			if o.internal != "" {
				inconclusive("bufconn reference, " + o.c.String() + ": " + o.internal)
			}
			if len(o.findings) > 0 {
				f := o.findings[0]
				inconclusive(fmt.Sprintf("the oracle disagrees with grpc-go over bufconn on %s: %s (%s, %s): %s", o.c, f.Clause, f.Where, f.When, f.Detail))
			}
		}
		for _, r := range refs {
			r.cc.Close()
			r.srv.Stop()
		}
		refRuns += cancelRefRuns
	}
	cancelCases := cancelGrammar(allBases)
	cancelOuts := runCancelPart(cancelCases, workers, nil)
	cgroups, corder := groupCancel(cancelOuts)
	for _, k := range corder {
		g := cgroups[k]
		fp, matters := cancelFingerprint(g, cancelCases)
		scope := "every value of every other axis of the part has a failing case"
		if len(matters) > 0 {
			scope = "axes on which not every value has a failing case: " + strings.Join(matters, ", ")
		}
		rep.Violation(fp, fmt.Sprintf("%s [%d failing cases of this RPC kind and end of context in the cancel part; %s; the replay is the simplest case]", g.detail, len(g.failing), scope), g.first)
	}
	cancelEnded, cancelLive, cancelNotEnded := 0, 0, 0
	cancelByKind := map[string]int{}
	var cancelMaxLag time.Duration
	var cancelSamples []interface{}
	cancelSampled := map[string]bool{}
	for _, o := range cancelOuts {
		if o.skipped {
			continue
		}
		if o.internal != "" {
			inconclusive(o.c.String() + ": " + o.internal)
		}
		notProp := false
		for _, f := range o.findings {
			if f.Clause == "cancel-not-propagated" {
				notProp = true
			}
		}
		if notProp {
			cancelNotEnded++
			if class, ok := o.c.mainClass(false); ok {
				stuck.add(class, "cancel part: "+o.c.String())
			}
		}
		if o.ended {
			cancelEnded++
			if o.lag > cancelMaxLag {
				cancelMaxLag = o.lag
			}
		}
		if o.ended && o.live {
			cancelLive++
			cancelByKind[o.c.Kind+"/"+o.c.End]++
		}
		sk := o.c.Kind + "|" + o.c.End
		if !cancelSampled[sk] && o.c.Base == "in-stream-handler" && o.c.IC && o.c.Creds && o.c.Client != "receiving" && (o.c.Watch == "derived-poll" || o.c.Watch == "recv") && (o.c.End == "deadline" || o.c.Deadline && o.c.Depth == "ancestor") {
			cancelSampled[sk] = true
			cancelSamples = append(cancelSamples, map[string]interface{}{"case": o.c, "description": o.c.String(), "watched_context_live_when_the_handler_began_to_watch": o.live,
				"watched_context_seen_done_after_the_end_of_the_callers": o.ended, "clauses_violated": len(o.findings)})
		}
	}

	// the call-options part (callopts.go): first over the standard transport (thorough), then in-process
	optsCases := optsGrammar()
	optsRefRuns := 0
	if thorough {
		for _, o := range runOptsPart(optsCases, workers, true) {
			optsRefRuns++
			if o.internal != "" {
				inconclusive("bufconn reference, " + o.c.String() + ": " + o.internal)
			}
			if len(o.findings) > 0 {
				f := o.findings[0]
				inconclusive(fmt.Sprintf("the oracle disagrees with grpc-go over bufconn on %s: %s (%s, %s): %s", o.c, f.Clause, f.Where, f.When, f.Detail))
			}
		}
		refRuns += optsRefRuns
	}
	optsOuts := runOptsPart(optsCases, workers, false)
	optsLooks := 0
	for _, o := range optsOuts {
		if o.internal != "" {
			inconclusive(o.c.String() + ": " + o.internal)
		}
		optsLooks += o.looks
	}
	ogroups, oorder := groupOpts(optsOuts)
	for _, k := range oorder {
		g := ogroups[k]
		rep.Violation(k, fmt.Sprintf("%s [%d observations in the call-options part; caller actions with a failing case: %s; instants of the action: %s; the replay is the simplest case]", g.detail, g.n, setNames(g.acts), setNames(g.whens)), g.first)
	}

	ctxCases := contextGrammar(allBases)
	dlCases := deadlineGrammar(allBases, thorough)
	mdCases := mdGrammar(allBases)
	keyCases := keysGrammar(allBases)
	cases := append(append(append(append([]kase{}, ctxCases...), dlCases...), mdCases...), keyCases...)

	// the pinned part runs in its own process, next to the rest
	reuseCases := reuseGrammar()
	type pinnedRes struct {
		outs    []pinnedOut
		crash   string
		crashAt int
		err     error
	}
	pinnedCh := make(chan pinnedRes, 1)
	go func() {
		var r pinnedRes
		r.outs, r.crash, r.crashAt, r.err = runPinned(reuseCases, false)
		pinnedCh <- r
	}()

	outs := runAll(cases, workers)

	evals, cutShort := len(cancelOuts)+len(optsOuts), 0
	distinct := map[string]bool{}
	for _, o := range optsOuts {
		if o.looks > 0 {
			distinct[o.c.String()] = true
		}
	}
	for _, o := range cancelOuts {
		if o.ended && o.live {
			distinct[o.c.String()] = true
		}
	}
	byEnd := map[string]int{}
	lateLookups, credsCases, sharedJoined, dlLive := 0, 0, 0, 0
	keyCasesDone, keysSeen := 0, map[string]bool{}
	general := generalFailures(outs)
	foldedKeyFindings := 0
	var samples []interface{}
	sampled := map[string]bool{}
	groups := map[string]*group{}
	var order []string
	for _, o := range outs {
		c := o.c
		if o.skipped {
			continue
		}
		evals++
		if o.internal != "" {
			inconclusive(c.String() + ": " + o.internal)
		}
		if o.cut {
			cutShort++
		}
		if o.phases == 4 && (c.Layers != 0 || c.Base != "background" || c.Creds != "") {
			distinct[c.String()] = true
			byEnd[c.end()]++
		}
		lateLookups += o.late
		if c.Creds != "" {
			credsCases++
		}
		if o.shared {
			sharedJoined++
		}
		if c.end() == "deadline" && o.earlyLive {
			dlLive++
		}
		// one sample per (part, end, credentials yes/no) of the largest input of its kind
		full := c.Layers == 1<<len(layerNames)-1 && c.Part == "" || c.Part == "md" && c.MDNew == "ka+kb+authorization" && c.MDApp == "ka+kb+authorization" && (c.Creds == "" || c.Creds == "ka+kb+authorization") && c.Spelling == "mixed" && c.Layers == 1<<len(layerNames)-1 ||
			c.Part == "keys" && c.Key == allKeys && (c.Sources == "new+app" || c.Sources == "new+app+creds") && c.Companion && c.Spelling == "mixed" && c.Layers == 1<<len(layerNames)-1
		if c.Part == "keys" && o.phases == 4 {
			keyCasesDone++
			if c.Key != allKeys {
				keysSeen[c.Key] = true
			}
		}
		sk := fmt.Sprintf("%s|%s|%v", c.Part, c.end(), c.Creds != "")
		if full && !sampled[sk] && c.Order == "up" && c.IC && c.Kind == "stream" && c.Base == "in-unary-handler" && (c.Deadline || c.Part == "md") {
			sampled[sk] = true
			samples = append(samples, map[string]interface{}{"case": c, "description": c.String(), "handler_phases_completed": o.phases,
				"accessor_lookups_after_context_end": o.late, "caller_outgoing_md": o.wantIn, "credentials_md": o.credsWant,
				"caller_and_credentials_values_seen_joined_on_a_shared_key": o.shared, "clauses_violated": len(o.findings)})
		}
		for _, f := range o.findings {
			if f.Shape != "" && f.Shape != "ordinary" && general[family(f.Clause)+"|kind="+c.Kind] {
				foldedKeyFindings++
				continue
			}
			k := groupKey(c, f)
			g := groups[k]
			if g == nil {
				g = &group{first: c, detail: fmt.Sprintf("%s seen in the %s at instant %q [%s]: %s", f.Clause, f.Where, f.When, c, f.Detail), wheres: map[string]bool{}, rank: len(instants)}
				groups[k] = g
				order = append(order, k)
			}
			g.n++
			g.wheres[f.Where] = true
			if r := instantRank(f.When); f.When != "" && r < g.rank {
				g.rank = r
			} else if f.When == "" {
				g.rank = 0
			}
			if c.Base == "background" {
				g.plain = true
			}
		}
	}
	for _, k := range order {
		g := groups[k]
		rep.Violation(g.fingerprint(k), fmt.Sprintf("%s [%d observations over the grammar; the replay is the simplest case]", g.detail, g.n), g.first)
	}

	// the pinned part
	pr := <-pinnedCh
	if pr.err != nil {
		inconclusive(pr.err.Error())
	}
	reuseEvals, reuseIdentical, reuseLooks, reusePairsRepeated, reuseFolded := 0, 0, 0, 0, 0
	rgroups := map[string]*rgroup{}
	var rorder []string
	var reuseSamples []interface{}
	for _, o := range pr.outs {
		c := reuseCases[o.Index]
		reuseEvals += 2 * o.Pairs
		for _, r := range o.Runs {
			if r.Internal != "" {
				inconclusive(c.String() + ": " + r.Internal)
			}
		}
		same := sameObs(o.Runs[0], o.Runs[1])
		if same {
			reuseIdentical++
		}
		if o.Pairs > 1 {
			reusePairsRepeated++
		}
		if same && o.Runs[0].Complete && o.Runs[1].Complete {
			distinct[c.String()] = true
			reuseLooks += strings.Count(strings.Join(o.Runs[0].Obs, ""), " saw ")
		}
		if c.Calls == maxSeries && c.IC && c.Appended && c.Creds && c.Ctx == "one-context" && c.Drain == "after-all" && c.Look == "entry" && c.Mutation == "set" && (c.Kind == "bidi-stream" || c.Kind == "server-stream") {
			reuseSamples = append(reuseSamples, map[string]interface{}{"case": c, "description": c.String(), "observations_run_1": o.Runs[0].Obs, "observations_run_2_identical": same,
				"clauses_violated": len(o.Runs[0].Findings) + len(o.Runs[1].Findings)})
		}
		// a handler that sees even what the caller changes while the handler is
		// parked (the clause md-aliasing:caller->handler of the main part) sees what
		// the caller changes earlier: nothing new
		kf := "stream"
		if c.Kind == "unary" {
			kf = "unary"
		}
		if groups["md-aliasing:caller->handler|kind="+kf] != nil {
			reuseFolded += len(o.Runs[0].Findings) + len(o.Runs[1].Findings)
			continue
		}
		groupReuse(c, o, same, rgroups, &rorder)
	}
	for _, k := range rorder {
		rep.Violation(k, rgroups[k].what(), rgroups[k].first)
	}
	if pr.crash != "" {
		c := reuseCases[pr.crashAt]
		if !strings.Contains(pr.crash, "concurrent map") {
			inconclusive("the pinned child process died on " + c.String() + ": " + pr.crash)
		}
		rep.Violation(crashFingerprint(c), crashWhat(c, pr.crash), c)
	}
	dlLayerSets := "the layer sets {none, each single layer, all nine} (sweep: every case has to wait for a real deadline)"
	if thorough {
		dlLayerSets = "all 2^9 layer subsets"
	}
	os.Exit(rep.Finish("exploration", map[string]interface{}{
		"evaluations":         evals + reuseEvals,
		"distinct_nontrivial": len(distinct),
		"grammar": map[string]interface{}{
			"context_grammar_cases":                            len(ctxCases),
			"deadline_expiry_cases":                            len(dlCases),
			"metadata_sweep_cases":                             len(mdCases),
			"key_alphabet_cases":                               len(keyCases),
			"key_alphabet":                                     keyAlphabetNames(),
			"pinned_reuse_cases":                               len(reuseCases),
			"cancel_part_cases":                                len(cancelCases),
			"call_options_part_cases":                          len(optsCases),
			"call_options_part_looks":                          optsLooks,
			"call_options_part_reference_runs_on_grpc_bufconn": optsRefRuns,
			"pinned_reuse_runs":                                reuseEvals,
			"instants_per_case":                                "handler: entry, parked, context-end (after-cancel / after-deadline), after the caller's call returned; interceptor: entry, after the handler returned",
			"lookups_per_late_instant":                         lookups,
		},
		"nontrivial_by_end_of_context":                                 byEnd,
		"cancel_part_cases_where_the_watched_context_was_seen_done":    cancelEnded,
		"cancel_part_cases_live_before_and_done_after":                 cancelLive,
		"cancel_part_live_then_done_by_kind_and_end":                   cancelByKind,
		"cancel_part_cases_where_the_context_never_ended":              cancelNotEnded,
		"cancel_part_slowest_end_after_the_handler_saw_the_callers_ms": float64(cancelMaxLag.Microseconds()) / 1000,
		"cancel_part_reference_runs_on_grpc_bufconn":                   cancelRefRuns,
		"end_of_context_bound":                                         endBound.String(),
		"end_of_context_control_measurement_slowest_of_64":             controlMax.String(),
		"classes_of_the_main_sweep_whose_context_never_ends":           stuck.list(),
		"main_sweep_cases_cut_short_in_stuck_classes":                  cutShort,
		"accessor_lookups_after_context_end":                           lateLookups,
		"cases_with_per_rpc_credentials":                               credsCases,
		"cases_where_handler_saw_caller_and_credentials_joined":        sharedJoined,
		"deadline_cases_with_entry_and_parked_before_expiry":           dlLive,
		"key_alphabet_cases_completed":                                 keyCasesDone,
		"key_alphabet_keys_exercised":                                  len(keysSeen),
		"key_alphabet_findings_folded_into_a_failure_on_ordinary_keys": foldedKeyFindings,
		"pinned_reuse_cases_with_identical_observations_twice":         fmt.Sprintf("%d of %d", reuseIdentical, len(reuseCases)),
		"pinned_reuse_handler_and_interceptor_looks_compared":          reuseLooks,
		"pinned_reuse_cases_whose_pair_of_runs_was_repeated":           reusePairsRepeated,
		"pinned_reuse_findings_folded_into_md_aliasing_while_parked":   reuseFolded,
		"rule": "CONTEXT GRAMMAR, fully crossed: all 2^9 subsets of caller-context layers (string key, struct key, NewOutgoingContext metadata, incoming metadata, peer, enclosing ServerTransportStream, AppendToOutgoingContext pairs, context-typed value, peer with AuthInfo) x 2 stacking orders x 3 base contexts (background, inside an in-process unary handler, inside an in-process stream handler) " +
			"x unary/stream x with/without channel-level server interceptors x {no credentials, grpc.PerRPCCredentials returning a key the caller's metadata shares and one in mixed case that it does not} x {far deadline, none} x end of the call's context {the caller cancels while the handler runs; the handler returns a response and a goroutine it started keeps the context}. " +
			"DEADLINE EXPIRY: the same with a real short deadline of the caller that passes while the handler waits on ctx.Done(), over " + dlLayerSets + ". " +
			"METADATA SWEEP, around each base case (3 bases x unary/stream x interceptors x other seven layers none/all): every triple of subsets of the key alphabet {ka (one value per source), kb (two values from NewOutgoingContext, two appended pairs, one from the credentials), authorization} given to NewOutgoingContext, to AppendToOutgoingContext and returned by the per-RPC credentials (9 = 8 subsets incl. credentials returning nothing + no credentials option) x lower/mixed-case spelling (each source spells a key differently) x 2 stacking orders (NewOutgoingContext after AppendToOutgoingContext discards the appended pairs). " +
			"KEY ALPHABET SWEEP, around each base case (3 bases x unary/stream x interceptors x other seven layers none/all): each of the " + fmt.Sprint(len(keyAlphabet)) + " keys listed under grammar.key_alphabet (keys that look like protocol headers: grpc- prefix with and without -bin suffix, names grpc-go itself uses, HTTP header names, look-alikes of reserved names, pseudo headers; some that the standard transport forwards and some that it withholds) and all of them at once x every non-empty set of sources that carry the key {NewOutgoingContext (two values), AppendToOutgoingContext, per-RPC credentials} (withheld keys never from the credentials) x {alone, next to the ordinary key ka in every source} x lower/mixed spelling x 2 stacking orders; binary values for -bin keys. A forwarded key must reach the handler exactly like an ordinary key; of a withheld key nothing is demanded in the handler's incoming metadata, but ClientContext must show it. " +
			"CANCEL PART (how a call stands when its caller's context ends), fully crossed: kind {unary, server-stream (stub = NewStream+SendMsg+CloseSend), client-stream, bidi-stream} x end of the caller's context {the caller cancels: no deadline / a far deadline next to it x the context passed to the call / an ancestor of it below value and metadata layers; a short real deadline passes} x what the handler does when that happens {waits on Done() of its context (stream.Context()), polls Err() of it, waits on Done() of a context.WithCancel child, polls Err() of a context.WithTimeout child, is blocked in RecvMsg (client not half-closed), is in a loop of SendMsg (kinds with a response stream)} x client has sent {0, 1} messages x {half-closed, not} (client-streaming kinds) x client from then on {blocked in Invoke / in a RecvMsg loop, does not touch the stream again} x interceptors x per-RPC credentials x 3 base contexts. Demanded: caller's deadline at entry, not done before the caller's context is, done after it is (Err() Canceled; DeadlineExceeded or Canceled after a deadline). The handler's goroutine reads the end of the caller's context off the caller's own context and from then on waits at most end_of_context_bound (max(20 s, 2000 x the slowest of 64 control measurements on this machine of a cancellation through a context derived from a wrapper type), then yields and 2 s more): a context that is still open then is reported as cancel-not-propagated, the check carries on; all cases of the part are in flight together, so that costs one bound in all. Classes (kind, interceptors, base, end, deadline, credentials) of the main sweep found like that are listed under classes_of_the_main_sweep_whose_context_never_ends and their cases run without the instants after the end of the context (counted in main_sweep_cases_cut_short_in_stuck_classes); a class the cancel part does not cover is found by the main sweep at the cost of one bound. A cancel case is non-trivial when the watched context was live when the handler began to watch it and was seen done afterwards. " +
			"PINNED RE-USE PART (the caller changes the MD it gave to NewOutgoingContext immediately after the stub call returned, before anything that yields; one MD re-used for a series of calls with another value each), fully crossed: kind {unary, server-stream (stub = NewStream+SendMsg+CloseSend), client-stream, bidi-stream} x interceptors x series of 1, 2, 3 calls with one MD x {one context re-used, a context made of the same MD per call} x {MD alone, appended pairs on top} x {no credentials, per-RPC credentials} x change made right after each stub call {Set, write into the value slice in place, add a key, delete a key, append a value into spare capacity} x {each call completed right after the change, all calls completed after the last change} x first look of handler and interceptor at their metadata {at entry, only after the whole series through a kept context}; every look of every call must show the caller's outgoing metadata as it was when that stub call was made. This part runs in a child process pinned to one P (runtime.GOMAXPROCS(1), GODEBUG=asyncpreemptoff=1, GC off), where a goroutine started by the call cannot run before the caller blocks; each case is run twice after letting leftovers of earlier runs finish and the two runs must make identical observations (pinned_reuse_cases_with_identical_observations_twice; a pair that differs is repeated up to 4 times and reported as unstable if it still differs). " +
			"Each case is a real call on a fresh inprocgrpc.Channel. The whole oracle (no caller value visible, incoming metadata = caller's outgoing joined with the credentials', in-process peer, own transport stream, caller's deadline, not done before the caller's context, ClientContext = the caller's context with all its values, chain of client contexts for nested calls) is evaluated inside the handler at entry, again while parked after the caller mutated in place / Set / deleted on the very map it gave to NewOutgoingContext, again after ctx.Done() (cancel or deadline), and again after the gate 'the caller's Invoke/RecvMsg has returned'; inside the interceptor at entry and after the handler returned. " +
			"At every instant after the end of the context the accessors are looked up `lookups` times with runtime.Gosched() in between before the full oracle runs (work the library left to goroutines gets the processor; no clock). " +
			"A case is non-trivial when the caller context carried at least one thing the library has to block, replace or join (a layer, credentials, or the enclosing handler's own context) and the handler completed all four phases; a pinned case when every look of every call of the series was made in both runs and the two runs agree; distinct by all parameters.",
		"samples":                        append(append(samples, reuseSamples...), cancelSamples...),
		"exhaustive":                     true,
		"reference_runs_on_grpc_bufconn": refRuns,
	}, []string{
		"the far deadline is one hour ahead and equality of deadlines is checked, never elapsed time; the short deadline (8 ms; 80 ms over bufconn) only has to pass, nothing is compared with it: the handler waits on ctx.Done(), and a context that is done earlier than expected is judged by the state of the caller's own context read afterwards; 30 s timers are hang guards",
		"state that the library drops asynchronously after the end of the call's context is made visible by a bounded number of scheduler yields between look-ups and by the gate 'the caller's call has returned', not by waiting for a time",
		"the deadline-expiry dimension is crossed with all layer subsets only in the thorough tier; in the quick tier it is swept over the layer sets none / each single layer / all; the metadata key-set dimension is swept around the base cases (layers other than the two metadata layers none or all), with end of context = cancel",
		"on a key that caller and credentials both supply the order between the caller's values and the credentials' is not demanded (grpc-go sends the credentials' first, the in-process channel appends them); the caller's values must keep their order",
		"the only elapsed time that decides anything is the bound on the wait for a context that the property says must end (cancel part and main sweep, awaitDone): at least 20 s after the waiting goroutine itself saw the caller's context done, scaled up by a control measurement under the current load, re-checked after yields and a grace period; its expiry is the violation 'the caller's cancellation / deadline does not reach the handler's context'. Every other guard that expires (handler not entered, the caller's own call does not return, a handler whose context ended does not come back from RecvMsg/SendMsg, the pinned child) ends the run INCONCLUSIVE (exit 2; exit 1 if violations had been reported before) and no further case is started",
		"in the cancel part the harness cannot know that a handler is already parked inside RecvMsg / SendMsg / select when the caller's context ends; it yields the processor a bounded number of times before it cancels, and nothing in the oracle depends on it",
		"metadata aliasing can only be probed through the public metadata API (which copies) and through the map the caller gave to NewOutgoingContext",
		"which keys the standard transport forwards is a table in the check (grammar.key_alphabet); the thorough tier checks every row in both directions against grpc-go v1.57.1 over bufconn (a forwarded key must arrive exactly, a withheld key must show none of the caller's values) and stops as INCONCLUSIVE on a disagreement; keys that break a real connection (connection, upper-case or non-printable names) are not in the alphabet; the key alphabet is swept around the base cases with end of context = cancel, not crossed with the other eight layers' subsets",
		"the pinned re-use part has no clock and no sleep: the window 'the stub call has returned, the caller has not yet yielded' is made deterministic by a single P with asynchronous preemption off in a child process (which also contains a runtime abort 'concurrent map iteration and map write' of a library that reads the caller's map late: that abort is reported as a violation of the same clause); the caller yields nowhere between the return of the stub call and its change of the MD; it is made from a background context (not crossed with base contexts and layers); the thorough tier runs the same part over grpc-go/bufconn, where it must hold too",
		"'an in-process peer' is taken to be the peer (address and auth info) that the same call reports to the caller through grpc.Peer",
		"ClientContext may return a context derived from the caller's (the channel adds cancellation and the credentials' metadata); what is demanded is that every value of the caller's context, its peer, transport stream, incoming and outgoing metadata are reachable through it at every instant",
	}))
}
