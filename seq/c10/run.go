package main

import (
	"context"
	"fmt"
	"net"
	"os"
	"sort"

	"google.golang.org/grpc"
	"google.golang.org/grpc/credentials/insecure"
	"google.golang.org/grpc/metadata"
	"google.golang.org/grpc/test/bufconn"
	"google.golang.org/protobuf/types/known/wrapperspb"

	"github.com/fullstorydev/grpchan/inprocgrpc"

	"verif/seq/common"
	"verif/vlib"
)

// runCase runs one case on a fresh in-process channel.
func runCase(c kase) *runState {
	st := newState(c, false)
	e := &env{cur: st}
	ch := &inprocgrpc.Channel{}
	if c.IC {
		ch.WithServerUnaryInterceptor(e.unaryIC).WithServerStreamInterceptor(e.streamIC)
	}
	ch.RegisterService(e.service().Desc(), common.Impl{})
	st.innerCC = ch

	func() {
		defer func() {
			if r := recover(); r != nil {
				st.add("panic", "caller", fmt.Sprintf("library panicked on the calling goroutine: %v", r))
			}
		}()
		switch c.Base {
		case "background":
			st.drive(ch, context.Background())
		case "in-unary-handler", "in-stream-handler":
			// the call under test is issued from inside another in-process handler,
			// on top of that handler's context
			outer := context.WithValue(context.Background(), outerMarkerKey{}, st.outerMarker)
			outer = metadata.AppendToOutgoingContext(outer, "outer-key", "o")
			done := make(chan struct{})
			var err error
			go func() {
				defer close(done)
				if c.Base == "in-unary-handler" {
					var out wrapperspb.StringValue
					err = ch.Invoke(outer, "/c10.S/OuterU", wrapperspb.String("outer"), &out)
					return
				}
				var cs grpc.ClientStream
				cs, err = ch.NewStream(outer, &grpc.StreamDesc{StreamName: "OuterSt", ClientStreams: true, ServerStreams: true}, "/c10.S/OuterSt")
				if err != nil {
					return
				}
				_ = cs.CloseSend()
				var out wrapperspb.StringValue
				if e := cs.RecvMsg(&out); e != nil && e.Error() != "EOF" {
					err = e
				}
			}()
			// three guarded waits inside drive, plus slack
			ok := false
			for i := 0; i < 6 && !ok; i++ {
				ok = wait(done)
			}
			if !ok {
				st.fail("hang: outer call did not return")
			} else if err != nil {
				st.fail(fmt.Sprintf("outer call failed: %v", err))
			}
		default:
			st.fail("unknown base " + c.Base)
		}
	}()
	if st.internal == "" && st.phases == 0 {
		st.fail("the handler never ran")
	}
	if st.internal == "" && c.IC && !st.icRan {
		st.fail("the interceptor never ran")
	}
	return st
}

// ------------------------------------------------------------ reference: real grpc-go over bufconn

type refServer struct {
	e   *env
	cc  *grpc.ClientConn
	srv *grpc.Server
}

func newRefServer(ic bool) (*refServer, error) {
	e := &env{}
	var opts []grpc.ServerOption
	if ic {
		opts = append(opts, grpc.UnaryInterceptor(e.unaryIC), grpc.StreamInterceptor(e.streamIC))
	}
	srv := grpc.NewServer(opts...)
	srv.RegisterService(e.service().Desc(), common.Impl{})
	lis := bufconn.Listen(1 << 20)
	go srv.Serve(lis)
	cc, err := grpc.Dial("passthrough:///bufnet", grpc.WithContextDialer(func(ctx context.Context, _ string) (net.Conn, error) { return lis.DialContext(ctx) }),
		grpc.WithTransportCredentials(insecure.NewCredentials()))
	if err != nil {
		return nil, err
	}
	return &refServer{e: e, cc: cc, srv: srv}, nil
}

func (r *refServer) run(c kase) *runState {
	st := newState(c, true)
	r.e.cur = st
	st.drive(r.cc, context.Background())
	if st.internal == "" && st.phases == 0 {
		st.fail("the handler never ran")
	}
	return st
}

// ------------------------------------------------------------ grammar

func enumerate(bases []string) []kase {
	var out []kase
	for _, base := range bases {
		for _, ic := range []bool{false, true} {
			for _, kind := range []string{"unary", "stream"} {
				for _, dl := range []bool{false, true} {
					for layers := 0; layers < 1<<len(layerNames); layers++ {
						for _, order := range []string{"up", "down"} {
							out = append(out, kase{Base: base, Layers: layers, Order: order, Deadline: dl, Kind: kind, IC: ic})
						}
					}
				}
			}
		}
	}
	// simplest first: fewer layers before more
	sort.SliceStable(out, func(i, j int) bool { return popcount(out[i].Layers) < popcount(out[j].Layers) })
	return out
}

func popcount(x int) int {
	n := 0
	for ; x != 0; x &= x - 1 {
		n++
	}
	return n
}

// A clause that fails is reported once per (clause, RPC kind): the unary and the
// streaming path build the handler context separately. The scope part says
// where it shows: "handler" (the usual case; the interceptor, whose context the
// handler's derives from, is then not reported separately), "interceptor-only",
// "caller"; and base "any" when it already fails for a call made from a plain
// context, "nested-only" when it needs a call made from inside another handler.
type group struct {
	first  kase
	detail string
	n      int
	wheres map[string]bool
	plain  bool
}

func groupKey(c kase, f finding) string { return f.Clause + "|kind=" + c.Kind }

func (g *group) fingerprint(key string) string {
	where := "handler"
	switch {
	case g.wheres["handler"]:
	case g.wheres["interceptor"]:
		where = "interceptor-only"
	default:
		where = "caller"
	}
	base := "nested-only"
	if g.plain {
		base = "any"
	}
	return fmt.Sprintf("C10|%s|where=%s|base=%s", key, where, base)
}

func inconclusive(msg string) {
	fmt.Fprintln(os.Stderr, "INCONCLUSIVE:", msg)
	os.Exit(2)
}

func main() {
	rep := vlib.NewReporter("C10")
	thorough := rep.Tier == "thorough"

	if p := common.Arg("replay"); p != "" {
		var c kase
		if err := common.LoadReplay(p, &c); err != nil || c.Kind == "" {
			inconclusive(fmt.Sprintf("cannot load replay: %v", err))
		}
		st := runCase(c)
		if st.internal != "" {
			inconclusive(st.internal)
		}
		fmt.Printf("replay: %s: handler phases completed %d/3, %d clause(s) violated\n", c, st.phases, len(st.findings))
		for _, f := range st.findings {
			fmt.Printf("  %s (%s): %s\n", f.Clause, f.Where, f.Detail)
		}
		if len(st.findings) > 0 {
			fmt.Printf("VIOLATION property=C10 replay=%s\n", p)
			os.Exit(1)
		}
		os.Exit(0)
	}

	// the oracle against the standard transport (thorough only): must agree everywhere
	refRuns := 0
	if thorough {
		for _, ic := range []bool{false, true} {
			r, err := newRefServer(ic)
			if err != nil {
				inconclusive("bufconn reference: " + err.Error())
			}
			for _, c := range enumerate([]string{"background"}) {
				if c.IC != ic {
					continue
				}
				st := r.run(c)
				refRuns++
				if st.internal != "" {
					inconclusive("bufconn reference, " + c.String() + ": " + st.internal)
				}
				if len(st.findings) > 0 {
					inconclusive(fmt.Sprintf("the oracle disagrees with grpc-go over bufconn on %s: %s (%s): %s", c, st.findings[0].Clause, st.findings[0].Where, st.findings[0].Detail))
				}
			}
			r.cc.Close()
			r.srv.Stop()
		}
	}

	evals := 0
	distinct := map[string]bool{}
	var samples []interface{}
	groups := map[string]*group{}
	var order []string
	for _, c := range enumerate([]string{"background", "in-unary-handler", "in-stream-handler"}) {
		evals++
		st := runCase(c)
		if st.internal != "" {
			inconclusive(c.String() + ": " + st.internal)
		}
		if st.phases == 3 && (c.Layers != 0 || c.Base != "background") {
			distinct[c.String()] = true
		}
		if len(samples) < 6 && (c.Layers == 0 || c.Layers == 1<<len(layerNames)-1) && c.Order == "up" && c.Deadline && c.IC && c.Kind == "stream" {
			samples = append(samples, map[string]interface{}{"case": c, "layers": c.layerList(), "handler_phases_completed": st.phases,
				"incoming_md_expected_in_handler": mdString(st.wantIncoming), "clauses_violated": len(st.findings)})
		}
		for _, f := range st.findings {
			k := groupKey(c, f)
			g := groups[k]
			if g == nil {
				g = &group{first: c, detail: fmt.Sprintf("%s seen in the %s [%s]: %s", f.Clause, f.Where, c, f.Detail), wheres: map[string]bool{}}
				groups[k] = g
				order = append(order, k)
			}
			g.n++
			g.wheres[f.Where] = true
			if c.Base == "background" {
				g.plain = true
			}
		}
	}
	for _, k := range order {
		g := groups[k]
		rep.Violation(g.fingerprint(k), fmt.Sprintf("%s [%d observations over the grammar; the replay is the simplest case]", g.detail, g.n), g.first)
	}
	os.Exit(rep.Finish("exploration", map[string]interface{}{
		"evaluations":         evals,
		"distinct_nontrivial": len(distinct),
		"rule": "all 2^9 subsets of caller-context layers (string key, struct key, NewOutgoingContext metadata, incoming metadata, peer, enclosing ServerTransportStream, AppendToOutgoingContext pairs, context-typed value, peer with AuthInfo) x 2 stacking orders x 3 base contexts (background, inside an in-process unary handler, inside an in-process stream handler) " +
			"x deadline/none x unary/stream x with/without channel-level server interceptors, each as a real call on a fresh inprocgrpc.Channel with the oracle inside the handler " +
			"(and the interceptor). A case is non-trivial when the caller context carried at least one value the library has to block or replace (a layer, or the enclosing handler's own " +
			"context) and the handler completed all three phases (static checks; then, while the handler is parked, the caller mutates in place / Set / delete on the very map it gave to NewOutgoingContext and the handler re-reads its incoming metadata; then cancellation observed); distinct by all parameters.",
		"samples":                        samples,
		"exhaustive":                     true,
		"reference_runs_on_grpc_bufconn": refRuns,
	}, []string{
		"the deadline is one hour ahead: equality of deadlines is checked, never elapsed time; 30 s timers are hang guards only",
		"metadata aliasing can only be probed through the public metadata API (which copies) and through the map the caller gave to NewOutgoingContext",
		"'an in-process peer' is taken to be the peer (address and auth info) that the same call reports to the caller through grpc.Peer",
	}))
}
