package main

// The "end of the call's context" dimension: the handler's context exposes the
// caller's deadline AND CANCELLATION, "exactly as if the call had crossed a
// network". What has to happen is one thing (after the caller's context has
// ended, the context the handler was given, and everything derived from it,
// ends too); the ways in which a call can be standing when that happens are
// many, and a library can serve some of them through one mechanism and others
// not at all. This part enumerates them ("cancel" part):
//
//   RPC kind {unary, server-stream (stub = NewStream + SendMsg + CloseSend),
//   client-stream, bidi-stream}
//   x how the caller's context ends {the caller cancels explicitly (no deadline
//     at all; a far deadline next to it), a short real deadline passes}
//   x which context the caller cancels {the one it passed to the call, an
//     ancestor of it below the value and metadata layers}
//   x what the HANDLER is doing when that happens {waiting on Done() of its
//     context (for a stream: stream.Context()), polling Err() between units of
//     work, waiting on Done() of a context it derived with context.WithCancel,
//     polling Err() of a context it derived with context.WithTimeout, blocked in
//     RecvMsg (the client has not half-closed), in a loop of SendMsg}
//   x what the CLIENT has done with the stream {nothing sent, one message
//     sent} x {half-closed, not}
//   x what the client does from then on {blocked in Invoke / in a RecvMsg loop,
//     does not touch the stream again}
//   x channel-level server interceptors {without, with}
//   x per-RPC credentials {none, grpc.PerRPCCredentials}
//   x where the call is made from {a plain context, inside an in-process unary
//     handler, inside an in-process stream handler}.
//
// Oracle, from the statement: at entry the handler's context has the caller's
// deadline (none if the caller has none) and is not done unless the caller's
// is; once the caller's context is done (the handler goroutine reads that off
// the caller's own context, which the check holds), the context the handler
// watches must be done too, with Err() == Canceled for a cancellation
// (DeadlineExceeded or Canceled for a deadline, as over a network, where both
// ends run a timer).
//
// "Must be done too" is the one place where this check has to wait for
// something that a broken library never delivers. Every such wait is bounded
// by endBound (at least 20 s, and at least 2000 times the slowest of a series
// of control measurements, made on this machine under the current load, of
// what the library's own mechanism -- a context derived from a wrapper type,
// i.e. one goroutine woken by Done() of the parent -- takes to deliver a
// cancellation). The bound is counted from the moment at which the goroutine
// that waits has itself seen the caller's context done, and after it has
// expired the context is looked at again after scheduler yields and a further
// grace period (a process that was frozen for the length of the bound finds
// its timer expired when it wakes). A context that is still not done then is
// what the property forbids: "the caller's cancellation (or deadline) does not
// reach the handler's context". It is reported as a violation with the case,
// and the check carries on: the handler that was stuck returns by itself (its
// wait is the bounded one); a handler blocked for ever in RecvMsg or SendMsg of
// such a library is left behind in its goroutine. Any other wait that expires
// (handler never entered, the caller's own call does not return, a handler
// whose context did end does not come back from RecvMsg) says nothing about
// this property: INCONCLUSIVE, exit 2, and the sweep stops at the first one.
//
// All cases are in flight together (only the part of a case up to the end of
// the caller's context runs on a bounded number of workers), so a tree on
// which no cancellation ever arrives costs one bound, not one per case.
//
// The main sweep (main.go) waits for the same event once per case. Classes of
// cases (kind, interceptors, base, end, deadline, credentials) for which this
// part has found that the context never ends are registered in `stuck`; the
// main sweep then runs the cases of such a class without the instants after
// the end of the context (which do not exist there): it looks after a bounded
// number of yields and goes on. A class that this part does not cover is found
// stuck by the main sweep itself at the cost of one bound.

import (
	"context"
	"fmt"
	"net"
	"os"
	"runtime"
	"sort"
	"strings"
	"sync"
	"sync/atomic"
	"time"

	"google.golang.org/grpc"
	"google.golang.org/grpc/credentials/insecure"
	"google.golang.org/grpc/metadata"
	"google.golang.org/grpc/test/bufconn"
	"google.golang.org/protobuf/types/known/wrapperspb"

	"github.com/fullstorydev/grpchan/inprocgrpc"

	"verif/seq/common"
)

// ---------------------------------------------------------------- the bound

const (
	minEndBound   = 20 * time.Second
	controlFactor = 2000
	controlRounds = 64
	graceAfter    = 2 * time.Second
)

// endBound: how long a context that must end is waited for. Set by
// measureControl; never below minEndBound.
var (
	endBound   = minEndBound
	controlMax time.Duration
)

// opaque has the shape of the library's own wrapper: a context type that the
// context package does not know and that answers no Value look-up, so that a
// cancellable context derived from it is served by a goroutine that waits for
// Done() of the parent.
type opaque struct{ context.Context }

func (opaque) Value(interface{}) interface{} { return nil }

// measureControl measures, controlRounds times in a row and next to whatever
// else the machine is doing, how long a cancellation takes from cancel() of a
// parent to a goroutine that waits on a context derived from opaque{parent}.
func measureControl() {
	for i := 0; i < controlRounds; i++ {
		parent, cancel := context.WithCancel(context.Background())
		child, cancelChild := context.WithCancel(opaque{parent})
		got := make(chan time.Time, 1)
		go func() { <-child.Done(); got <- time.Now() }()
		runtime.Gosched()
		t0 := time.Now()
		cancel()
		t := time.NewTimer(guard)
		select {
		case t1 := <-got:
			if d := t1.Sub(t0); d > controlMax {
				controlMax = d
			}
		case <-t.C:
			inconclusive("control measurement: a cancellation did not reach a context derived by the check itself within the hang guard (machine too busy to decide anything)")
		}
		t.Stop()
		cancelChild()
	}
	if b := controlFactor * controlMax; b > endBound {
		endBound = b
	}
	if s := os.Getenv("VERIF_C10_END_BOUND_MS"); s != "" { // a knob to try the check itself; never lowers the verdicts' meaning
		var ms int
		if _, err := fmt.Sscan(s, &ms); err == nil && ms > 0 {
			endBound = time.Duration(ms) * time.Millisecond
		}
	}
}

// awaitDone waits for a context that the property says must end. It returns
// true as soon as done is closed; false only after endBound, a round of yields
// and a grace period have all passed with done still open.
func awaitDone(done <-chan struct{}) bool {
	t := time.NewTimer(endBound)
	defer t.Stop()
	select {
	case <-done:
		return true
	case <-t.C:
	}
	for i := 0; i < lookups; i++ {
		select {
		case <-done:
			return true
		default:
		}
		runtime.Gosched()
	}
	g := time.NewTimer(graceAfter)
	defer g.Stop()
	select {
	case <-done:
		return true
	case <-g.C:
		return false
	}
}

// ---------------------------------------------------------------- classes found stuck

type stuckSet struct {
	mu sync.Mutex
	m  map[string]string
}

var stuck = &stuckSet{m: map[string]string{}}

func (s *stuckSet) has(class string) bool {
	s.mu.Lock()
	defer s.mu.Unlock()
	_, ok := s.m[class]
	return ok
}

func (s *stuckSet) add(class, how string) {
	s.mu.Lock()
	defer s.mu.Unlock()
	if _, ok := s.m[class]; !ok {
		s.m[class] = how
	}
}

func (s *stuckSet) list() []string {
	s.mu.Lock()
	defer s.mu.Unlock()
	l := []string{}
	for k, v := range s.m {
		l = append(l, k+" ("+v+")")
	}
	sort.Strings(l)
	return l
}

func className(reference bool, kind string, ic bool, base, end string, deadline, creds bool) string {
	return fmt.Sprintf("reference=%v kind=%s interceptors=%v base=%s end=%s deadline=%v credentials=%v", reference, kind, ic, base, end, deadline, creds)
}

// classOf: the class of a case of the main sweep.
func classOf(c kase, reference bool) string {
	return className(reference, c.Kind, c.IC, c.Base, c.end(), c.Deadline || c.end() == "deadline", c.Creds != "")
}

// mainClass: the class of the main sweep that a case of this part stands for
// (the main sweep's calls are: unary; a bidi stream whose client has sent
// nothing, has half-closed and is blocked in RecvMsg; the handler waits on
// Done() of its context).
func (c cancelCase) mainClass(reference bool) (string, bool) {
	switch {
	case c.Watch != "done":
		return "", false
	case c.Kind == "unary":
		return className(reference, "unary", c.IC, c.Base, c.End, c.Deadline, c.Creds), true
	case c.Kind == "bidi-stream" && c.Sent == 0 && c.HalfClosed && c.Client == "receiving":
		return className(reference, "stream", c.IC, c.Base, c.End, c.Deadline, c.Creds), true
	}
	return "", false
}

// ---------------------------------------------------------------- grammar

type cancelCase struct {
	Part       string `json:"part"` // "cancel"
	Kind       string `json:"kind"` // unary | server-stream | client-stream | bidi-stream
	IC         bool   `json:"interceptors"`
	Base       string `json:"base"`                        // background | in-unary-handler | in-stream-handler
	End        string `json:"end"`                         // cancel | deadline
	Deadline   bool   `json:"deadline"`                    // the caller's context has a deadline (far, one hour, when End is cancel)
	Depth      string `json:"cancelled_context,omitempty"` // End cancel: passed-to-call | ancestor
	Creds      bool   `json:"creds"`
	Watch      string `json:"handler"`     // done | poll | derived-done | derived-poll | recv | send
	Sent       int    `json:"sent"`        // messages the client has sent
	HalfClosed bool   `json:"half_closed"` // the client has called CloseSend
	Client     string `json:"client"`      // invoke | receiving | idle
}

func (c cancelCase) String() string {
	s := fmt.Sprintf("part=cancel kind=%s base=%s interceptors=%v credentials=%v end=%s", c.Kind, c.Base, c.IC, c.Creds, c.End)
	if c.End == "cancel" {
		s += fmt.Sprintf(" cancelled-context=%s far-deadline=%v", c.Depth, c.Deadline)
	}
	s += " handler=" + watchText[c.Watch]
	if c.Kind != "unary" {
		s += fmt.Sprintf(" client-sent=%d half-closed=%v client=%s", c.Sent, c.HalfClosed, c.Client)
	}
	return s
}

var watchText = map[string]string{
	"done":         "waits-on-Done()-of-its-context",
	"poll":         "polls-Err()-of-its-context",
	"derived-done": "waits-on-Done()-of-a-context.WithCancel-child",
	"derived-poll": "polls-Err()-of-a-context.WithTimeout-child",
	"recv":         "blocked-in-RecvMsg",
	"send":         "in-a-loop-of-SendMsg",
}

var cancelKinds = []string{"unary", "server-stream", "client-stream", "bidi-stream"}
var watchModes = []string{"done", "poll", "derived-done", "derived-poll", "recv", "send"}

type endVariant struct {
	end      string
	deadline bool
	depth    string
}

var endVariants = []endVariant{
	{"cancel", false, "passed-to-call"}, {"cancel", false, "ancestor"}, {"cancel", true, "passed-to-call"}, {"cancel", true, "ancestor"},
	{"deadline", true, ""},
}

// shapes: what kind of call stands how when its context ends.
func cancelShapes(kind string) []cancelCase {
	var out []cancelCase
	switch kind {
	case "unary":
		for _, w := range watchModes[:4] {
			out = append(out, cancelCase{Kind: kind, Watch: w, Sent: 1, HalfClosed: true, Client: "invoke"})
		}
	case "server-stream":
		// the stub has sent the request and half-closed; the handler has read the request
		for _, w := range []string{"done", "poll", "derived-done", "derived-poll", "send"} {
			for _, cl := range []string{"receiving", "idle"} {
				out = append(out, cancelCase{Kind: kind, Watch: w, Sent: 1, HalfClosed: true, Client: cl})
			}
		}
	case "client-stream", "bidi-stream":
		for _, w := range watchModes {
			if w == "send" && kind == "client-stream" {
				continue // its handler sends one response, at the end
			}
			for _, sent := range []int{0, 1} {
				for _, half := range []bool{true, false} {
					if w == "recv" && half {
						continue // RecvMsg does not block after the client has half-closed
					}
					for _, cl := range []string{"receiving", "idle"} {
						out = append(out, cancelCase{Kind: kind, Watch: w, Sent: sent, HalfClosed: half, Client: cl})
					}
				}
			}
		}
	}
	return out
}

func cancelGrammar(bases []string) []cancelCase {
	var out []cancelCase
	for _, base := range bases {
		for _, ic := range []bool{false, true} {
			for _, creds := range []bool{false, true} {
				for _, ev := range endVariants {
					for _, kind := range cancelKinds {
						for _, sh := range cancelShapes(kind) {
							c := sh
							c.Part, c.Base, c.IC, c.Creds, c.End, c.Deadline, c.Depth = "cancel", base, ic, creds, ev.end, ev.deadline, ev.depth
							out = append(out, c)
						}
					}
				}
			}
		}
	}
	sort.SliceStable(out, func(i, j int) bool { return cancelSize(out[i]) < cancelSize(out[j]) })
	return out
}

// simplest first
func cancelSize(c cancelCase) int {
	n := 0
	if c.Base != "background" {
		n += 4
	}
	if c.IC {
		n += 2
	}
	if c.Creds {
		n += 2
	}
	if c.Deadline {
		n++
	}
	if c.Depth == "ancestor" {
		n++
	}
	if c.End == "deadline" {
		n++
	}
	for i, w := range watchModes {
		if c.Watch == w {
			n += i
		}
	}
	if c.Kind != "unary" {
		if c.Sent == 0 {
			n++
		}
		if !c.HalfClosed {
			n++
		}
		if c.Client == "idle" {
			n++
		}
	}
	return n
}

// ---------------------------------------------------------------- one case

type cancelRun struct {
	c         cancelCase
	reference bool
	id        string
	marker    *int

	callerCtx      context.Context
	callerDeadline time.Time

	mu          sync.Mutex
	findings    []finding
	internal    string
	liveAtReady bool          // the watched context was not done when the handler began to watch it
	ended       bool          // the watched context was seen done
	lag         time.Duration // (informational) from "the handler goroutine saw the caller's context done" to "the watched context is done"
	icRan       bool

	entered, ready, judged, handlerReturned, icDone chan struct{}
}

var cancelSeq int64

func newCancelRun(c cancelCase, reference bool) *cancelRun {
	return &cancelRun{c: c, reference: reference, id: fmt.Sprintf("case-%d", atomic.AddInt64(&cancelSeq, 1)), marker: new(int),
		entered: make(chan struct{}), ready: make(chan struct{}), judged: make(chan struct{}), handlerReturned: make(chan struct{}), icDone: make(chan struct{})}
}

func (r *cancelRun) add(clause, when, detail string) {
	r.mu.Lock()
	defer r.mu.Unlock()
	r.findings = append(r.findings, finding{Clause: clause, Where: "handler", When: when, Detail: detail})
}

func (r *cancelRun) fail(msg string) {
	r.mu.Lock()
	defer r.mu.Unlock()
	if r.internal == "" {
		r.internal = msg
	}
}

func (r *cancelRun) failed() bool {
	r.mu.Lock()
	defer r.mu.Unlock()
	return r.internal != ""
}

func (r *cancelRun) hasDeadline() bool { return r.c.Deadline || r.c.End == "deadline" }

// entry: the deadline clause, and "not done before the caller's context is".
func (r *cancelRun) entry(ctx context.Context) {
	d, ok := ctx.Deadline()
	switch {
	case r.hasDeadline() && !ok:
		r.add("deadline-lost", "entry", "caller has a deadline, handler context has none")
	case r.hasDeadline() && !r.reference && !d.Equal(r.callerDeadline):
		r.add("deadline-mismatch", "entry", fmt.Sprintf("handler deadline differs from the caller's by %v", d.Sub(r.callerDeadline)))
	case !r.hasDeadline() && ok:
		r.add("deadline-invented", "entry", "caller has no deadline, handler context has one")
	}
	r.notBefore(ctx, "entry")
}

// notBefore: a handler context that is done while the caller's is not and the
// caller's deadline, if any, has not passed. (The caller's context and the clock
// are read after the handler's context; being done is monotonic. An
// implementation may, like a server across a network, run a timer of its own for
// the caller's deadline: that timer and the caller's fire in either order, but
// neither before the deadline.)
func (r *cancelRun) notBefore(ctx context.Context, when string) {
	if err := ctx.Err(); err != nil && r.callerCtx.Err() == nil && !r.deadlinePassed() {
		r.add("spurious-cancel", when, "handler context done ("+err.Error()+") while the caller's context is not, nor has the caller's deadline passed")
	}
}

func (r *cancelRun) deadlinePassed() bool {
	return r.hasDeadline() && !time.Now().Before(r.callerDeadline)
}

func (r *cancelRun) what() string {
	if strings.HasPrefix(r.c.Watch, "derived") {
		return "the context the handler derived from its context"
	}
	return "the handler's context"
}

func (r *cancelRun) endText() string {
	if r.c.End == "cancel" {
		return "the caller cancelled its context"
	}
	return "the caller's deadline passed"
}

// judge waits, on the handler's side, for the end of the watched context w
// (ctx is the context the handler was given; w is ctx or derived from it).
func (r *cancelRun) judge(ctx, w context.Context, poll bool) {
	defer close(r.judged)
	var sawCaller time.Time
	ended := false
	if !poll {
		t := time.NewTimer(guard)
		select {
		case <-w.Done():
			ended = true
		case <-r.callerCtx.Done():
			sawCaller = time.Now()
		case <-t.C:
			t.Stop()
			r.fail("hang: the caller's context did not end")
			return
		}
		t.Stop()
		if !ended {
			ended = awaitDone(w.Done())
		}
	} else {
		// units of work with a look at Err() in between; the pause between two
		// looks grows so that thousands of handlers that wait in vain cost nothing
		pause := 20 * time.Microsecond
		start := time.Now()
		graced := false
		for {
			if w.Err() != nil {
				ended = true
				break
			}
			now := time.Now()
			if sawCaller.IsZero() {
				if r.callerCtx.Err() != nil {
					sawCaller = now
				} else if now.Sub(start) > guard {
					r.fail("hang: the caller's context did not end")
					return
				}
			} else if d := now.Sub(sawCaller); d > endBound+graceAfter {
				break
			} else if d > endBound && !graced {
				graced = true
				for i := 0; i < lookups; i++ {
					runtime.Gosched()
				}
				continue
			}
			time.Sleep(pause)
			if pause < 50*time.Millisecond {
				pause *= 2
			}
		}
	}
	when := "after-" + r.c.End
	if !ended {
		r.add("cancel-not-propagated", when, fmt.Sprintf("%s; %s is still not done %v after the handler's own goroutine saw the caller's context done (bound %v = max(20 s, %d x the slowest of %d control measurements of a cancellation through a context derived from a wrapper type on this machine, %v), then %d yields and %v more)",
			r.endText(), r.what(), time.Since(sawCaller).Round(time.Millisecond), endBound, controlFactor, controlRounds, controlMax, lookups, graceAfter))
		return
	}
	r.mu.Lock()
	r.ended = true
	if !sawCaller.IsZero() {
		r.lag = time.Since(sawCaller)
	}
	r.mu.Unlock()
	r.notBefore(w, when)
	err := w.Err()
	switch {
	case r.c.End == "cancel" && err != context.Canceled:
		r.add("cancel-wrong-error", when, fmt.Sprintf("%s; Err() of %s = %v", r.endText(), r.what(), err))
	case r.c.End == "deadline" && err != context.DeadlineExceeded && err != context.Canceled:
		r.add("cancel-wrong-error", when, fmt.Sprintf("%s; Err() of %s = %v", r.endText(), r.what(), err))
	}
	if poll && !awaitDone(w.Done()) {
		r.add("cancel-not-propagated", when, fmt.Sprintf("%s; Err() of %s is %v but its Done() channel is still open after the bound (%v)", r.endText(), r.what(), err, endBound))
	}
	if w != ctx && ctx.Err() == nil {
		// a derived context ends because its parent does (the handler has not cancelled it)
		if !awaitDone(ctx.Done()) {
			r.add("cancel-not-propagated", when, fmt.Sprintf("%s; a context derived from the handler's context is done (%v), the handler's context itself is not", r.endText(), err))
		}
	}
}

const sendCap = 1 << 20

// serve is the handler of the call under test (ss is nil for a unary call).
func (r *cancelRun) serve(ctx context.Context, ss grpc.ServerStream) error {
	defer close(r.handlerReturned)
	r.entry(ctx)
	close(r.entered)
	if ss != nil {
		// what the client has sent
		for i := 0; i < r.c.Sent; i++ {
			var in wrapperspb.StringValue
			if err := ss.RecvMsg(&in); err != nil {
				break // only when the context is over already (short deadline); judged below
			}
		}
	}
	w := ctx
	switch r.c.Watch {
	case "derived-done":
		var cancel context.CancelFunc
		w, cancel = context.WithCancel(ctx)
		defer cancel()
	case "derived-poll":
		var cancel context.CancelFunc
		w, cancel = context.WithTimeout(ctx, 2*time.Hour)
		defer cancel()
	}
	if w.Err() == nil {
		r.mu.Lock()
		r.liveAtReady = true
		r.mu.Unlock()
	}
	close(r.ready)
	switch r.c.Watch {
	case "done", "derived-done":
		r.judge(ctx, w, false)
	case "poll", "derived-poll":
		r.judge(ctx, w, true)
	case "recv":
		go r.judge(ctx, w, false)
		for {
			var in wrapperspb.StringValue
			if err := ss.RecvMsg(&in); err != nil {
				break
			}
		}
		// not back before the verdict: the return of the handler ends its context
		<-r.judged
	case "send":
		go r.judge(ctx, w, false)
	loop:
		for i := 0; i < sendCap; i++ {
			if err := ss.SendMsg(wrapperspb.String("resp")); err != nil {
				break
			}
			select {
			case <-r.judged:
				break loop
			default:
			}
		}
		<-r.judged
	}
	return errHandlerDone
}

// cancelEnv is the service of this part. cur is the case it serves (in-process:
// one channel per case); over bufconn, where one server serves all cases, the
// case is found by the id the caller put into its metadata.
type cancelEnv struct {
	cur    *cancelRun
	byID   sync.Map
	outerF func(ctx context.Context) // body of the outer handler (nested bases)
}

func (e *cancelEnv) find(ctx context.Context) *cancelRun {
	if e.cur != nil {
		return e.cur
	}
	md, _ := metadata.FromIncomingContext(ctx)
	for _, id := range md["c10-case-id"] {
		if v, ok := e.byID.Load(id); ok {
			return v.(*cancelRun)
		}
	}
	return nil
}

var errNoCase = fmt.Errorf("c10: handler cannot tell which case it serves")

func (e *cancelEnv) service() *common.Svc {
	stream := func(ss grpc.ServerStream) error {
		r := e.find(ss.Context())
		if r == nil {
			return errNoCase
		}
		return r.serve(ss.Context(), ss)
	}
	return &common.Svc{Name: "c10.K",
		Unary: map[string]common.UnaryFn{
			"U": func(ctx context.Context, dec func(interface{}) error) (interface{}, error) {
				var in wrapperspb.StringValue
				if err := dec(&in); err != nil {
					return nil, err
				}
				r := e.find(ctx)
				if r == nil {
					return nil, errNoCase
				}
				return nil, r.serve(ctx, nil)
			},
			"OuterU": func(ctx context.Context, dec func(interface{}) error) (interface{}, error) {
				var in wrapperspb.StringValue
				if err := dec(&in); err != nil {
					return nil, err
				}
				e.outerF(ctx)
				return wrapperspb.String("outer done"), nil
			},
		},
		Streams: map[string]common.StreamDef{
			"SS": {ServerStreams: true, Fn: stream},
			"CS": {ClientStreams: true, Fn: stream},
			"BS": {ClientStreams: true, ServerStreams: true, Fn: stream},
			"OuterSt": {ClientStreams: true, ServerStreams: true, Fn: func(s grpc.ServerStream) error {
				e.outerF(s.Context())
				return nil
			}},
		},
	}
}

func (e *cancelEnv) unaryIC(ctx context.Context, req interface{}, info *grpc.UnaryServerInfo, h grpc.UnaryHandler) (interface{}, error) {
	r := e.find(ctx)
	if r == nil || info.FullMethod != "/c10.K/U" {
		return h(ctx, req)
	}
	r.mu.Lock()
	r.icRan = true
	r.mu.Unlock()
	r.notBefore(ctx, "entry")
	resp, err := h(context.WithValue(ctx, icKey{}, "ic"), req)
	close(r.icDone)
	return resp, err
}

func (e *cancelEnv) streamIC(srv interface{}, ss grpc.ServerStream, info *grpc.StreamServerInfo, h grpc.StreamHandler) error {
	r := e.find(ss.Context())
	if r == nil || strings.HasPrefix(info.FullMethod, "/c10.K/Outer") {
		return h(srv, ss)
	}
	r.mu.Lock()
	r.icRan = true
	r.mu.Unlock()
	r.notBefore(ss.Context(), "entry")
	err := h(srv, &wrappedSS{ss, context.WithValue(ss.Context(), icKey{}, "ic")})
	close(r.icDone)
	return err
}

// buildCaller: base -> private value -> [deadline] -> cancellable A -> value,
// outgoing metadata -> cancellable B (the context passed to the call).
func (r *cancelRun) buildCaller(base context.Context) (ctx context.Context, end context.CancelFunc, cleanup func()) {
	ctx = context.WithValue(base, markerKey{}, r.marker)
	cancelDL := context.CancelFunc(func() {})
	switch {
	case r.c.End == "deadline":
		d := shortDeadline
		if r.reference {
			d = shortDeadlineRef
		}
		r.callerDeadline = time.Now().Add(d)
		ctx, cancelDL = context.WithDeadline(ctx, r.callerDeadline)
	case r.c.Deadline:
		r.callerDeadline = time.Now().Add(time.Hour)
		ctx, cancelDL = context.WithDeadline(ctx, r.callerDeadline)
	}
	ctx, cancelA := context.WithCancel(ctx)
	ctx = context.WithValue(ctx, ctxKey{1}, r.marker)
	ctx = metadata.NewOutgoingContext(ctx, metadata.Pairs("c10-case-id", r.id, "k", "v"))
	ctx, cancelB := context.WithCancel(ctx)
	r.callerCtx = ctx
	end = cancelB
	if r.c.Depth == "ancestor" {
		end = cancelA
	}
	return ctx, end, func() { cancelB(); cancelA(); cancelDL() }
}

func waitFor(ch <-chan struct{}, d time.Duration) bool {
	t := time.NewTimer(d)
	defer t.Stop()
	select {
	case <-ch:
		return true
	case <-t.C:
		return false
	}
}

// body makes the call under test from base and sees it through. release is
// called when the part of the case that needs a processor is over. unreached
// is true when (over a real connection only) the short deadline passed before
// the call got as far as the handler: that says nothing, the caller tries again.
func (r *cancelRun) body(cc grpc.ClientConnInterface, base context.Context, release func()) (unreached bool) {
	defer release()
	defer func() {
		if p := recover(); p != nil {
			r.add("panic", "", fmt.Sprintf("library panicked on the calling goroutine: %v", p))
		}
	}()
	ctx, end, cleanup := r.buildCaller(base)
	defer cleanup()
	var opts []grpc.CallOption
	if r.c.Creds {
		opts = append(opts, grpc.PerRPCCredentials(&perRPC{m: map[string]string{"creds-key": "c"}}))
	}
	clientDone := make(chan struct{}) // the caller's blocking call (Invoke, the RecvMsg loop) is over
	var clientErr error
	var cs grpc.ClientStream
	// tooEarly: the call is over and its handler is not ready. Only a call whose
	// (short) deadline has passed may be; it may then not have reached a handler at
	// all (a transport is free to refuse a call whose deadline has passed).
	tooEarly := func(what string, err error) (unreached bool) {
		if r.c.End != "deadline" || ctx.Err() == nil && !r.deadlinePassed() {
			r.fail(fmt.Sprintf("%s was over before the handler was ready: %v", what, err))
			return false
		}
		return !waitFor(r.ready, graceAfter)
	}
	if r.c.Kind == "unary" {
		go func() {
			defer close(clientDone)
			var out wrapperspb.StringValue
			clientErr = cc.Invoke(ctx, "/c10.K/U", wrapperspb.String("req"), &out, opts...)
		}()
	} else {
		desc := map[string]*grpc.StreamDesc{
			"server-stream": {StreamName: "SS", ServerStreams: true},
			"client-stream": {StreamName: "CS", ClientStreams: true},
			"bidi-stream":   {StreamName: "BS", ClientStreams: true, ServerStreams: true},
		}[r.c.Kind]
		var err error
		cs, err = cc.NewStream(ctx, desc, "/c10.K/"+desc.StreamName, opts...)
		if err != nil {
			// there is no stream, so no handler
			if r.c.End == "deadline" && (ctx.Err() != nil || r.deadlinePassed()) {
				return true
			}
			r.fail(fmt.Sprintf("NewStream: %v", err))
			return false
		}
		for i := 0; i < r.c.Sent && err == nil; i++ {
			err = cs.SendMsg(wrapperspb.String("req"))
		}
		if err == nil && r.c.HalfClosed {
			err = cs.CloseSend()
		}
		if err != nil && !(r.c.End == "deadline" && (ctx.Err() != nil || r.deadlinePassed())) {
			r.fail(fmt.Sprintf("SendMsg/CloseSend: %v", err))
			return false
		}
		if r.c.Client == "receiving" {
			go func() {
				defer close(clientDone)
				for {
					var out wrapperspb.StringValue
					if clientErr = cs.RecvMsg(&out); clientErr != nil {
						return
					}
				}
			}()
		} else {
			close(clientDone)
		}
	}
	// until the handler watches
	early := clientDone
	if r.c.Client == "idle" {
		early = nil
	}
	t := time.NewTimer(guard)
	defer t.Stop()
	select {
	case <-r.ready:
	case <-early:
		if tooEarly("the caller's Invoke / RecvMsg", clientErr) || r.failed() {
			return !r.failed()
		}
	case <-t.C:
		r.fail("hang: handler not ready")
		return false
	}
	// let the handler get to where it waits (no guarantee, and nothing depends on it)
	for i := 0; i < lookups; i++ {
		runtime.Gosched()
	}
	if r.c.End == "cancel" {
		end()
	}
	release()
	// the verdict is the handler's; its waits are bounded
	if !waitFor(r.judged, 2*guard+3*(endBound+graceAfter)) {
		r.fail("hang: the handler's bounded wait for the end of its context did not come back")
		return false
	}
	r.mu.Lock()
	ended := r.ended
	r.mu.Unlock()
	if ended {
		// everything else must unwind now; if it does not, that is not this property's business
		if !waitFor(r.handlerReturned, guard) {
			r.fail("hang: the handler's context ended, the handler did not come back from its stream operation")
			return false
		}
		if !waitFor(clientDone, guard) {
			r.fail("hang: the caller's context ended, the caller's Invoke / RecvMsg did not return")
			return false
		}
		if r.c.IC && !waitFor(r.icDone, guard) {
			r.fail("hang: the interceptor did not return")
			return false
		}
	}
	runtime.KeepAlive(cs) // (the in-process client stream has a finalizer that cancels the call)
	return false
}

// runCancelCase runs one case on a fresh in-process channel.
func runCancelCase(c cancelCase, release func()) *cancelRun {
	defer release()
	var r *cancelRun
	for attempt := 0; attempt < maxAttempts; attempt++ {
		rel := release
		if attempt > 0 {
			rel = func() {}
		}
		var unreached bool
		if r, unreached = runCancelOnce(c, rel); !unreached {
			return r
		}
	}
	r.fail(fmt.Sprintf("the short deadline passed %d times before the call reached its handler", maxAttempts))
	return r
}

const maxAttempts = 6

func runCancelOnce(c cancelCase, release func()) (r *cancelRun, unreached bool) {
	r = newCancelRun(c, false)
	e := &cancelEnv{cur: r}
	ch := &inprocgrpc.Channel{}
	if c.IC {
		ch.WithServerUnaryInterceptor(e.unaryIC).WithServerStreamInterceptor(e.streamIC)
	}
	ch.RegisterService(e.service().Desc(), common.Impl{})
	switch c.Base {
	case "background":
		unreached = r.body(ch, context.Background(), release)
	case "in-unary-handler", "in-stream-handler":
		var mu sync.Mutex
		e.outerF = func(ctx context.Context) {
			u := r.body(ch, ctx, release)
			mu.Lock()
			unreached = u
			mu.Unlock()
		}
		outer := metadata.AppendToOutgoingContext(context.WithValue(context.Background(), outerMarkerKey{}, new(int)), "outer-key", "o")
		done := make(chan error, 1)
		go func() {
			defer func() {
				if p := recover(); p != nil {
					done <- fmt.Errorf("panic: %v", p)
				}
			}()
			if c.Base == "in-unary-handler" {
				var out wrapperspb.StringValue
				done <- ch.Invoke(outer, "/c10.K/OuterU", wrapperspb.String("outer"), &out)
				return
			}
			cs, err := ch.NewStream(outer, &grpc.StreamDesc{StreamName: "OuterSt", ClientStreams: true, ServerStreams: true}, "/c10.K/OuterSt")
			if err != nil {
				done <- err
				return
			}
			_ = cs.CloseSend()
			var out wrapperspb.StringValue
			if err := cs.RecvMsg(&out); err != nil && err.Error() != "EOF" {
				done <- err
				return
			}
			done <- nil
		}()
		t := time.NewTimer(4*guard + 3*(endBound+graceAfter))
		select {
		case err := <-done:
			if err != nil {
				r.fail(fmt.Sprintf("outer call failed: %v", err))
			}
		case <-t.C:
			r.fail("hang: outer call did not return")
		}
		t.Stop()
		mu.Lock()
		u := unreached
		mu.Unlock()
		unreached = u
	default:
		r.fail("unknown base " + c.Base)
	}
	if unreached {
		return r, true
	}
	r.mu.Lock()
	defer r.mu.Unlock()
	select {
	case <-r.entered:
	default:
		if r.internal == "" {
			r.internal = "the handler never ran"
		}
	}
	if r.internal == "" && c.IC && !r.icRan {
		r.internal = "the interceptor never ran"
	}
	return r, false
}

// ---------------------------------------------------------------- reference: grpc-go over bufconn

type cancelRef struct {
	e   *cancelEnv
	cc  *grpc.ClientConn
	srv *grpc.Server
}

func newCancelRef(ic bool) (*cancelRef, error) {
	e := &cancelEnv{}
	var opts []grpc.ServerOption
	if ic {
		opts = append(opts, grpc.UnaryInterceptor(e.unaryIC), grpc.StreamInterceptor(e.streamIC))
	}
	srv := grpc.NewServer(opts...)
	srv.RegisterService(e.service().Desc(), common.Impl{})
	lis := bufconn.Listen(1 << 20)
	go srv.Serve(lis)
	cc, err := grpc.Dial("passthrough:///bufnet", grpc.WithContextDialer(func(ctx context.Context, _ string) (net.Conn, error) { return lis.DialContext(ctx) }),
		grpc.WithTransportCredentials(insecure.NewCredentials()))
	if err != nil {
		return nil, err
	}
	return &cancelRef{e: e, cc: cc, srv: srv}, nil
}

func (ref *cancelRef) run(c cancelCase, release func()) *cancelRun {
	var r *cancelRun
	for attempt := 0; attempt < maxAttempts; attempt++ {
		r = newCancelRun(c, true)
		ref.e.byID.Store(r.id, r)
		rel := release
		if attempt > 0 {
			rel = func() {}
		}
		unreached := r.body(ref.cc, context.Background(), rel)
		ref.e.byID.Delete(r.id)
		if !unreached {
			select {
			case <-r.entered:
			default:
				r.fail("the handler never ran")
			}
			return r
		}
	}
	r.fail(fmt.Sprintf("the short deadline passed %d times before the call reached the server", maxAttempts))
	return r
}

// ---------------------------------------------------------------- running the part

type cancelOutcome struct {
	c        cancelCase
	findings []finding
	internal string
	live     bool
	ended    bool
	lag      time.Duration
	skipped  bool
}

var aborted atomic.Bool // a case could not be decided: nothing more is started

func runCancelPart(cases []cancelCase, workers int, refs map[bool]*cancelRef) []cancelOutcome {
	out := make([]cancelOutcome, len(cases))
	sem := make(chan struct{}, workers)
	var wg sync.WaitGroup
	for i := range cases {
		sem <- struct{}{}
		if aborted.Load() {
			<-sem
			out[i] = cancelOutcome{c: cases[i], skipped: true}
			continue
		}
		wg.Add(1)
		go func(i int) {
			defer wg.Done()
			var once sync.Once
			release := func() { once.Do(func() { <-sem }) }
			defer release()
			var r *cancelRun
			if refs != nil {
				r = refs[cases[i].IC].run(cases[i], release)
			} else {
				r = runCancelCase(cases[i], release)
			}
			r.mu.Lock()
			out[i] = cancelOutcome{c: cases[i], findings: r.findings, internal: r.internal, live: r.liveAtReady, ended: r.ended, lag: r.lag}
			r.mu.Unlock()
			if out[i].internal != "" {
				aborted.Store(true)
			}
		}(i)
	}
	wg.Wait()
	return out
}

// ---------------------------------------------------------------- grouping

// A clause that fails in this part is reported once per (clause, RPC kind, how
// the caller's context ended). Every other axis of the grammar goes into the
// fingerprint only if it matters, i.e. if not every one of its values has a
// failing case; it is then named with the values that do.
type caxis struct {
	name string
	val  func(c cancelCase) string
	on   func(c cancelCase) bool
}

var cancelAxes = []caxis{
	{"handler", func(c cancelCase) string { return c.Watch }, nil},
	{"client", func(c cancelCase) string { return c.Client }, func(c cancelCase) bool { return c.Kind != "unary" }},
	{"client-sent", func(c cancelCase) string { return fmt.Sprint(c.Sent) }, func(c cancelCase) bool { return c.Kind == "client-stream" || c.Kind == "bidi-stream" }},
	{"half-closed", func(c cancelCase) string { return fmt.Sprint(c.HalfClosed) }, func(c cancelCase) bool { return c.Kind == "client-stream" || c.Kind == "bidi-stream" }},
	{"interceptors", func(c cancelCase) string { return fmt.Sprint(c.IC) }, nil},
	{"credentials", func(c cancelCase) string { return fmt.Sprint(c.Creds) }, nil},
	{"base", func(c cancelCase) string { return c.Base }, nil},
	{"far-deadline", func(c cancelCase) string { return fmt.Sprint(c.Deadline) }, func(c cancelCase) bool { return c.End == "cancel" }},
	{"cancelled-context", func(c cancelCase) string { return c.Depth }, func(c cancelCase) bool { return c.End == "cancel" }},
}

type cgroup struct {
	clause, kind, end string
	first             cancelCase
	detail            string
	failing           []cancelCase
}

func cancelFingerprint(g *cgroup, grammar []cancelCase) (fp string, matters []string) {
	fp = fmt.Sprintf("C10|%s|kind=%s|end=%s", g.clause, g.kind, g.end)
	for _, ax := range cancelAxes {
		all, bad := map[string]bool{}, map[string]bool{}
		for _, c := range grammar {
			if c.Kind == g.kind && c.End == g.end && (ax.on == nil || ax.on(c)) {
				all[ax.val(c)] = true
			}
		}
		for _, c := range g.failing {
			if ax.on == nil || ax.on(c) {
				bad[ax.val(c)] = true
			}
		}
		if len(all) == 0 || len(bad) == len(all) {
			continue
		}
		var vs []string
		for v := range bad {
			vs = append(vs, v)
		}
		sort.Strings(vs)
		fp += "|" + ax.name + "=" + strings.Join(vs, "+")
		matters = append(matters, ax.name)
	}
	return fp, matters
}

func groupCancel(outs []cancelOutcome) (groups map[string]*cgroup, order []string) {
	groups = map[string]*cgroup{}
	for _, o := range outs {
		seen := map[string]bool{}
		for _, f := range o.findings {
			k := f.Clause + "|" + o.c.Kind + "|" + o.c.End
			g := groups[k]
			if g == nil {
				g = &cgroup{clause: f.Clause, kind: o.c.Kind, end: o.c.End, first: o.c, detail: fmt.Sprintf("%s at instant %q [%s]: %s", f.Clause, f.When, o.c, f.Detail)}
				groups[k] = g
				order = append(order, k)
			}
			if !seen[k] {
				seen[k] = true
				g.failing = append(g.failing, o.c)
			}
		}
	}
	return groups, order
}

// replayCancel re-runs one case of this part.
func replayCancel(path string) {
	var c cancelCase
	if err := common.LoadReplay(path, &c); err != nil || c.Kind == "" {
		inconclusive(fmt.Sprintf("cannot load replay: %v", err))
	}
	measureControl()
	r := runCancelCase(c, func() {})
	if r.internal != "" {
		inconclusive(r.internal)
	}
	fmt.Printf("replay: %s: the handler's context was live when the handler began to watch it: %v; seen done after the end of the caller's: %v (%v after the handler's goroutine saw the caller's done; bound %v); %d clause(s) violated\n",
		c, r.liveAtReady, r.ended, r.lag.Round(time.Microsecond), endBound, len(r.findings))
	for _, f := range r.findings {
		fmt.Printf("  %s (%s, %s): %s\n", f.Clause, f.Where, f.When, f.Detail)
	}
	if len(r.findings) > 0 {
		fmt.Printf("VIOLATION property=C10 replay=%s\n", path)
		os.Exit(1)
	}
	os.Exit(0)
}
