package main

// The "metadata key alphabet" dimension: the caller's outgoing metadata is a
// set of header names chosen by the application, and nothing says that they
// look like "x-request-id". Keys that look like protocol headers (the grpc-
// prefix, the -bin suffix, HTTP header names, pseudo headers) are ordinary
// metadata unless the standard transport itself withholds them, which it does
// for a short fixed list only.
//
// Every key below is carried, alone and next to an ordinary key, by every
// non-empty set of sources {NewOutgoingContext, AppendToOutgoingContext,
// per-RPC credentials}, in lower-case and in mixed-case spelling, around each
// base case. Which keys the standard transport delivers is a table here
// (Withheld); the thorough tier checks every row of it, in both directions,
// against real grpc-go over bufconn: a forwarded key must arrive there exactly
// as the oracle demands, a withheld key must show none of the caller's values.
// For a withheld key nothing is demanded of the handler's incoming metadata
// in-process (the in-process channel may deliver it or not; the statement says
// "the caller's outgoing metadata", the network withholds these); the context
// returned by ClientContext must show it like every other key.

import (
	"sort"
	"strings"
)

type specialKey struct {
	Name string
	// Shape names what the key looks like; it is the part of the key that goes
	// into the fingerprint.
	Shape string
	// Withheld: grpc-go never delivers the caller's values under this key.
	Withheld bool
}

var keyAlphabet = []specialKey{
	// forwarded by the standard transport
	{"grpc-trace-bin", "grpc-prefix-bin", false},
	{"grpc-tags-bin", "grpc-prefix-bin", false},
	{"grpc-server-stats-bin", "grpc-prefix-bin", false},
	{"grpc-previous-rpc-attempts", "grpc-prefix", false},
	{"grpc-retry-pushback-ms", "grpc-prefix", false},
	{"grpc-accept-encoding", "grpc-prefix", false},
	{"grpc-gateway-user", "grpc-prefix", false},
	{"grpc-", "grpc-prefix", false},
	{"grpcish", "lookalike", false},
	{"authority", "lookalike", false},
	{"content-type-hint", "lookalike", false},
	{"x-user-agent", "lookalike", false},
	{"te-x", "lookalike", false},
	{"pickle-bin", "bin-suffix", false},
	{"content-length", "http-header", false},
	{"accept-encoding", "http-header", false},
	{"trailer", "http-header", false},
	// withheld by the standard transport (it sends its own, or nothing)
	{"content-type", "http-reserved", true},
	{"user-agent", "http-reserved", true},
	{"te", "http-reserved", true},
	{"grpc-timeout", "grpc-reserved", true},
	{"grpc-encoding", "grpc-reserved", true},
	{"grpc-status", "grpc-reserved", true},
	{"grpc-message", "grpc-reserved", true},
	{"grpc-message-type", "grpc-reserved", true},
	{"grpc-status-details-bin", "grpc-reserved", true},
	{":authority", "pseudo-header", true},
	{":path", "pseudo-header", true},
	{":custom", "pseudo-header", true},
}

const allKeys = "*"

func lookupKey(name string) (specialKey, bool) {
	for _, k := range keyAlphabet {
		if k.Name == name {
			return k, true
		}
	}
	return specialKey{}, false
}

// keyShape is the fingerprint part for a metadata key.
func keyShape(name string) string {
	if k, ok := lookupKey(name); ok {
		return k.Shape
	}
	return "ordinary"
}

func withheldKey(name string) bool {
	k, ok := lookupKey(name)
	return ok && k.Withheld
}

// spell: how a source writes a key when the case asks for mixed spelling. Every
// source has its own way; the metadata API lower-cases all of them.
func spell(key, source string, mixed bool) string {
	if !mixed {
		return key
	}
	switch source {
	case "app":
		return strings.ToUpper(key)
	case "creds":
		// first letter only
		for i := 0; i < len(key); i++ {
			if key[i] >= 'a' && key[i] <= 'z' {
				return key[:i] + strings.ToUpper(key[i:i+1]) + key[i+1:]
			}
		}
		return key
	}
	// new: every letter that starts a word
	b := []byte(key)
	start := true
	for i, ch := range b {
		if ch >= 'a' && ch <= 'z' {
			if start {
				b[i] = ch - 'a' + 'A'
			}
			start = false
		} else {
			start = true
		}
	}
	return string(b)
}

// keyValue is the i-th value a source gives to a key: all distinct; not
// printable for -bin keys (which the standard transport carries base64-coded).
func keyValue(key, source string, i int) string {
	v := source + "-value-" + string(rune('1'+i)) + "-of-" + strings.Trim(key, ":")
	if strings.HasSuffix(key, "-bin") {
		return "\x00\x01\xfe\xff" + v
	}
	return v
}

// (Not in the alphabet: keys that break a call over a real connection whoever
// sends them, such as connection or a repeated host.)

// keysOf lists the keys of the alphabet that a keys-part case puts into the
// given source. Withheld keys are never returned by the credentials: the
// standard transport puts what credentials return on the wire unfiltered, and
// a second content-type, a pseudo header after the regular ones or a malformed
// grpc-timeout break the connection (a faulty credentials implementation, not a
// caller's choice of metadata).
func keysOf(c kase, source string) []string {
	if !inSubset(c.Sources, source) {
		return nil
	}
	var names []string
	if c.Key == allKeys {
		for _, k := range keyAlphabet {
			names = append(names, k.Name)
		}
	} else {
		names = []string{c.Key}
	}
	var out []string
	for _, n := range names {
		if source == "creds" && withheldKey(n) {
			continue
		}
		out = append(out, n)
	}
	return out
}

// keyPairs is what a keys-part case gives to NewOutgoingContext (two values per
// key) or AppendToOutgoingContext (one).
func keyPairs(c kase, source string) []string {
	mixed := c.Spelling == "mixed"
	var kv []string
	if c.Companion && inSubset(c.Sources, source) {
		kv = append(kv, spell("ka", source, mixed), source+"-ka")
	}
	for _, k := range keysOf(c, source) {
		kv = append(kv, spell(k, source, mixed), keyValue(k, source, 0))
		if source == "new" {
			kv = append(kv, spell(k, source, mixed), keyValue(k, source, 1))
		}
	}
	return kv
}

func keyCredsMap(c kase) map[string]string {
	mixed := c.Spelling == "mixed"
	m := map[string]string{}
	if c.Companion {
		m[spell("ka", "creds", mixed)] = "creds-ka"
	}
	for _, k := range keysOf(c, "creds") {
		m[spell(k, "creds", mixed)] = keyValue(k, "creds", 0)
	}
	return m
}

var sourceSets = []string{"new", "app", "creds", "new+app", "new+creds", "app+creds", "new+app+creds"}

// keysGrammar: every key of the alphabet (and all of them at once) x every
// non-empty set of sources that carry it x {alone, next to the ordinary key ka}
// x lower/mixed spelling x both stacking orders, swept around every base case
// (base context, kind, interceptors, other layers none / all seven).
func keysGrammar(bases []string) []kase {
	others := []int{0, (1<<len(layerNames) - 1) &^ (bitOutgoingMD | bitOutgoingApp)}
	names := []string{}
	for _, k := range keyAlphabet {
		names = append(names, k.Name)
	}
	names = append(names, allKeys)
	var out []kase
	for _, base := range bases {
		for _, ic := range []bool{false, true} {
			for _, kind := range []string{"unary", "stream"} {
				for _, other := range others {
					for _, name := range names {
						for _, src := range sourceSets {
							if withheldKey(name) && inSubset(src, "creds") {
								continue
							}
							for _, comp := range []bool{false, true} {
								for _, sp := range []string{"lower", "mixed"} {
									for _, order := range []string{"up", "down"} {
										c := kase{Base: base, Layers: other, Order: order, Kind: kind, IC: ic, Part: "keys", Key: name, Sources: src, Companion: comp, Spelling: sp}
										if inSubset(src, "new") {
											c.Layers |= bitOutgoingMD
										}
										if inSubset(src, "app") {
											c.Layers |= bitOutgoingApp
										}
										if inSubset(src, "creds") {
											c.Creds = "keys"
										}
										out = append(out, c)
									}
								}
							}
						}
					}
				}
			}
		}
	}
	sort.SliceStable(out, func(i, j int) bool { return keysSize(out[i]) < keysSize(out[j]) })
	return out
}

func keysSize(c kase) int {
	n := popcount(c.Layers) + strings.Count(c.Sources, "+")
	if c.Key == allKeys {
		n += len(keyAlphabet)
	}
	if c.Companion {
		n++
	}
	if c.Spelling == "mixed" {
		n++
	}
	if c.Creds != "" {
		n++
	}
	return n
}
