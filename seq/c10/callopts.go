// The "call options" part of C10.
//
// Dimension: the CALL OPTIONS of the in-process call and what the caller does
// with the objects it handed to them. A call option hands the channel a pointer
// to an object the caller keeps: grpc.Peer(&p), grpc.Header(&h),
// grpc.Trailer(&t), and the map a grpc.PerRPCCredentials returns. The statement
// says that the handler's context exposes "an in-process peer" and the caller's
// outgoing metadata "exactly as if the call had crossed a network": so nothing
// the handler reads from its context may depend on an object the caller still
// holds. The other parts always pass one grpc.Peer target and never touch it.
//
// Grammar (all crossed; cases without any target are dropped):
//
//	RPC kind {unary, server-, client-, bidi-stream} x interceptors {no, yes}
//	x number of grpc.Peer targets {0, 1, 2} x grpc.Header+grpc.Trailer targets
//	{no, yes} x per-RPC credentials {no, yes}
//	x what the caller does with the targets {overwrites them, changes them in
//	  place, re-uses them for a call over another transport (grpc-go over
//	  bufconn), re-uses them for a call on another in-process channel}
//	x when {"during": while the handler is still running -- a stream whose
//	  handler is parked, a unary handler that outlives its cancelled Invoke;
//	  "between": after the call has ended, followed by a second call with the
//	  same targets}.
//
// Oracle, evaluated in the handler and in the interceptor before and after the
// caller's action: peer.FromContext is the in-process peer (the one an
// in-process call without any caller activity reports; over bufconn: the one
// seen at entry), the incoming metadata is what the caller's context and
// credentials carried when the call began, and the MD the handler passed to
// SendHeader / SetTrailer and kept is unchanged ("mutating the metadata on
// either side never affects the other").
//
// No wall-clock oracle: every wait is a hang guard (INCONCLUSIVE).
package main

import (
	"context"
	"fmt"
	"net"
	"os"
	"reflect"
	"sync"

	"google.golang.org/grpc"
	"google.golang.org/grpc/credentials/insecure"
	"google.golang.org/grpc/metadata"
	"google.golang.org/grpc/peer"
	"google.golang.org/grpc/test/bufconn"
	"google.golang.org/protobuf/types/known/wrapperspb"

	"github.com/fullstorydev/grpchan/inprocgrpc"

	"verif/seq/common"
)

type optsCase struct {
	Part  string `json:"part"`
	Kind  string `json:"kind"`
	IC    bool   `json:"interceptors"`
	Peers int    `json:"peer_targets"`
	HT    bool   `json:"header_trailer_targets"`
	Creds bool   `json:"per_rpc_credentials"`
	Act   string `json:"caller_action"`
	When  string `json:"when"`
}

func (c optsCase) String() string {
	return fmt.Sprintf("call-options part: %s, interceptors=%v, %d grpc.Peer target(s), grpc.Header/Trailer targets=%v, per-RPC credentials=%v; the caller %s %s",
		c.Kind, c.IC, c.Peers, c.HT, c.Creds, optsActText[c.Act], optsWhenText[c.When])
}

var optsActs = []string{"overwrite", "in-place", "other-transport", "other-inproc"}
var optsActText = map[string]string{
	"overwrite":       "overwrites its option targets",
	"in-place":        "changes its option targets in place",
	"other-transport": "re-uses its option targets for a call over grpc-go/bufconn",
	"other-inproc":    "re-uses its option targets for a call on another in-process channel",
}
var optsWhens = []string{"during", "between"}
var optsWhenText = map[string]string{
	"during":  "while the handler is still running",
	"between": "after the call has ended, then makes a second call with the same targets",
}

func optsGrammar() []optsCase {
	var out []optsCase
	for _, when := range optsWhens {
		for _, act := range optsActs {
			for _, peers := range []int{1, 0, 2} {
				for _, ht := range []bool{false, true} {
					for _, creds := range []bool{false, true} {
						if peers == 0 && !ht && !creds {
							continue
						}
						for _, kind := range cancelKinds {
							for _, ic := range []bool{false, true} {
								out = append(out, optsCase{Part: "callopts", Kind: kind, IC: ic, Peers: peers, HT: ht, Creds: creds, Act: act, When: when})
							}
						}
					}
				}
			}
		}
	}
	return out
}

// heldCreds returns the very map the caller holds.
type heldCreds struct {
	mu    sync.Mutex
	m     map[string]string
	calls int
}

func (h *heldCreds) GetRequestMetadata(ctx context.Context, uri ...string) (map[string]string, error) {
	h.mu.Lock()
	defer h.mu.Unlock()
	h.calls++
	return h.m, nil
}
func (h *heldCreds) RequireTransportSecurity() bool { return false }

type optsRun struct {
	c         optsCase
	reference bool

	mu       sync.Mutex
	findings []finding
	internal string
	looks    int
	callNo   int
	want     metadata.MD // what this call's handler has to see as incoming metadata
	refPeer  *peer.Peer  // reference mode: the peer seen first
	acted    bool

	entered chan struct{}
	goOn    chan struct{}
	done    chan struct{}
	park    bool
}

func (r *optsRun) add(clause, where, when, detail string) {
	r.mu.Lock()
	defer r.mu.Unlock()
	for _, f := range r.findings {
		if f.Clause == clause && f.Where == where && f.When == when {
			return
		}
	}
	r.findings = append(r.findings, finding{Clause: clause, Where: where, When: when, Detail: detail})
}

func (r *optsRun) fail(msg string) {
	r.mu.Lock()
	if r.internal == "" {
		r.internal = msg
	}
	r.mu.Unlock()
}

var (
	inprocPeerOnce sync.Once
	inprocPeer     peer.Peer
)

// the in-process peer, as an in-process call that nobody interferes with reports it
func learnInprocPeer() {
	inprocPeerOnce.Do(func() {
		ch := &inprocgrpc.Channel{}
		ch.RegisterService(otherService().Desc(), common.Impl{})
		var out wrapperspb.StringValue
		_ = ch.Invoke(context.Background(), "/c10.O/Echo", wrapperspb.String("probe"), &out, grpc.Peer(&inprocPeer))
	})
}

var optsKeys = []string{"ka", "kb", "kc", "kd"}

func optsOurs(md metadata.MD) metadata.MD {
	out := metadata.MD{}
	for _, k := range optsKeys {
		if v, ok := md[k]; ok {
			out[k] = append([]string(nil), v...)
		}
	}
	return out
}

func peerText(p *peer.Peer) string {
	if p == nil {
		return "<nil>"
	}
	a := "<nil>"
	if p.Addr != nil {
		a = p.Addr.Network() + ":" + p.Addr.String()
	}
	return fmt.Sprintf("{addr %s, auth info %T}", a, p.AuthInfo)
}

func (r *optsRun) instant() string {
	r.mu.Lock()
	defer r.mu.Unlock()
	switch {
	case r.callNo > 1:
		return "second call with the same targets"
	case r.acted:
		return "after the caller's action"
	}
	return "entry"
}

// look evaluates the oracle on a context of the handler side.
func (r *optsRun) look(ctx context.Context, where string) {
	when := r.instant()
	r.mu.Lock()
	r.looks++
	want := r.want
	r.mu.Unlock()
	p, ok := peer.FromContext(ctx)
	switch {
	case !ok || p == nil || p.Addr == nil:
		r.add("peer-missing", where, when, "no peer (or a peer without address) in the handler's context: "+peerText(p))
	case !r.reference:
		if p.Addr != inprocPeer.Addr || !reflect.DeepEqual(p.AuthInfo, inprocPeer.AuthInfo) {
			r.add("peer-not-inprocess", where, when, fmt.Sprintf("the peer in the handler's context is %s, the in-process peer is %s", peerText(p), peerText(&inprocPeer)))
		}
	default:
		r.mu.Lock()
		if r.refPeer == nil {
			cp := *p
			r.refPeer = &cp
		}
		first := r.refPeer
		r.mu.Unlock()
		if p.Addr.String() != first.Addr.String() || p.Addr.Network() != first.Addr.Network() || !reflect.DeepEqual(p.AuthInfo, first.AuthInfo) {
			r.add("peer-not-inprocess", where, when, fmt.Sprintf("the peer in the handler's context is %s, at entry it was %s", peerText(p), peerText(first)))
		}
	}
	in, _ := metadata.FromIncomingContext(ctx)
	if got := optsOurs(in); !mdEqual(got, want) {
		r.add("incoming-md", where, when, fmt.Sprintf("incoming metadata %s, the caller's context and credentials carried %s when the call began", mdString(got), mdString(want)))
	}
}

func (r *optsRun) checkKept(where string, hdr, tlr metadata.MD) {
	if !mdEqual(hdr, metadata.MD{"hk": {"h1", "h2"}}) {
		r.add("header-md-aliasing:caller->handler", where, r.instant(), "the MD the handler passed to SendHeader/SetHeader and kept is now "+mdString(hdr))
	}
	if !mdEqual(tlr, metadata.MD{"tk": {"t1", "t2"}}) {
		r.add("header-md-aliasing:caller->handler", where, r.instant(), "the MD the handler passed to SetTrailer and kept is now "+mdString(tlr))
	}
}

// serve is the body of every handler of the part.
func (r *optsRun) serve(ctx context.Context, setHeader, setTrailer func(metadata.MD) error) {
	r.look(ctx, "handler")
	hdr, tlr := metadata.MD{"hk": {"h1", "h2"}}, metadata.MD{"tk": {"t1", "t2"}}
	_ = setHeader(hdr)
	_ = setTrailer(tlr)
	if r.park {
		close(r.entered)
		if !wait(r.goOn) {
			r.fail("hang: the handler was never told to go on")
			return
		}
		r.look(ctx, "handler")
	}
	r.checkKept("handler", hdr, tlr)
}

func (r *optsRun) finished() {
	select {
	case r.done <- struct{}{}:
	default:
	}
}

func (r *optsRun) service() *common.Svc {
	s := &common.Svc{Name: "c10.P", Unary: map[string]common.UnaryFn{}, Streams: map[string]common.StreamDef{}}
	s.Unary["unary"] = func(ctx context.Context, dec func(interface{}) error) (interface{}, error) {
		if !r.c.IC {
			defer r.finished()
		}
		var in wrapperspb.StringValue
		if err := dec(&in); err != nil {
			return nil, err
		}
		r.serve(ctx, func(m metadata.MD) error { return grpc.SendHeader(ctx, m) }, func(m metadata.MD) error { return grpc.SetTrailer(ctx, m) })
		return wrapperspb.String("resp"), nil
	}
	for _, k := range cancelKinds[1:] {
		s.Streams[k] = common.StreamDef{ClientStreams: k != "server-stream", ServerStreams: k != "client-stream", Fn: func(ss grpc.ServerStream) error {
			if !r.c.IC {
				defer r.finished()
			}
			var in wrapperspb.StringValue
			if err := ss.RecvMsg(&in); err != nil {
				return err
			}
			r.serve(ss.Context(), ss.SendHeader, func(m metadata.MD) error { ss.SetTrailer(m); return nil })
			return ss.SendMsg(wrapperspb.String("resp"))
		}}
	}
	return s
}

func (r *optsRun) unaryIC(ctx context.Context, req interface{}, info *grpc.UnaryServerInfo, h grpc.UnaryHandler) (interface{}, error) {
	defer r.finished()
	r.look(ctx, "interceptor")
	v, err := h(ctx, req)
	r.look(ctx, "interceptor")
	return v, err
}

func (r *optsRun) streamIC(srv interface{}, ss grpc.ServerStream, info *grpc.StreamServerInfo, h grpc.StreamHandler) error {
	defer r.finished()
	r.look(ss.Context(), "interceptor")
	err := h(srv, ss)
	r.look(ss.Context(), "interceptor")
	return err
}

// ---- the other servers the caller re-uses its targets with

func otherService() *common.Svc {
	return &common.Svc{Name: "c10.O", Unary: map[string]common.UnaryFn{"Echo": func(ctx context.Context, dec func(interface{}) error) (interface{}, error) {
		var in wrapperspb.StringValue
		if err := dec(&in); err != nil {
			return nil, err
		}
		_ = grpc.SetHeader(ctx, metadata.MD{"ka": {"other-server-header"}, "ok": {"o"}})
		_ = grpc.SetTrailer(ctx, metadata.MD{"kb": {"other-server-trailer"}})
		return wrapperspb.String("other"), nil
	}}, Streams: map[string]common.StreamDef{}}
}

func bufServer(desc *grpc.ServiceDesc, opts ...grpc.ServerOption) (*grpc.ClientConn, func(), error) {
	srv := grpc.NewServer(opts...)
	srv.RegisterService(desc, common.Impl{})
	lis := bufconn.Listen(1 << 20)
	go srv.Serve(lis)
	cc, err := grpc.Dial("passthrough:///bufnet", grpc.WithContextDialer(func(ctx context.Context, _ string) (net.Conn, error) { return lis.DialContext(ctx) }),
		grpc.WithTransportCredentials(insecure.NewCredentials()))
	if err != nil {
		srv.Stop()
		return nil, nil, err
	}
	return cc, func() { cc.Close(); srv.Stop() }, nil
}

var (
	otherOnce sync.Once
	otherBuf  *grpc.ClientConn
	otherErr  error
	otherInp  *inprocgrpc.Channel
)

func others() error {
	otherOnce.Do(func() {
		otherBuf, _, otherErr = bufServer(otherService().Desc())
		otherInp = &inprocgrpc.Channel{}
		otherInp.RegisterService(otherService().Desc(), common.Impl{})
	})
	return otherErr
}

// ---- the caller

type optsTargets struct {
	peers []*peer.Peer
	hdr   *metadata.MD
	tlr   *metadata.MD
	creds *heldCreds
}

func (t *optsTargets) options() []grpc.CallOption {
	var o []grpc.CallOption
	for _, p := range t.peers {
		o = append(o, grpc.Peer(p))
	}
	if t.hdr != nil {
		o = append(o, grpc.Header(t.hdr), grpc.Trailer(t.tlr))
	}
	if t.creds != nil {
		o = append(o, grpc.PerRPCCredentials(t.creds))
	}
	return o
}

func (r *optsRun) act(t *optsTargets) {
	switch r.c.Act {
	case "overwrite":
		for i, p := range t.peers {
			*p = peer.Peer{Addr: &fakeAddr{fmt.Sprintf("caller-overwrote-%d", i)}, AuthInfo: &fakeAuth{"caller"}}
		}
		if t.hdr != nil {
			*t.hdr = metadata.MD{"ka": {"caller-overwrote-header"}, "hk": {"x"}}
			*t.tlr = metadata.MD{"kb": {"caller-overwrote-trailer"}, "tk": {"x"}}
		}
		if t.creds != nil {
			t.creds.mu.Lock()
			t.creds.m = map[string]string{"kc": "caller-overwrote-creds"}
			t.creds.mu.Unlock()
		}
	case "in-place":
		for i, p := range t.peers {
			p.Addr = &fakeAddr{fmt.Sprintf("caller-changed-%d", i)}
			p.AuthInfo = &fakeAuth{"caller"}
		}
		if t.hdr != nil {
			for _, m := range []*metadata.MD{t.hdr, t.tlr} {
				if *m == nil {
					*m = metadata.MD{}
				}
				for k, v := range *m {
					for i := range v {
						v[i] = "caller-changed-" + k
					}
					(*m)[k] = append(v, "caller-appended")
				}
				(*m)["ka"] = []string{"caller-added"}
				delete(*m, "hk")
			}
		}
		if t.creds != nil {
			t.creds.mu.Lock()
			t.creds.m["kc"] = "caller-changed-creds"
			t.creds.m["kd"] = "caller-added-creds"
			t.creds.mu.Unlock()
		}
	case "other-transport", "other-inproc":
		var cc grpc.ClientConnInterface = otherBuf
		if r.c.Act == "other-inproc" {
			cc = otherInp
		}
		var out wrapperspb.StringValue
		ctx := metadata.NewOutgoingContext(context.Background(), metadata.MD{"ka": {"other-call"}})
		if err := cc.Invoke(ctx, "/c10.O/Echo", wrapperspb.String("other"), &out, t.options()...); err != nil {
			r.fail("the caller's other call failed: " + err.Error())
		}
	}
	r.mu.Lock()
	r.acted = true
	r.mu.Unlock()
}

// one call of the case. parked: the caller acts while the handler is running.
func (r *optsRun) oneCall(cc grpc.ClientConnInterface, t *optsTargets, parked bool) {
	r.mu.Lock()
	r.callNo++
	r.park = parked
	r.entered, r.goOn = make(chan struct{}), make(chan struct{})
	want := metadata.MD{"ka": {"a1"}, "kb": {"b1", "b2"}}
	if t.creds != nil {
		t.creds.mu.Lock()
		for k, v := range t.creds.m {
			want[k] = append(want[k], v)
		}
		t.creds.mu.Unlock()
	}
	r.want = want
	r.mu.Unlock()
	ctx, cancel := context.WithCancel(metadata.NewOutgoingContext(context.Background(), metadata.MD{"ka": {"a1"}, "kb": {"b1", "b2"}}))
	defer cancel()
	method := "/c10.P/" + r.c.Kind
	released := false
	release := func() {
		if parked && !released {
			released = true
			close(r.goOn)
		}
	}
	defer release()

	if r.c.Kind == "unary" {
		ret := make(chan struct{})
		var err error
		go func() {
			defer close(ret)
			var out wrapperspb.StringValue
			err = cc.Invoke(ctx, method, wrapperspb.String("req"), &out, t.options()...)
		}()
		if parked {
			if !wait(r.entered) {
				r.fail("hang: the handler was not entered")
				return
			}
			cancel() // the handler outlives its cancelled Invoke
			if !wait(ret) {
				r.fail("hang: Invoke did not return after its context was cancelled")
				return
			}
			r.act(t)
			release()
		} else if !wait(ret) {
			r.fail("hang: Invoke did not return")
			return
		} else if err != nil {
			r.fail("Invoke failed: " + err.Error())
			return
		}
		if !wait(r.done) {
			r.fail("hang: the handler did not return")
		}
		return
	}
	cs, err := cc.NewStream(ctx, &grpc.StreamDesc{StreamName: r.c.Kind, ClientStreams: r.c.Kind != "server-stream", ServerStreams: r.c.Kind != "client-stream"}, method, t.options()...)
	if err != nil {
		r.fail("NewStream failed: " + err.Error())
		return
	}
	if err := cs.SendMsg(wrapperspb.String("req")); err != nil {
		r.fail("SendMsg failed: " + err.Error())
		return
	}
	_ = cs.CloseSend()
	if parked {
		if !wait(r.entered) {
			r.fail("hang: the handler was not entered")
			return
		}
		if t.hdr != nil {
			_, _ = cs.Header()
		}
		r.act(t)
		release()
	}
	drained := make(chan struct{})
	go func() {
		defer close(drained)
		for i := 0; i < 4; i++ {
			var out wrapperspb.StringValue
			if cs.RecvMsg(&out) != nil {
				return
			}
		}
	}()
	if !wait(drained) {
		r.fail("hang: the stream did not end")
		return
	}
	if !wait(r.done) {
		r.fail("hang: the handler did not return")
	}
}

func runOptsCase(c optsCase, reference bool) *optsRun {
	r := &optsRun{c: c, reference: reference, done: make(chan struct{}, 4)}
	if err := others(); err != nil {
		r.fail("bufconn server for the caller's other calls: " + err.Error())
		return r
	}
	learnInprocPeer()
	if inprocPeer.Addr == nil {
		r.fail("an undisturbed in-process call reported no peer")
		return r
	}
	var cc grpc.ClientConnInterface
	if reference {
		var so []grpc.ServerOption
		if c.IC {
			so = append(so, grpc.UnaryInterceptor(r.unaryIC), grpc.StreamInterceptor(r.streamIC))
		}
		bc, stop, err := bufServer(r.service().Desc(), so...)
		if err != nil {
			r.fail("bufconn reference: " + err.Error())
			return r
		}
		defer stop()
		cc = bc
	} else {
		ch := &inprocgrpc.Channel{}
		if c.IC {
			ch.WithServerUnaryInterceptor(r.unaryIC).WithServerStreamInterceptor(r.streamIC)
		}
		ch.RegisterService(r.service().Desc(), common.Impl{})
		cc = ch
	}
	t := &optsTargets{}
	for i := 0; i < c.Peers; i++ {
		t.peers = append(t.peers, &peer.Peer{})
	}
	if c.HT {
		t.hdr, t.tlr = &metadata.MD{}, &metadata.MD{}
	}
	if c.Creds {
		t.creds = &heldCreds{m: map[string]string{"kc": "creds-1"}}
	}
	func() {
		defer func() {
			if x := recover(); x != nil {
				r.add("panic", "caller", "", fmt.Sprintf("library panicked on the calling goroutine: %v", x))
			}
		}()
		if c.When == "during" {
			r.oneCall(cc, t, true)
			return
		}
		r.oneCall(cc, t, false)
		if r.internal != "" {
			return
		}
		r.act(t)
		r.oneCall(cc, t, false)
	}()
	r.mu.Lock()
	defer r.mu.Unlock()
	if r.internal == "" && r.looks == 0 {
		r.internal = "the handler never looked at its context"
	}
	if r.internal == "" && t.creds != nil && t.creds.calls == 0 {
		r.internal = "the per-RPC credentials were never asked for metadata"
	}
	return r
}

type optsOutcome struct {
	c        optsCase
	findings []finding
	internal string
	looks    int
}

func runOptsPart(cases []optsCase, workers int, reference bool) []optsOutcome {
	outs := make([]optsOutcome, len(cases))
	idx := make(chan int)
	var wg sync.WaitGroup
	for w := 0; w < workers; w++ {
		wg.Add(1)
		go func() {
			defer wg.Done()
			for i := range idx {
				r := runOptsCase(cases[i], reference)
				outs[i] = optsOutcome{c: cases[i], findings: r.findings, internal: r.internal, looks: r.looks}
			}
		}()
	}
	for i := range cases {
		idx <- i
	}
	close(idx)
	wg.Wait()
	return outs
}

type ogroup struct {
	first  optsCase
	detail string
	n      int
	acts   map[string]bool
	whens  map[string]bool
}

// groupOpts: one report per clause and RPC kind family; the replay is the first
// (simplest) failing case of the grammar.
func groupOpts(outs []optsOutcome) (map[string]*ogroup, []string) {
	groups := map[string]*ogroup{}
	var order []string
	for _, o := range outs {
		kf := "stream"
		if o.c.Kind == "unary" {
			kf = "unary"
		}
		for _, f := range o.findings {
			k := "callopts:" + f.Clause + "|kind=" + kf
			g := groups[k]
			if g == nil {
				g = &ogroup{first: o.c, detail: fmt.Sprintf("%s seen in the %s at instant %q [%s]: %s", f.Clause, f.Where, f.When, o.c, f.Detail), acts: map[string]bool{}, whens: map[string]bool{}}
				groups[k] = g
				order = append(order, k)
			}
			g.n++
			g.acts[o.c.Act] = true
			g.whens[o.c.When] = true
		}
	}
	return groups, order
}

func setNames(m map[string]bool) string {
	var s []string
	for k := range m {
		s = append(s, k)
	}
	for i := 1; i < len(s); i++ {
		for j := i; j > 0 && s[j] < s[j-1]; j-- {
			s[j], s[j-1] = s[j-1], s[j]
		}
	}
	return fmt.Sprint(s)
}

func replayOpts(path string) {
	var c optsCase
	if err := common.LoadReplay(path, &c); err != nil || c.Kind == "" {
		inconclusive(fmt.Sprintf("cannot load replay: %v", err))
	}
	r := runOptsCase(c, false)
	if r.internal != "" {
		inconclusive(r.internal)
	}
	fmt.Printf("replay: %s: %d look(s) at the handler side's context, %d clause(s) violated\n", c, r.looks, len(r.findings))
	for _, f := range r.findings {
		fmt.Printf("  %s (%s, %s): %s\n", f.Clause, f.Where, f.When, f.Detail)
	}
	if len(r.findings) > 0 {
		fmt.Printf("VIOLATION property=C10 replay=%s\n", path)
		os.Exit(1)
	}
	os.Exit(0)
}
