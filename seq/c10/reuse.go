package main

// The "moment of the call" dimension: what the handler sees is the caller's
// outgoing metadata as it was when the stub call (Invoke; NewStream plus, for a
// server-streaming stub, the request and CloseSend) was made, as if it had been
// written to a connection at that moment. A caller may keep the metadata.MD it
// gave to NewOutgoingContext and change it *immediately* after the stub call
// has returned, before doing anything that lets another goroutine run,
// typically because it re-uses one MD (and one context) for a series of calls
// with another value each.
//
// Grammar ("reuse" part): kind {unary, server-stream, client-stream,
// bidi-stream} x interceptors x series length {1, 2, 3} x {one context re-used,
// a new context made of the same MD for each call} x {MD alone, with appended
// pairs on top} x {no credentials, per-RPC credentials} x how the caller
// changes the MD after each stub call {Set, write into the value slice in
// place, add a key, delete a key, append a value} x when the caller completes
// the calls {each right after its change, all after the last change} x when
// the handler (and the interceptor) first looks at its metadata {at entry, only
// after the whole series through a context it kept}.
//
// The window between "the stub call returned" and "the caller changes the MD"
// has no width that could be hit by waiting, so it is pinned: the part runs in
// a child process of this binary with a single P (runtime.GOMAXPROCS(1)),
// asynchronous preemption and the garbage collector off. A goroutine that the
// call has started cannot run before the calling goroutine blocks or yields,
// and the caller does neither between the return of the stub and its change.
// Every case is run twice and the observations of the two runs must be
// identical. The child process also keeps a library that reads the caller's map
// late (a data race with more than one P, which the Go runtime may answer with
// "fatal error: concurrent map iteration and map write") from taking the check
// down with it.

import (
	"bufio"
	"bytes"
	"context"
	"encoding/json"
	"fmt"
	"io"
	"net"
	"os"
	"os/exec"
	"runtime"
	"runtime/debug"
	"strings"
	"time"

	"google.golang.org/grpc"
	"google.golang.org/grpc/credentials/insecure"
	"google.golang.org/grpc/metadata"
	"google.golang.org/grpc/test/bufconn"
	"google.golang.org/protobuf/types/known/wrapperspb"

	"github.com/fullstorydev/grpchan/inprocgrpc"

	"verif/seq/common"
)

const maxSeries = 3

type reuseCase struct {
	Part     string `json:"part"` // "reuse"
	Kind     string `json:"kind"` // unary | server-stream | client-stream | bidi-stream
	IC       bool   `json:"interceptors"`
	Calls    int    `json:"calls"`      // length of the series made with one MD
	Ctx      string `json:"context"`    // one-context | context-per-call
	Appended bool   `json:"appended"`   // AppendToOutgoingContext pairs on top of the MD
	Creds    bool   `json:"creds"`      // grpc.PerRPCCredentials call option
	Mutation string `json:"mutation"`   // set | in-place | add-key | delete-key | append-value
	Drain    string `json:"drain"`      // after-each | after-all
	Look     string `json:"first_look"` // entry | late
}

func (c reuseCase) String() string {
	return fmt.Sprintf("part=reuse kind=%s interceptors=%v calls-with-one-MD=%d %s appended-pairs=%v credentials=%v caller-changes-MD-right-after-each-stub-call-by=%s calls-completed=%s handler-first-looks-at-metadata=%s",
		c.Kind, c.IC, c.Calls, c.Ctx, c.Appended, c.Creds, c.Mutation, c.Drain, c.Look)
}

var reuseKinds = []string{"unary", "server-stream", "client-stream", "bidi-stream"}
var reuseMutations = []string{"set", "in-place", "add-key", "delete-key", "append-value"}

func reuseGrammar() []reuseCase {
	var out []reuseCase
	for calls := 1; calls <= maxSeries; calls++ {
		for _, kind := range reuseKinds {
			for _, ic := range []bool{false, true} {
				for _, cx := range []string{"one-context", "context-per-call"} {
					if calls == 1 && cx == "context-per-call" {
						continue // one call: the same thing
					}
					for _, app := range []bool{false, true} {
						for _, cr := range []bool{false, true} {
							for _, mu := range reuseMutations {
								for _, dr := range []string{"after-each", "after-all"} {
									if dr == "after-all" && (kind == "unary" || calls == 1) {
										continue // a unary stub call is complete when it returns
									}
									for _, look := range []string{"entry", "late"} {
										out = append(out, reuseCase{Part: "reuse", Kind: kind, IC: ic, Calls: calls, Ctx: cx, Appended: app, Creds: cr, Mutation: mu, Drain: dr, Look: look})
									}
								}
							}
						}
					}
				}
			}
		}
	}
	return out
}

// ---------------------------------------------------------------- one run of one case

type reuseRec struct {
	entry, ic, late       metadata.MD
	hasEntry, hasIC, done bool
}

type reuseRun struct {
	c        reuseCase
	rec      [maxSeries]reuseRec
	release  chan struct{}
	lateDone [maxSeries]chan struct{}
	internal string
}

func newReuseRun(c reuseCase) *reuseRun {
	r := &reuseRun{c: c, release: make(chan struct{})}
	for i := range r.lateDone {
		r.lateDone[i] = make(chan struct{})
	}
	return r
}

// ours: the part of a metadata that this part of the check is about (a real
// transport adds keys of its own).
func ours(md metadata.MD) metadata.MD {
	out := metadata.MD{}
	for k, v := range md {
		if k == "call-id" || k == "stable" || k == "app-key" || k == "creds-key" || strings.HasPrefix(k, "doomed-") || strings.HasPrefix(k, "added-") {
			out[k] = append([]string(nil), v...)
		}
	}
	return out
}

func (r *reuseRun) handle(i int, ctx context.Context) {
	if r.c.Look == "entry" {
		md, _ := metadata.FromIncomingContext(ctx)
		r.rec[i].entry, r.rec[i].hasEntry = ours(md), true
	}
	// work that the handler leaves behind keeps the context and looks (again)
	// when the caller is through with the whole series
	go func() {
		if !wait(r.release) {
			return
		}
		md, _ := metadata.FromIncomingContext(ctx)
		r.rec[i].late, r.rec[i].done = ours(md), true
		close(r.lateDone[i])
	}()
}

func slotOf(method string) int {
	return int(method[len(method)-1] - '0')
}

func (r *reuseRun) icLook(i int, ctx context.Context) {
	if r.c.Look == "entry" {
		md, _ := metadata.FromIncomingContext(ctx)
		r.rec[i].ic, r.rec[i].hasIC = ours(md), true
	}
}

// reuseEnv is the service; cur is the run it currently serves.
type reuseEnv struct{ cur *reuseRun }

func (e *reuseEnv) service() *common.Svc {
	s := &common.Svc{Name: "c10.R", Unary: map[string]common.UnaryFn{}, Streams: map[string]common.StreamDef{}}
	for i := 0; i < maxSeries; i++ {
		i := i
		s.Unary[fmt.Sprintf("U%d", i)] = func(ctx context.Context, dec func(interface{}) error) (interface{}, error) {
			var in wrapperspb.StringValue
			if err := dec(&in); err != nil {
				return nil, err
			}
			e.cur.handle(i, ctx)
			return wrapperspb.String("resp"), nil
		}
		s.Streams[fmt.Sprintf("S%d", i)] = common.StreamDef{ServerStreams: true, Fn: func(ss grpc.ServerStream) error {
			var in wrapperspb.StringValue
			if err := ss.RecvMsg(&in); err != nil {
				return err
			}
			e.cur.handle(i, ss.Context())
			return ss.SendMsg(wrapperspb.String("resp"))
		}}
		s.Streams[fmt.Sprintf("C%d", i)] = common.StreamDef{ClientStreams: true, Fn: func(ss grpc.ServerStream) error {
			e.cur.handle(i, ss.Context())
			for {
				var in wrapperspb.StringValue
				if err := ss.RecvMsg(&in); err == io.EOF {
					break
				} else if err != nil {
					return err
				}
			}
			return ss.SendMsg(wrapperspb.String("resp"))
		}}
		s.Streams[fmt.Sprintf("B%d", i)] = common.StreamDef{ClientStreams: true, ServerStreams: true, Fn: func(ss grpc.ServerStream) error {
			e.cur.handle(i, ss.Context())
			if err := ss.SendMsg(wrapperspb.String("resp")); err != nil {
				return err
			}
			for {
				var in wrapperspb.StringValue
				if err := ss.RecvMsg(&in); err == io.EOF {
					return nil
				} else if err != nil {
					return err
				}
			}
		}}
	}
	return s
}

func (e *reuseEnv) unaryIC(ctx context.Context, req interface{}, info *grpc.UnaryServerInfo, h grpc.UnaryHandler) (interface{}, error) {
	e.cur.icLook(slotOf(info.FullMethod), ctx)
	return h(ctx, req)
}

func (e *reuseEnv) streamIC(srv interface{}, ss grpc.ServerStream, info *grpc.StreamServerInfo, h grpc.StreamHandler) error {
	e.cur.icLook(slotOf(info.FullMethod), ss.Context())
	return h(srv, ss)
}

type reuseCreds struct{}

func (reuseCreds) GetRequestMetadata(ctx context.Context, uri ...string) (map[string]string, error) {
	return map[string]string{"Creds-Key": "c"}, nil
}
func (reuseCreds) RequireTransportSecurity() bool { return false }

// mutate is the change number j (1..calls) that the caller makes to its MD.
func mutate(md metadata.MD, how string, j int) {
	switch how {
	case "set":
		md.Set("call-id", fmt.Sprintf("id-%d", j))
	case "in-place":
		md["call-id"][0] = fmt.Sprintf("id-%d", j)
	case "add-key":
		md[fmt.Sprintf("added-%d", j)] = []string{"x"}
	case "delete-key":
		delete(md, fmt.Sprintf("doomed-%d", j))
	case "append-value":
		md["call-id"] = append(md["call-id"], fmt.Sprintf("id-%d", j))
	default:
		panic("mutation " + how)
	}
}

type reuseResult struct {
	// Obs: per call of the series, what was seen at each look
	Obs      []string  `json:"obs"`
	Findings []finding `json:"findings,omitempty"`
	Internal string    `json:"internal,omitempty"`
	Complete bool      `json:"complete"` // every look of every call of the series was made
}

// runReuse makes the series of calls of one case on cc. The code between a stub
// call and the change of the MD that follows it must not block, yield or
// allocate more than the change itself needs.
func runReuse(c reuseCase, cc grpc.ClientConnInterface, e *reuseEnv) (res reuseResult) {
	r := newReuseRun(c)
	e.cur = r
	defer func() {
		if p := recover(); p != nil {
			res.Findings = append(res.Findings, finding{Clause: "panic", Where: "caller", Detail: fmt.Sprintf("library panicked on the calling goroutine: %v", p)})
		}
	}()

	callID := make([]string, 1, 8) // spare capacity: an appended value lands in the same array
	callID[0] = "id-0"
	md := metadata.MD{"call-id": callID, "stable": {"s"}}
	for j := 1; j <= c.Calls; j++ {
		md[fmt.Sprintf("doomed-%d", j)] = []string{"d"}
	}
	base, cancel := context.WithCancel(context.Background())
	defer cancel()
	build := func() context.Context {
		ctx := metadata.NewOutgoingContext(base, md)
		if c.Appended {
			ctx = metadata.AppendToOutgoingContext(ctx, "App-Key", "a")
		}
		return ctx
	}
	var opts []grpc.CallOption
	if c.Creds {
		opts = append(opts, grpc.PerRPCCredentials(reuseCreds{}))
	}
	prefix := map[string]string{"unary": "U", "server-stream": "S", "client-stream": "C", "bidi-stream": "B"}[c.Kind]
	desc := map[string]*grpc.StreamDesc{
		"server-stream": {ServerStreams: true},
		"client-stream": {ClientStreams: true},
		"bidi-stream":   {ClientStreams: true, ServerStreams: true},
	}[c.Kind]

	var want [maxSeries]metadata.MD
	var streams [maxSeries]grpc.ClientStream
	finish := func(i int) bool {
		cs := streams[i]
		if c.Kind != "server-stream" {
			if err := cs.SendMsg(wrapperspb.String("req")); err != nil {
				r.internal = fmt.Sprintf("call %d: SendMsg: %v", i, err)
				return false
			}
			if err := cs.CloseSend(); err != nil {
				r.internal = fmt.Sprintf("call %d: CloseSend: %v", i, err)
				return false
			}
		}
		var out wrapperspb.StringValue
		if err := cs.RecvMsg(&out); err != nil {
			r.internal = fmt.Sprintf("call %d: RecvMsg: %v", i, err)
			return false
		}
		if c.Kind != "client-stream" {
			if err := cs.RecvMsg(&out); err != io.EOF {
				r.internal = fmt.Sprintf("call %d: second RecvMsg: %v, want EOF", i, err)
				return false
			}
		}
		return true
	}

	ctx := build()
	req := wrapperspb.String("req")
	for i := 0; i < c.Calls; i++ {
		if c.Ctx == "context-per-call" && i > 0 {
			ctx = build()
		}
		w, _ := metadata.FromOutgoingContext(ctx)
		want[i] = ours(w)
		if c.Creds {
			want[i]["creds-key"] = []string{"c"}
		}
		method := fmt.Sprintf("/c10.R/%s%d", prefix, i)
		next := i + 1
		if c.Kind == "unary" {
			var out wrapperspb.StringValue
			err := cc.Invoke(ctx, method, req, &out, opts...)
			mutate(md, c.Mutation, next) // right after the stub call returned
			if err != nil {
				res.Internal = fmt.Sprintf("call %d: Invoke: %v", i, err)
				return res
			}
			continue
		}
		cs, err := cc.NewStream(ctx, desc, method, opts...)
		if err == nil && c.Kind == "server-stream" {
			// what a generated server-streaming stub does before it returns
			if err = cs.SendMsg(req); err == nil {
				err = cs.CloseSend()
			}
		}
		mutate(md, c.Mutation, next) // right after the stub call returned
		if err != nil {
			res.Internal = fmt.Sprintf("call %d: stub: %v", i, err)
			return res
		}
		streams[i] = cs
		if c.Drain == "after-each" && !finish(i) {
			res.Internal = r.internal
			return res
		}
	}
	if c.Kind != "unary" && c.Drain == "after-all" {
		for i := 0; i < c.Calls; i++ {
			if !finish(i) {
				res.Internal = r.internal
				return res
			}
		}
	}
	close(r.release)
	for i := 0; i < c.Calls; i++ {
		if !wait(r.lateDone[i]) {
			res.Internal = fmt.Sprintf("hang: the handler of call %d never made its last look", i)
			return res
		}
	}
	// keep the streams reachable until here (the in-process client stream has a
	// finalizer that cancels the call)
	runtime.KeepAlive(&streams)

	res.Complete = true
	for i := 0; i < c.Calls; i++ {
		rec := &r.rec[i]
		obs := fmt.Sprintf("call %d made with %s:", i, mdString(want[i]))
		check := func(has bool, got metadata.MD, where, when string) {
			if !has {
				return
			}
			obs += fmt.Sprintf(" %s/%s saw %s;", where, when, mdString(got))
			if !mdEqual(got, want[i]) {
				res.Findings = append(res.Findings, finding{Clause: "md-aliasing:caller-after-call-returned->handler", Where: where, When: when,
					Detail: fmt.Sprintf("call %d of the series was made with outgoing metadata %s; the caller then changed its MD (%s) as soon as the stub call had returned; the %s sees %s", i, mdString(want[i]), c.Mutation, where, mdString(got))})
			}
		}
		if c.Look == "entry" && !rec.hasEntry || c.Look == "entry" && c.IC && !rec.hasIC || !rec.done {
			res.Complete = false
		}
		check(rec.hasIC, rec.ic, "interceptor", "entry")
		check(rec.hasEntry, rec.entry, "handler", "entry")
		check(rec.done, rec.late, "handler", "kept-context")
		res.Obs = append(res.Obs, obs)
	}
	return res
}

// ---------------------------------------------------------------- the pinned child process

type pinnedJob struct {
	Cases     []reuseCase `json:"cases"`
	Reference bool        `json:"reference"` // real grpc-go over bufconn instead of the in-process channel
}

type pinnedOut struct {
	Index int            `json:"index"`
	Runs  [2]reuseResult `json:"runs"`
	// Pairs: how many times the pair of runs was made (more than once only when
	// the two runs of a pair did not make identical observations)
	Pairs int `json:"pairs"`
}

const maxPairs = 4

func sameObs(a, b reuseResult) bool {
	return strings.Join(a.Obs, "\n") == strings.Join(b.Obs, "\n") && a.Internal == b.Internal
}

const pinnedFlag = "--c10-pinned-child"

// pinnedChildMain is the child process: single P, no GC, job on stdin, one
// line of JSON per case on stdout.
func pinnedChildMain() {
	runtime.GOMAXPROCS(1)
	debug.SetGCPercent(-1)
	var job pinnedJob
	if err := json.NewDecoder(os.Stdin).Decode(&job); err != nil {
		fmt.Fprintln(os.Stderr, "pinned child: cannot read the job:", err)
		os.Exit(2)
	}
	var refs [2]*reuseRef
	if job.Reference {
		for i, ic := range []bool{false, true} {
			r, err := newReuseRef(ic)
			if err != nil {
				fmt.Fprintln(os.Stderr, "pinned child: bufconn reference:", err)
				os.Exit(2)
			}
			refs[i] = r
		}
	}
	w := bufio.NewWriter(os.Stdout)
	enc := json.NewEncoder(w)
	for idx, c := range job.Cases {
		fmt.Fprintf(os.Stderr, "CASE %d\n", idx)
		out := pinnedOut{Index: idx}
		// A single P does not keep the Go runtime from asking a goroutine that has
		// been on the processor for 10 ms of wall time (which includes time the
		// operating system gave to other processes) to yield at its next function
		// call. Should that hit the pinned window, the two runs differ: the pair
		// is made again.
		for run := 0; run < 2; run++ {
			if run == 0 {
				out.Pairs++
			}
			// what earlier runs left behind (goroutines of the library that finish
			// after the caller has its answer) runs to its end first
			for i := 0; i < 200; i++ {
				runtime.Gosched()
			}
			done := make(chan reuseResult, 1)
			go func() {
				if job.Reference {
					ref := refs[0]
					if c.IC {
						ref = refs[1]
					}
					done <- runReuse(c, ref.cc, ref.e)
					return
				}
				e := &reuseEnv{}
				ch := &inprocgrpc.Channel{}
				if c.IC {
					ch.WithServerUnaryInterceptor(e.unaryIC).WithServerStreamInterceptor(e.streamIC)
				}
				ch.RegisterService(e.service().Desc(), common.Impl{})
				done <- runReuse(c, ch, e)
			}()
			t := time.NewTimer(2 * guard)
			select {
			case out.Runs[run] = <-done:
			case <-t.C:
				out.Runs[run] = reuseResult{Internal: "hang: the series of calls did not complete"}
			}
			t.Stop()
			if run == 1 && !sameObs(out.Runs[0], out.Runs[1]) && out.Pairs < maxPairs {
				run = -1
			}
		}
		if err := enc.Encode(out); err != nil {
			os.Exit(2)
		}
		w.Flush()
	}
	fmt.Fprintln(os.Stderr, "CASE done")
	os.Exit(0)
}

type reuseRef struct {
	e   *reuseEnv
	cc  *grpc.ClientConn
	srv *grpc.Server
}

func newReuseRef(ic bool) (*reuseRef, error) {
	e := &reuseEnv{}
	var opts []grpc.ServerOption
	if ic {
		opts = append(opts, grpc.UnaryInterceptor(e.unaryIC), grpc.StreamInterceptor(e.streamIC))
	}
	srv := grpc.NewServer(opts...)
	srv.RegisterService(e.service().Desc(), common.Impl{})
	lis := bufconn.Listen(1 << 20)
	go srv.Serve(lis)
	cc, err := grpc.Dial("passthrough:///bufnet", grpc.WithContextDialer(func(ctx context.Context, _ string) (net.Conn, error) { return lis.DialContext(ctx) }),
		grpc.WithTransportCredentials(insecure.NewCredentials()))
	if err != nil {
		return nil, err
	}
	return &reuseRef{e: e, cc: cc, srv: srv}, nil
}

// runPinned runs the cases in a child process. crash is non-empty when the
// child died: crashAt is then the index of the case it was running.
func runPinned(cases []reuseCase, reference bool) (outs []pinnedOut, crash string, crashAt int, err error) {
	exe, err := os.Executable()
	if err != nil {
		return nil, "", 0, err
	}
	job, _ := json.Marshal(pinnedJob{Cases: cases, Reference: reference})
	ctx, cancel := context.WithTimeout(context.Background(), 10*time.Minute) // hang guard
	defer cancel()
	cmd := exec.CommandContext(ctx, exe, pinnedFlag)
	cmd.Env = append(os.Environ(), "GOMAXPROCS=1", "GODEBUG=asyncpreemptoff=1")
	cmd.Stdin = bytes.NewReader(job)
	var stdout, stderr bytes.Buffer
	cmd.Stdout, cmd.Stderr = &stdout, &stderr
	runErr := cmd.Run()
	dec := json.NewDecoder(&stdout)
	for {
		var o pinnedOut
		if e := dec.Decode(&o); e != nil {
			break
		}
		outs = append(outs, o)
	}
	if runErr == nil && len(outs) == len(cases) {
		return outs, "", 0, nil
	}
	if ctx.Err() != nil {
		return outs, "", 0, fmt.Errorf("the pinned child process did not finish (hang guard)")
	}
	// the child died: find the case and the reason
	last := -1
	var reason []string
	for _, l := range strings.Split(stderr.String(), "\n") {
		if strings.HasPrefix(l, "CASE ") {
			fmt.Sscanf(l, "CASE %d", &last)
			continue
		}
		if len(reason) < 3 && (strings.HasPrefix(l, "fatal error:") || strings.HasPrefix(l, "panic:")) {
			reason = append(reason, strings.TrimSpace(l))
		}
	}
	if last < 0 || last >= len(cases) || len(reason) == 0 {
		tail := stderr.String()
		if len(tail) > 600 {
			tail = tail[len(tail)-600:]
		}
		return outs, "", 0, fmt.Errorf("the pinned child process failed (%v): %s", runErr, tail)
	}
	return outs, strings.Join(reason, "; "), last, nil
}

// ---------------------------------------------------------------- grouping, replay

// rgroup: a failing clause of the pinned part is reported once per (RPC kind,
// instant of the first look that shows it).
type rgroup struct {
	first     reuseCase
	detail    string
	n         int
	mutations map[string]bool
	unstable  bool
}

func groupReuse(c reuseCase, o pinnedOut, same bool, groups map[string]*rgroup, order *[]string) {
	for _, r := range o.Runs {
		for _, f := range r.Findings {
			// at entry (handler or interceptor), or only through the context that was kept
			when := "entry"
			if f.When == "kept-context" && c.Look == "late" {
				when = "first-look-after-the-series"
			} else if f.When == "kept-context" {
				continue // the same metadata was already seen wrong at entry
			}
			k := fmt.Sprintf("C10|%s|kind=%s|when=%s|where=handler|base=any", f.Clause, c.Kind, when)
			g := groups[k]
			if g == nil {
				g = &rgroup{first: c, detail: fmt.Sprintf("%s seen in the %s (%s) [%s]: %s", f.Clause, f.Where, f.When, c, f.Detail), mutations: map[string]bool{}}
				groups[k] = g
				*order = append(*order, k)
			}
			g.n++
			g.mutations[c.Mutation] = true
			if !same {
				g.unstable = true
			}
		}
	}
}

func (g *rgroup) what() string {
	var mus []string
	for _, m := range reuseMutations {
		if g.mutations[m] {
			mus = append(mus, m)
		}
	}
	note := ""
	if g.unstable {
		note = "; the two pinned runs of some of these cases did NOT make identical observations"
	}
	return fmt.Sprintf("%s [%d observations over the pinned grammar (single P, each case run twice); kinds of change of the MD that show it: %s%s; the replay is the simplest case]", g.detail, g.n, strings.Join(mus, ", "), note)
}

func crashFingerprint(c reuseCase) string {
	return fmt.Sprintf("C10|md-aliasing:caller-after-call-returned->handler|kind=%s|crash=concurrent-map-access|where=handler|base=any", c.Kind)
}

func crashWhat(c reuseCase, crash string) string {
	return fmt.Sprintf("the process died (%s) in [%s]: the caller's metadata map is read while the caller, whose stub call has returned, changes it", crash, c)
}

func keyAlphabetNames() []string {
	var out []string
	for _, k := range keyAlphabet {
		s := k.Name + " (" + k.Shape
		if k.Withheld {
			s += ", withheld by grpc-go"
		}
		out = append(out, s+")")
	}
	return out
}

// replayReuse re-runs one case of the pinned part (in the pinned child, twice).
func replayReuse(path string) {
	var c reuseCase
	if err := common.LoadReplay(path, &c); err != nil || c.Kind == "" {
		inconclusive(fmt.Sprintf("cannot load replay: %v", err))
	}
	outs, crash, _, err := runPinned([]reuseCase{c}, false)
	if err != nil {
		inconclusive(err.Error())
	}
	fmt.Printf("replay: %s\n", c)
	bad := false
	if crash != "" {
		fmt.Printf("  the pinned child process died: %s\n", crash)
		if !strings.Contains(crash, "concurrent map") {
			inconclusive("the pinned child process died: " + crash)
		}
		bad = true
	}
	for _, o := range outs {
		for i, r := range o.Runs {
			if r.Internal != "" {
				inconclusive(r.Internal)
			}
			fmt.Printf("  run %d: %d clause(s) violated\n", i+1, len(r.Findings))
			for _, l := range r.Obs {
				fmt.Printf("    %s\n", l)
			}
			for _, f := range r.Findings {
				fmt.Printf("    %s (%s, %s): %s\n", f.Clause, f.Where, f.When, f.Detail)
				bad = true
			}
		}
	}
	if bad {
		fmt.Printf("VIOLATION property=C10 replay=%s\n", path)
		os.Exit(1)
	}
	os.Exit(0)
}
