// C10: in-process handlers get metadata, peer, deadline and cancellation, but
// none of the caller's context values.
//
// Bounded-exhaustive: every subset of nine caller-context layers {string key,
// struct key, outgoing metadata (NewOutgoingContext), incoming metadata, peer,
// enclosing grpc.ServerTransportStream, appended outgoing pairs, context-typed
// value, peer with auth info} in two stacking orders x base context
// {background, inside an in-process unary handler, inside an in-process stream
// handler} x {deadline, none} x {unary, stream} x {with, without channel-level
// server interceptors}. The oracle runs inside the real handler (and inside the
// interceptor) of a real inprocgrpc.Channel call. In the thorough tier the same
// oracle (minus the in-process-only clauses) is first validated against real
// grpc-go over bufconn: a disagreement there is an error of the checker.
package main

import (
	"context"
	"fmt"
	"reflect"
	"sort"
	"strings"
	"sync"
	"time"

	"google.golang.org/grpc"
	"google.golang.org/grpc/codes"
	"google.golang.org/grpc/metadata"
	"google.golang.org/grpc/peer"
	"google.golang.org/grpc/status"
	"google.golang.org/protobuf/types/known/wrapperspb"

	"github.com/fullstorydev/grpchan/inprocgrpc"

	"verif/seq/common"
)

const guard = 30 * time.Second // hang guard only; nothing is decided by elapsed time

// outgoing-md is metadata.NewOutgoingContext alone (the caller keeps the map);
// outgoing-appended adds AppendToOutgoingContext pairs (grpc merges those into a
// fresh map, a different path); context-value is a caller value whose dynamic
// type is itself a context.Context carrying a value of its own; peer-auth is a
// caller peer that also carries authentication info (as the context of a
// handler served over TLS would).
var layerNames = []string{"string-key", "struct-key", "outgoing-md", "incoming-md", "peer", "transport-stream", "outgoing-appended", "context-value", "peer-auth"}

type kase struct {
	Base     string `json:"base"`   // background | in-unary-handler | in-stream-handler
	Layers   int    `json:"layers"` // bit i set = layerNames[i] present in the caller's context
	Order    string `json:"order"`  // up: layers applied 0..5 (deadline below them, cancel on top); down: 5..0 (cancel below, deadline on top)
	Deadline bool   `json:"deadline"`
	Kind     string `json:"kind"` // unary | stream
	IC       bool   `json:"interceptors"`
}

func (c kase) layerList() string {
	var l []string
	for i, n := range layerNames {
		if c.Layers&(1<<i) != 0 {
			l = append(l, n)
		}
	}
	if len(l) == 0 {
		return "none"
	}
	return strings.Join(l, "+")
}

func (c kase) String() string {
	return fmt.Sprintf("base=%s layers=%s order=%s deadline=%v kind=%s interceptors=%v", c.Base, c.layerList(), c.Order, c.Deadline, c.Kind, c.IC)
}

func (c kase) has(name string) bool {
	for i, n := range layerNames {
		if n == name {
			return c.Layers&(1<<i) != 0
		}
	}
	panic(name)
}

type markerKey struct{}
type outerMarkerKey struct{}
type icKey struct{}
type ctxKey struct{ n int }

type fakeAddr struct{ s string }

func (a *fakeAddr) Network() string { return "fake" }
func (a *fakeAddr) String() string  { return a.s }

type fakeAuth struct{ s string }

func (*fakeAuth) AuthType() string { return "fake-tls" }

type fakeSTS struct{}

func (*fakeSTS) Method() string               { return "/enclosing.Service/Method" }
func (*fakeSTS) SetHeader(metadata.MD) error  { return nil }
func (*fakeSTS) SendHeader(metadata.MD) error { return nil }
func (*fakeSTS) SetTrailer(metadata.MD) error { return nil }

type kv struct {
	layer string
	key   interface{}
	val   interface{}
}

type finding struct {
	Clause, Where, Detail string
}

type runState struct {
	c         kase
	method    string
	reference bool // real grpc over bufconn: in-process-only clauses are skipped
	innerCC   grpc.ClientConnInterface

	marker      *int
	outerMarker *int
	fakePeer    *peer.Peer   // the one visible in the caller's context (the last one applied)
	fakePeers   []*peer.Peer // every peer the caller stored
	fakeSTS     *fakeSTS
	origOut     metadata.MD // the map the caller handed to metadata.NewOutgoingContext
	values      []kv
	innerKeys   []interface{} // keys set only inside a context-typed caller value
	cleanup     []func()

	wantIncoming   metadata.MD // = the caller's outgoing metadata
	callerIncoming metadata.MD
	callerDeadline time.Time
	clientPeer     peer.Peer // what grpc.Peer(...) reported to the caller

	mu       sync.Mutex
	findings []finding
	internal string
	phases   int // handler phases completed: 1 static, 2 after caller-side mutation, 3 cancellation seen
	icRan    bool

	entered, proceed, cancelReady, handlerDone chan struct{}
}

func newState(c kase, reference bool) *runState {
	m := map[string]string{"unary": "/c10.S/U", "stream": "/c10.S/St"}[c.Kind]
	return &runState{c: c, method: m, reference: reference, marker: new(int), outerMarker: new(int),
		entered: make(chan struct{}), proceed: make(chan struct{}), cancelReady: make(chan struct{}), handlerDone: make(chan struct{})}
}

func (st *runState) add(clause, where, detail string) {
	st.mu.Lock()
	defer st.mu.Unlock()
	st.findings = append(st.findings, finding{clause, where, detail})
}

func (st *runState) fail(msg string) {
	st.mu.Lock()
	defer st.mu.Unlock()
	if st.internal == "" {
		st.internal = msg
	}
}

func mdEqual(a, b metadata.MD) bool {
	if len(a) != len(b) {
		return false
	}
	for k, v := range a {
		if !reflect.DeepEqual(v, b[k]) {
			return false
		}
	}
	return true
}

func mdString(m metadata.MD) string {
	var ks []string
	for k := range m {
		ks = append(ks, k)
	}
	sort.Strings(ks)
	var sb strings.Builder
	sb.WriteString("{")
	for _, k := range ks {
		fmt.Fprintf(&sb, "%s=%v ", k, m[k])
	}
	return strings.TrimSpace(sb.String()) + "}"
}

// ---------------------------------------------------------------- caller side

func (st *runState) applyLayer(ctx context.Context, i int) context.Context {
	switch layerNames[i] {
	case "string-key":
		v1, v2 := new(int), new(int)
		st.values = append(st.values, kv{"string-key", "user-key", v1}, kv{"string-key", "holds a client context", v2})
		return context.WithValue(context.WithValue(ctx, "user-key", v1), "holds a client context", v2)
	case "struct-key":
		v := new(int)
		st.values = append(st.values, kv{"struct-key", ctxKey{7}, v})
		return context.WithValue(ctx, ctxKey{7}, v)
	case "outgoing-md":
		st.origOut = metadata.Pairs("out-key", "a", "out-key", "b", "shared-key", "from-outgoing", "out-doomed", "d")
		return metadata.NewOutgoingContext(ctx, st.origOut)
	case "outgoing-appended":
		return metadata.AppendToOutgoingContext(ctx, "out-appended", "x", "shared-key", "from-appended")
	case "context-value":
		inner := new(int)
		app := context.WithValue(context.Background(), ctxKey{11}, inner)
		app2, cancelApp := context.WithCancel(context.WithValue(context.Background(), "app-inner", inner))
		st.cleanup = append(st.cleanup, cancelApp)
		st.values = append(st.values, kv{"context-value", ctxKey{9}, app}, kv{"context-value", "app-context", app2})
		st.innerKeys = append(st.innerKeys, ctxKey{11}, "app-inner")
		return context.WithValue(context.WithValue(ctx, ctxKey{9}, app), "app-context", app2)
	case "incoming-md":
		return metadata.NewIncomingContext(ctx, metadata.Pairs("in-key", "i", "shared-key", "from-incoming"))
	case "peer":
		st.fakePeer = &peer.Peer{Addr: &fakeAddr{"198.51.100.7:4242"}}
		st.fakePeers = append(st.fakePeers, st.fakePeer)
		return peer.NewContext(ctx, st.fakePeer)
	case "peer-auth":
		st.fakePeer = &peer.Peer{Addr: &fakeAddr{"203.0.113.9:443"}, AuthInfo: &fakeAuth{"caller's TLS session"}}
		st.fakePeers = append(st.fakePeers, st.fakePeer)
		return peer.NewContext(ctx, st.fakePeer)
	case "transport-stream":
		st.fakeSTS = &fakeSTS{}
		return grpc.NewContextWithServerTransportStream(ctx, st.fakeSTS)
	}
	panic("layer")
}

func (st *runState) buildCaller(base context.Context) (context.Context, context.CancelFunc) {
	ctx := context.WithValue(base, markerKey{}, st.marker)
	var cancel context.CancelFunc
	var cancelDL context.CancelFunc = func() {}
	deadline := func() {
		if st.c.Deadline {
			st.callerDeadline = time.Now().Add(time.Hour)
			ctx, cancelDL = context.WithDeadline(ctx, st.callerDeadline)
		}
	}
	if st.c.Order == "up" {
		deadline()
		for i := range layerNames {
			if st.c.Layers&(1<<i) != 0 {
				ctx = st.applyLayer(ctx, i)
			}
		}
		ctx, cancel = context.WithCancel(ctx)
	} else {
		ctx, cancel = context.WithCancel(ctx)
		for i := len(layerNames) - 1; i >= 0; i-- {
			if st.c.Layers&(1<<i) != 0 {
				ctx = st.applyLayer(ctx, i)
			}
		}
		deadline()
	}
	st.wantIncoming, _ = metadata.FromOutgoingContext(ctx)
	st.callerIncoming, _ = metadata.FromIncomingContext(ctx)
	return ctx, func() {
		cancel()
		cancelDL()
		for _, f := range st.cleanup {
			f()
		}
	}
}

func (st *runState) call(cc grpc.ClientConnInterface, ctx context.Context) error {
	if st.c.Kind == "unary" {
		var out wrapperspb.StringValue
		return cc.Invoke(ctx, st.method, wrapperspb.String("req"), &out, grpc.Peer(&st.clientPeer))
	}
	cs, err := cc.NewStream(ctx, &grpc.StreamDesc{StreamName: "St", ClientStreams: true, ServerStreams: true}, st.method, grpc.Peer(&st.clientPeer))
	if err != nil {
		return err
	}
	_ = cs.CloseSend()
	var out wrapperspb.StringValue
	return cs.RecvMsg(&out)
}

func wait(ch <-chan struct{}) bool {
	t := time.NewTimer(guard)
	defer t.Stop()
	select {
	case <-ch:
		return true
	case <-t.C:
		return false
	}
}

// drive makes the call under test from the given base context and steps the
// handler through its three phases.
func (st *runState) drive(cc grpc.ClientConnInterface, base context.Context) {
	ctx, cancel := st.buildCaller(base)
	defer cancel()
	callDone := make(chan struct{})
	var callErr error
	go func() { defer close(callDone); callErr = st.call(cc, ctx) }()

	t := time.NewTimer(guard)
	defer t.Stop()
	select {
	case <-st.entered:
	case <-callDone:
		st.fail(fmt.Sprintf("the call ended before the handler was entered: %v", callErr))
		return
	case <-t.C:
		st.fail("hang: handler not entered")
		return
	}
	// the handler has scribbled on the metadata it was given; the caller's must be as built
	if now, _ := metadata.FromOutgoingContext(ctx); !mdEqual(now, st.wantIncoming) {
		st.add("md-aliasing:handler->caller", "caller", fmt.Sprintf("caller's outgoing metadata is now %s, was %s", mdString(now), mdString(st.wantIncoming)))
	}
	// now the caller scribbles on the map it had handed to NewOutgoingContext
	for _, v := range st.origOut {
		if len(v) > 0 {
			v[0] = "CALLER-MUTATED"
		}
	}
	if st.origOut != nil {
		st.origOut.Set("caller-added", "late")
		st.origOut.Set("out-key", "replaced")
		delete(st.origOut, "out-doomed")
	}
	close(st.proceed)
	if !wait(st.cancelReady) {
		st.fail("hang: handler did not reach the cancellation phase")
		return
	}
	cancel()
	// the handler itself reports a cancellation that never arrives (after the guard)
	t2 := time.NewTimer(2 * guard)
	defer t2.Stop()
	select {
	case <-st.handlerDone:
	case <-t2.C:
		st.fail("hang: handler did not return")
		return
	}
	if !wait(callDone) {
		st.fail("hang: the call did not return after the handler did")
	}
}

// ---------------------------------------------------------------- handler side

// static is the part of the oracle that only looks at the context.
func (st *runState) static(ctx context.Context, where string) {
	add := func(clause, detail string) { st.add(clause, where, detail) }
	if v := ctx.Value(markerKey{}); v != nil {
		add("value-leak:private-key", "the caller's marker value is visible through ctx.Value")
	}
	for _, e := range st.values {
		if v := ctx.Value(e.key); v != nil {
			add("value-leak:"+e.layer, fmt.Sprintf("ctx.Value(%#v) is not nil (it is the caller's value: %v)", e.key, v == e.val))
		}
	}
	for _, k := range st.innerKeys {
		if v := ctx.Value(k); v != nil {
			add("value-leak:context-value", fmt.Sprintf("ctx.Value(%#v) is not nil: a value stored only inside a context-typed caller value is visible", k))
		}
	}
	if md, ok := metadata.FromOutgoingContext(ctx); ok && len(md) > 0 {
		add("value-leak:outgoing-md", "handler context carries outgoing metadata "+mdString(md))
	}
	in, _ := metadata.FromIncomingContext(ctx)
	for k, want := range st.wantIncoming {
		if !reflect.DeepEqual(in[k], want) { // the text does not depend on which key differs
			add("incoming-md-mismatch", fmt.Sprintf("incoming metadata %s does not carry the caller's outgoing %s", mdString(in), mdString(st.wantIncoming)))
			break
		}
	}
	var inKeys []string
	for k := range st.callerIncoming {
		inKeys = append(inKeys, k)
	}
	sort.Strings(inKeys)
	for _, k := range inKeys {
		if _, sent := st.wantIncoming[k]; !sent {
			if _, leaked := in[k]; leaked {
				add("incoming-md-leak", fmt.Sprintf("incoming metadata %s shows key %q of the caller's own incoming metadata", mdString(in), k))
				break
			}
		}
	}
	p, ok := peer.FromContext(ctx)
	switch {
	case !ok || p == nil || p.Addr == nil:
		add("peer-missing", "no peer in the handler context")
	case st.leaksPeer(p) != "":
		add(st.leaksPeer(p), "handler's peer carries what the caller's context stored as peer: addr "+p.Addr.String()+fmt.Sprintf(", auth info %T", p.AuthInfo))
	case !st.reference && (st.clientPeer.Addr == nil || p.Addr != st.clientPeer.Addr):
		add("peer-not-inprocess", fmt.Sprintf("handler's peer %v is not the in-process peer reported to the caller (%v)", p.Addr, st.clientPeer.Addr))
	}
	if ok && p != nil && !st.reference && !reflect.DeepEqual(p.AuthInfo, st.clientPeer.AuthInfo) && st.leaksPeer(p) == "" {
		add("peer-not-inprocess", fmt.Sprintf("handler's peer auth info (%T) is not the one reported to the caller through grpc.Peer (%T)", p.AuthInfo, st.clientPeer.AuthInfo))
	}
	if sts := grpc.ServerTransportStreamFromContext(ctx); sts == nil {
		add("transport-stream-missing", "no ServerTransportStream in the handler context")
	} else if sts.Method() != st.method || (st.fakeSTS != nil && sts == grpc.ServerTransportStream(st.fakeSTS)) {
		add("transport-stream-leak", fmt.Sprintf("ServerTransportStream.Method() = %q, this call is %q", sts.Method(), st.method))
	}
	d, ok := ctx.Deadline()
	switch {
	case st.c.Deadline && !ok:
		add("deadline-lost", "caller has a deadline, handler context has none")
	case st.c.Deadline && !st.reference && !d.Equal(st.callerDeadline):
		add("deadline-mismatch", fmt.Sprintf("handler deadline differs from the caller's by %v", d.Sub(st.callerDeadline)))
	case !st.c.Deadline && ok:
		add("deadline-invented", "caller has no deadline, handler context has one")
	}
	if err := ctx.Err(); err != nil {
		add("spurious-cancel", "handler context already done: "+err.Error())
	}
	if st.reference {
		return
	}
	// the sanctioned back-door
	cc := inprocgrpc.ClientContext(ctx)
	if cc == nil {
		add("client-context-missing", "ClientContext(ctx) is nil")
		return
	}
	if cc.Value(markerKey{}) != interface{}(st.marker) {
		add("client-context-wrong", "ClientContext(ctx) is not the context the caller passed (marker value differs)")
	}
	for _, e := range st.values {
		if cc.Value(e.key) != e.val {
			add("client-context-incomplete", fmt.Sprintf("ClientContext(ctx).Value(%#v) is not the caller's value", e.key))
		}
	}
	if st.fakePeer != nil {
		if p, _ := peer.FromContext(cc); p != st.fakePeer {
			add("client-context-incomplete", "ClientContext(ctx) does not carry the caller's peer")
		}
	}
	if st.fakeSTS != nil {
		if s := grpc.ServerTransportStreamFromContext(cc); s != grpc.ServerTransportStream(st.fakeSTS) {
			add("client-context-incomplete", "ClientContext(ctx) does not carry the caller's enclosing ServerTransportStream")
		}
	}
	if out, _ := metadata.FromOutgoingContext(cc); !mdEqual(out, st.wantIncoming) {
		add("client-context-incomplete", "ClientContext(ctx) outgoing metadata "+mdString(out)+" differs from the caller's "+mdString(st.wantIncoming))
	}
	if inc, _ := metadata.FromIncomingContext(cc); !mdEqual(inc, st.callerIncoming) {
		add("client-context-incomplete", "ClientContext(ctx) incoming metadata "+mdString(inc)+" differs from the caller's "+mdString(st.callerIncoming))
	}
	if st.c.Base != "background" {
		// the caller was itself a handler: its own client context must still be reachable through the chain
		outer := inprocgrpc.ClientContext(cc)
		if outer == nil || outer.Value(outerMarkerKey{}) != interface{}(st.outerMarker) {
			add("client-context-chain", "ClientContext(ClientContext(ctx)) is not the outer caller's context")
		}
		if ctx.Value(outerMarkerKey{}) != nil {
			add("value-leak:private-key", "the outer caller's marker value is visible through ctx.Value")
		}
	}
}

// leaksPeer: does the handler's peer show anything of a peer the caller stored in its context?
func (st *runState) leaksPeer(p *peer.Peer) string {
	for _, f := range st.fakePeers {
		if p == f || p.Addr == f.Addr {
			return "peer-leak"
		}
		if f.AuthInfo != nil && p.AuthInfo == f.AuthInfo {
			return "peer-authinfo-leak"
		}
	}
	return ""
}

func (st *runState) handle(ctx context.Context) error {
	defer close(st.handlerDone)
	add := func(clause, detail string) { st.add(clause, "handler", detail) }
	st.static(ctx, "handler")
	snap, _ := metadata.FromIncomingContext(ctx)
	mine, _ := metadata.FromIncomingContext(ctx)
	for _, v := range mine {
		if len(v) > 0 {
			v[0] = "HANDLER-MUTATED"
		}
	}
	if mine != nil {
		mine["handler-added"] = []string{"x"}
	}
	if again, _ := metadata.FromIncomingContext(ctx); !mdEqual(snap, again) {
		add("md-aliasing:handler-view", "mutating the metadata returned to the handler changed the handler context's metadata")
	}
	st.phases = 1
	close(st.entered)
	if !wait(st.proceed) {
		st.fail("hang: harness did not let the handler proceed")
		return status.Error(codes.Aborted, "checker")
	}
	if after, _ := metadata.FromIncomingContext(ctx); !mdEqual(snap, after) {
		add("md-aliasing:caller->handler", fmt.Sprintf("after the caller mutated its metadata map the handler sees %s, before %s", mdString(after), mdString(snap)))
	}
	if err := ctx.Err(); err != nil {
		add("spurious-cancel", "handler context done before the caller cancelled: "+err.Error())
	}
	st.phases = 2
	close(st.cancelReady)
	t := time.NewTimer(guard)
	defer t.Stop()
	select {
	case <-ctx.Done():
		if ctx.Err() != context.Canceled {
			add("cancel-wrong-error", fmt.Sprintf("after the caller's cancel, ctx.Err() = %v", ctx.Err()))
		}
		st.phases = 3
	case <-t.C:
		add("cancel-not-propagated", "the caller cancelled its context; the handler context is still not done after the hang guard")
	}
	return status.Error(codes.Aborted, "c10 handler done")
}

type wrappedSS struct {
	grpc.ServerStream
	ctx context.Context
}

func (w *wrappedSS) Context() context.Context { return w.ctx }

// env holds the state of the case currently running on a service instance.
type env struct{ cur *runState }

func (e *env) service() *common.Svc {
	return &common.Svc{Name: "c10.S",
		Unary: map[string]common.UnaryFn{
			"U": func(ctx context.Context, dec func(interface{}) error) (interface{}, error) {
				var in wrapperspb.StringValue
				if err := dec(&in); err != nil {
					return nil, err
				}
				return nil, e.cur.handle(ctx)
			},
			"OuterU": func(ctx context.Context, dec func(interface{}) error) (interface{}, error) {
				var in wrapperspb.StringValue
				if err := dec(&in); err != nil {
					return nil, err
				}
				e.cur.drive(e.cur.innerCC, ctx)
				return wrapperspb.String("outer done"), nil
			},
		},
		Streams: map[string]common.StreamDef{
			"St": {ClientStreams: true, ServerStreams: true, Fn: func(s grpc.ServerStream) error { return e.cur.handle(s.Context()) }},
			"OuterSt": {ClientStreams: true, ServerStreams: true, Fn: func(s grpc.ServerStream) error {
				e.cur.drive(e.cur.innerCC, s.Context())
				return nil
			}},
		},
	}
}

func (e *env) unaryIC(ctx context.Context, req interface{}, info *grpc.UnaryServerInfo, h grpc.UnaryHandler) (interface{}, error) {
	if info.FullMethod == e.cur.method {
		e.cur.icRan = true
		e.cur.static(ctx, "interceptor")
	}
	return h(context.WithValue(ctx, icKey{}, "ic"), req)
}

func (e *env) streamIC(srv interface{}, ss grpc.ServerStream, info *grpc.StreamServerInfo, h grpc.StreamHandler) error {
	if info.FullMethod == e.cur.method {
		e.cur.icRan = true
		e.cur.static(ss.Context(), "interceptor")
	}
	return h(srv, &wrappedSS{ss, context.WithValue(ss.Context(), icKey{}, "ic")})
}
