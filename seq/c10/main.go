// C10: in-process handlers get metadata, peer, deadline and cancellation, but
// none of the caller's context values.
//
// Bounded-exhaustive. The "context" grammar: every subset of nine
// caller-context layers {string key, struct key, outgoing metadata
// (NewOutgoingContext), incoming metadata, peer, enclosing
// grpc.ServerTransportStream, appended outgoing pairs, context-typed value,
// peer with auth info} in two stacking orders x base context {background,
// inside an in-process unary handler, inside an in-process stream handler} x
// {unary, stream} x {with, without channel-level server interceptors} x
// {no per-RPC credentials, grpc.PerRPCCredentials call option} x how the
// call's context ends {the caller cancels, the handler returns normally and
// keeps the context, the caller's (short, real) deadline passes} (the first two
// with and without a far deadline).
//
// The whole context oracle (no caller values, incoming metadata, peer,
// transport stream, deadline, ClientContext) is evaluated inside the real
// handler and the real interceptor of a real inprocgrpc.Channel call at every
// instant of the call's life: at entry, while parked after the caller has
// mutated its metadata map, after the context became done (cancel / deadline),
// after the caller's Invoke / RecvMsg has returned (gate), and in the
// interceptor after the handler returned. At the late instants the accessors
// are looked up repeatedly with a scheduler yield in between, so that state
// that is dropped asynchronously shows without any wall-clock oracle.
//
// The "metadata" sweep: every triple of key subsets of a three-key alphabet
// given to NewOutgoingContext, AppendToOutgoingContext and returned by the
// per-RPC credentials (plus "no credentials option"), in lower-case and in
// mixed-case spelling, both stacking orders, around each (base, kind,
// interceptors, other layers none/all) base case.
//
// The "key alphabet" sweep (keys.go): keys that look like protocol headers
// (grpc- prefix, -bin suffix, HTTP header names, pseudo headers, names grpc-go
// itself uses), each carried by every non-empty set of the three sources, alone
// and next to an ordinary key, both spellings and stacking orders, around each
// base case; which of them the standard transport forwards is a table that the
// thorough tier checks against grpc-go.
//
// The pinned "re-use" part (reuse.go): the caller changes the MD it gave to
// NewOutgoingContext immediately after the stub call returned, and re-uses one
// MD for a series of calls; run in a child process with a single P, each case
// twice.
//
// The "cancel" part (cancel.go): how a call stands when its caller's context
// ends -- every RPC kind (unary, server-, client-, bidi-streaming) x explicit
// cancellation / deadline expiry x what the handler is doing (waiting on or
// polling its context or a context derived from it, blocked in RecvMsg, sending)
// x what the client has done and does with the stream. It also owns the one
// bounded wait whose expiry is a verdict of this property ("the caller's
// cancellation does not reach the handler's context"); see there.
//
// In the thorough tier the same oracle (minus the in-process-only clauses) is
// first validated against real grpc-go over bufconn: a disagreement there is an
// error of the checker.
package main

import (
	"context"
	"fmt"
	"os"
	"reflect"
	"runtime"
	"sort"
	"strconv"
	"strings"
	"sync"
	"time"

	"google.golang.org/grpc"
	"google.golang.org/grpc/codes"
	"google.golang.org/grpc/metadata"
	"google.golang.org/grpc/peer"
	"google.golang.org/grpc/status"
	"google.golang.org/protobuf/types/known/wrapperspb"

	"github.com/fullstorydev/grpchan/inprocgrpc"

	"verif/seq/common"
)

const guard = 30 * time.Second // hang guard only (INCONCLUSIVE); the wait for a context that must end is bounded by endBound (cancel.go)

// A deadline that is meant to pass during the call. Nothing is measured against
// it: the handler simply waits for ctx.Done(). If the machine is so slow that it
// passes before the handler is entered the case still runs through (the early
// instants are then observed on a context that is legitimately done, which the
// oracle tells from the state of the caller's own context).
var (
	shortDeadline    = 8 * time.Millisecond
	shortDeadlineRef = 80 * time.Millisecond // over bufconn the call must reach the server first
)

// VERIF_C10_SHORT_DEADLINE_US overrides the short deadline: a knob to try the
// check itself with deadlines that pass before the handler is even entered (the
// verdicts must not change).
func init() {
	if us, err := strconv.Atoi(os.Getenv("VERIF_C10_SHORT_DEADLINE_US")); err == nil && us > 0 {
		shortDeadline = time.Duration(us) * time.Microsecond
	}
}

// look-ups (each followed by a scheduler yield) at every instant after the
// context is done
const lookups = 24

// outgoing-md is metadata.NewOutgoingContext alone (the caller keeps the map);
// outgoing-appended adds AppendToOutgoingContext pairs (grpc merges those into a
// fresh map, a different path); context-value is a caller value whose dynamic
// type is itself a context.Context carrying a value of its own; peer-auth is a
// caller peer that also carries authentication info (as the context of a
// handler served over TLS would).
var layerNames = []string{"string-key", "struct-key", "outgoing-md", "incoming-md", "peer", "transport-stream", "outgoing-appended", "context-value", "peer-auth"}

const (
	bitOutgoingMD  = 1 << 2
	bitOutgoingApp = 1 << 6
)

type kase struct {
	Base     string `json:"base"`   // background | in-unary-handler | in-stream-handler
	Layers   int    `json:"layers"` // bit i set = layerNames[i] present in the caller's context
	Order    string `json:"order"`  // up: layers applied 0..8 (deadline below them, cancel on top); down: 8..0 (cancel below, deadline on top)
	Deadline bool   `json:"deadline"`
	Kind     string `json:"kind"` // unary | stream
	IC       bool   `json:"interceptors"`
	// how the call's context comes to its end: "" or "cancel" (the caller cancels
	// while the handler runs), "return" (the handler returns a response and a
	// goroutine it started keeps the context), "deadline" (the caller's deadline,
	// a short real one, passes while the handler runs; implies Deadline)
	End string `json:"end,omitempty"`
	// grpc.PerRPCCredentials call option: "" none, "std" (keys shared-key and
	// Creds-Only), "empty" (credentials that return no metadata), or a
	// "+"-joined subset of the metadata alphabet
	Creds string `json:"creds,omitempty"`
	// metadata sweep (Part "md"): "+"-joined subsets of the metadata alphabet
	// given to NewOutgoingContext / AppendToOutgoingContext, and the spelling
	Part     string `json:"part,omitempty"`
	MDNew    string `json:"md_new,omitempty"`
	MDApp    string `json:"md_app,omitempty"`
	Spelling string `json:"spelling,omitempty"` // lower | mixed
	// key-alphabet sweep (Part "keys"): one key of keyAlphabet ("*" = all of them at
	// once), the "+"-joined sources that carry it (new = NewOutgoingContext, app =
	// AppendToOutgoingContext, creds = per-RPC credentials), and whether every such
	// source carries the ordinary key "ka" next to it
	Key       string `json:"key,omitempty"`
	Sources   string `json:"sources,omitempty"`
	Companion bool   `json:"companion,omitempty"`
}

func (c kase) end() string {
	if c.End == "" {
		return "cancel"
	}
	return c.End
}

func (c kase) layerList() string {
	var l []string
	for i, n := range layerNames {
		if c.Layers&(1<<i) != 0 {
			l = append(l, n)
		}
	}
	if len(l) == 0 {
		return "none"
	}
	return strings.Join(l, "+")
}

func (c kase) String() string {
	s := fmt.Sprintf("base=%s layers=%s order=%s deadline=%v kind=%s interceptors=%v", c.Base, c.layerList(), c.Order, c.Deadline, c.Kind, c.IC)
	if c.End != "" {
		s += " end=" + c.End
	}
	if c.Creds != "" {
		s += " credentials=" + c.Creds
	}
	if c.Part == "md" {
		s += fmt.Sprintf(" NewOutgoingContext=%s AppendToOutgoingContext=%s spelling=%s", orNone(c.MDNew), orNone(c.MDApp), c.Spelling)
	}
	if c.Part == "keys" {
		s += fmt.Sprintf(" key=%q carried-by=%s with-ordinary-key=%v spelling=%s", c.Key, c.Sources, c.Companion, c.Spelling)
	}
	return s
}

func orNone(s string) string {
	if s == "" {
		return "none"
	}
	return s
}

// ---------------------------------------------------------------- metadata alphabet

// Three keys. "ka" has one value per source, "kb" is multi-valued (two values
// from NewOutgoingContext, two appended pairs, one from the credentials, whose
// map holds one value per key), "authorization" is the key real credentials use. With mixed spelling every source spells the
// key differently; the metadata API lower-cases all of them, so they meet.
var mdAlphabet = []string{"ka", "kb", "authorization"}

func subsetName(mask int) string {
	var l []string
	for i, k := range mdAlphabet {
		if mask&(1<<i) != 0 {
			l = append(l, k)
		}
	}
	return strings.Join(l, "+")
}

func inSubset(sub, key string) bool {
	for _, k := range strings.Split(sub, "+") {
		if k == key {
			return true
		}
	}
	return false
}

func newPairs(sub string, mixed bool) []string {
	sp := func(lower, mix string) string {
		if mixed {
			return mix
		}
		return lower
	}
	var kv []string
	if inSubset(sub, "ka") {
		kv = append(kv, sp("ka", "Ka"), "new-ka")
	}
	if inSubset(sub, "kb") {
		kv = append(kv, sp("kb", "KB"), "new-kb-1", sp("kb", "KB"), "new-kb-2")
	}
	if inSubset(sub, "authorization") {
		kv = append(kv, sp("authorization", "Authorization"), "bearer new")
	}
	return kv
}

func appPairs(sub string, mixed bool) []string {
	sp := func(lower, mix string) string {
		if mixed {
			return mix
		}
		return lower
	}
	var kv []string
	if inSubset(sub, "ka") {
		kv = append(kv, sp("ka", "KA"), "app-ka")
	}
	if inSubset(sub, "kb") {
		kv = append(kv, sp("kb", "kB"), "app-kb-1", sp("kb", "Kb"), "app-kb-2")
	}
	if inSubset(sub, "authorization") {
		kv = append(kv, sp("authorization", "AUTHORIZATION"), "bearer app")
	}
	return kv
}

// credsMap is what the per-RPC credentials return (nil when there is no
// credentials option).
func credsMap(c kase) (m map[string]string, present bool) {
	if c.Part == "keys" {
		if c.Creds == "" {
			return nil, false
		}
		return keyCredsMap(c), true
	}
	switch c.Creds {
	case "":
		return nil, false
	case "empty":
		return map[string]string{}, true
	case "std":
		return map[string]string{"shared-key": "from-creds", "Creds-Only": "c"}, true
	}
	mixed := c.Spelling == "mixed"
	m = map[string]string{}
	if inSubset(c.Creds, "ka") {
		if mixed {
			m["kA"] = "creds-ka"
		} else {
			m["ka"] = "creds-ka"
		}
	}
	if inSubset(c.Creds, "kb") {
		// (one spelling per key: two spellings of one key in the credentials' map
		// collapse to one arbitrary value in grpc-go itself)
		if mixed {
			m["Kb"] = "creds-kb"
		} else {
			m["kb"] = "creds-kb"
		}
	}
	if inSubset(c.Creds, "authorization") {
		if mixed {
			m["Authorization"] = "bearer creds"
		} else {
			m["authorization"] = "bearer creds"
		}
	}
	return m, true
}

type perRPC struct {
	m     map[string]string
	mu    sync.Mutex
	calls int
}

func (p *perRPC) GetRequestMetadata(ctx context.Context, uri ...string) (map[string]string, error) {
	p.mu.Lock()
	p.calls++
	p.mu.Unlock()
	out := make(map[string]string, len(p.m))
	for k, v := range p.m {
		out[k] = v
	}
	return out, nil
}

func (p *perRPC) RequireTransportSecurity() bool { return false }

// ---------------------------------------------------------------- state of one case

type markerKey struct{}
type outerMarkerKey struct{}
type icKey struct{}
type ctxKey struct{ n int }

type fakeAddr struct{ s string }

func (a *fakeAddr) Network() string { return "fake" }
func (a *fakeAddr) String() string  { return a.s }

type fakeAuth struct{ s string }

func (*fakeAuth) AuthType() string { return "fake-tls" }

type fakeSTS struct{}

func (*fakeSTS) Method() string               { return "/enclosing.Service/Method" }
func (*fakeSTS) SetHeader(metadata.MD) error  { return nil }
func (*fakeSTS) SendHeader(metadata.MD) error { return nil }
func (*fakeSTS) SetTrailer(metadata.MD) error { return nil }

type kv struct {
	layer string
	key   interface{}
	val   interface{}
}

type finding struct {
	Clause, Where, When, Detail string
	// Shape (key-alphabet part only): what the metadata key on which the clause
	// fails looks like ("ordinary" for the plain key that accompanies it)
	Shape string `json:",omitempty"`
}

// The instants at which the oracle is evaluated, in the order used to name the
// earliest one at which a clause fails.
var instants = []string{"entry", "parked", "after-cancel", "returned-after-cancel", "after-deadline", "returned-after-deadline", "returned-normally", "handler-returned"}

func instantRank(w string) int {
	for i, n := range instants {
		if n == w {
			return i
		}
	}
	return len(instants)
}

type runState struct {
	c         kase
	method    string
	reference bool // real grpc over bufconn: in-process-only clauses are skipped
	innerCC   grpc.ClientConnInterface

	marker      *int
	outerMarker *int
	fakePeer    *peer.Peer   // the one visible in the caller's context (the last one applied)
	fakePeers   []*peer.Peer // every peer the caller stored
	fakeSTS     *fakeSTS
	origOut     metadata.MD // the map the caller handed to metadata.NewOutgoingContext
	values      []kv
	innerKeys   []interface{} // keys set only inside a context-typed caller value
	cleanup     []func()
	creds       *perRPC
	credsWant   metadata.MD // what the credentials add, keys lower-cased

	callerCtx      context.Context // the context the caller passes to Invoke / NewStream
	wantIncoming   metadata.MD     // = the caller's outgoing metadata when the call was made
	callerIncoming metadata.MD
	callerDeadline time.Time
	clientPeer     peer.Peer // what grpc.Peer(...) reported to the caller

	mu          sync.Mutex
	findings    []finding
	internal    string
	phases      int // handler phases completed: 1 entry, 2 parked (after caller-side mutation), 3 end of context seen, 4 observed after the caller's call returned
	icRan       bool
	lateLookups int  // accessor look-ups made after the context was done / the call had returned
	earlyLive   bool // the entry and parked instants were observed on a context that was not done
	sharedSeen  bool // the handler saw, under one key, values of the caller and of the credentials
	cut         bool // the instants after the end of the context were left out: the class of the case is known not to see that end

	entered, proceed, cancelReady, afterReturn, handlerDone, icDone chan struct{}
}

func newState(c kase, reference bool) *runState {
	m := map[string]string{"unary": "/c10.S/U", "stream": "/c10.S/St"}[c.Kind]
	return &runState{c: c, method: m, reference: reference, marker: new(int), outerMarker: new(int), earlyLive: true,
		entered: make(chan struct{}), proceed: make(chan struct{}), cancelReady: make(chan struct{}), afterReturn: make(chan struct{}), handlerDone: make(chan struct{}), icDone: make(chan struct{})}
}

func (st *runState) add(clause, where, when, detail string) {
	st.addFinding(finding{Clause: clause, Where: where, When: when, Detail: detail})
}

func (st *runState) addFinding(f finding) {
	st.mu.Lock()
	defer st.mu.Unlock()
	st.findings = append(st.findings, f)
}

func (st *runState) fail(msg string) {
	st.mu.Lock()
	defer st.mu.Unlock()
	if st.internal == "" {
		st.internal = msg
	}
}

func (st *runState) setPhase(n int) {
	st.mu.Lock()
	defer st.mu.Unlock()
	if n > st.phases {
		st.phases = n
	}
}

func mdEqual(a, b metadata.MD) bool {
	if len(a) != len(b) {
		return false
	}
	for k, v := range a {
		if !reflect.DeepEqual(v, b[k]) {
			return false
		}
	}
	return true
}

func mdString(m metadata.MD) string {
	var ks []string
	for k := range m {
		ks = append(ks, k)
	}
	sort.Strings(ks)
	var sb strings.Builder
	sb.WriteString("{")
	for _, k := range ks {
		fmt.Fprintf(&sb, "%s=%q ", k, m[k])
	}
	return strings.TrimSpace(sb.String()) + "}"
}

// subsequence: do the elements of want occur in got, in that order?
func subsequence(want, got []string) bool {
	i := 0
	for _, g := range got {
		if i < len(want) && g == want[i] {
			i++
		}
	}
	return i == len(want)
}

func containsAll(got, want []string) bool {
	for _, w := range want {
		found := false
		for _, g := range got {
			if g == w {
				found = true
				break
			}
		}
		if !found {
			return false
		}
	}
	return true
}

// carried decides whether the metadata `got` carries the caller's metadata
// `caller` joined with what the credentials added (`creds`). All values used by
// the check are distinct. Without credentials on a key the value list must be
// exactly the caller's. On a key the credentials supply too, gRPC sends both
// (the credentials' values first on the wire; the in-process channel appends
// them): what is demanded is that the caller's values are all there in the
// caller's order, that the credentials' values are all there, and nothing
// else. The result is "" or the name of the sub-clause that fails.
func carried(got, caller, creds metadata.MD) string {
	sub, _ := carriedKey(got, caller, creds, nil)
	return sub
}

// carriedKey is carried with the keys for which skip says true left out of the
// comparison; it also names the (alphabetically first) key that fails worst.
func carriedKey(got, caller, creds metadata.MD, skip func(string) bool) (string, string) {
	keys := map[string]bool{}
	for k := range caller {
		keys[k] = true
	}
	for k := range creds {
		keys[k] = true
	}
	var ks []string
	for k := range keys {
		ks = append(ks, k)
	}
	sort.Strings(ks)
	worst, worstKey := "", ""
	for _, k := range ks {
		if skip != nil && skip(k) {
			continue
		}
		g, ca, cr := got[k], caller[k], creds[k]
		if len(cr) == 0 {
			if !reflect.DeepEqual(g, ca) {
				return "mismatch", k // plain: a key only the caller sends
			}
			continue
		}
		switch {
		case !subsequence(ca, g):
			if worst == "" || worst == "extra-values" {
				worst, worstKey = "caller-values-lost-on-credentials-key", k
			}
		case !containsAll(g, cr):
			if worst == "" || worst == "extra-values" {
				worst, worstKey = "credentials-values-lost", k
			}
		case len(g) != len(ca)+len(cr):
			if worst == "" {
				worst, worstKey = "extra-values", k
			}
		}
	}
	return worst, worstKey
}

// firstDiffKey names the alphabetically first key on which two metadata differ.
func firstDiffKey(a, b metadata.MD) string {
	keys := map[string]bool{}
	for k := range a {
		keys[k] = true
	}
	for k := range b {
		keys[k] = true
	}
	var ks []string
	for k := range keys {
		ks = append(ks, k)
	}
	sort.Strings(ks)
	for _, k := range ks {
		if !reflect.DeepEqual(a[k], b[k]) {
			return k
		}
	}
	return ""
}

// ---------------------------------------------------------------- caller side

func (st *runState) applyLayer(ctx context.Context, i int) context.Context {
	switch layerNames[i] {
	case "string-key":
		v1, v2 := new(int), new(int)
		st.values = append(st.values, kv{"string-key", "user-key", v1}, kv{"string-key", "holds a client context", v2})
		return context.WithValue(context.WithValue(ctx, "user-key", v1), "holds a client context", v2)
	case "struct-key":
		v := new(int)
		st.values = append(st.values, kv{"struct-key", ctxKey{7}, v})
		return context.WithValue(ctx, ctxKey{7}, v)
	case "outgoing-md":
		if st.c.Part == "md" {
			st.origOut = metadata.Pairs(newPairs(st.c.MDNew, st.c.Spelling == "mixed")...)
		} else if st.c.Part == "keys" {
			st.origOut = metadata.Pairs(keyPairs(st.c, "new")...)
		} else {
			st.origOut = metadata.Pairs("out-key", "a", "out-key", "b", "shared-key", "from-outgoing", "out-doomed", "d")
		}
		return metadata.NewOutgoingContext(ctx, st.origOut)
	case "outgoing-appended":
		if st.c.Part == "md" {
			return metadata.AppendToOutgoingContext(ctx, appPairs(st.c.MDApp, st.c.Spelling == "mixed")...)
		}
		if st.c.Part == "keys" {
			return metadata.AppendToOutgoingContext(ctx, keyPairs(st.c, "app")...)
		}
		return metadata.AppendToOutgoingContext(ctx, "out-appended", "x", "shared-key", "from-appended")
	case "context-value":
		inner := new(int)
		app := context.WithValue(context.Background(), ctxKey{11}, inner)
		app2, cancelApp := context.WithCancel(context.WithValue(context.Background(), "app-inner", inner))
		st.cleanup = append(st.cleanup, cancelApp)
		st.values = append(st.values, kv{"context-value", ctxKey{9}, app}, kv{"context-value", "app-context", app2})
		st.innerKeys = append(st.innerKeys, ctxKey{11}, "app-inner")
		return context.WithValue(context.WithValue(ctx, ctxKey{9}, app), "app-context", app2)
	case "incoming-md":
		return metadata.NewIncomingContext(ctx, metadata.Pairs("in-key", "i", "shared-key", "from-incoming"))
	case "peer":
		st.fakePeer = &peer.Peer{Addr: &fakeAddr{"198.51.100.7:4242"}}
		st.fakePeers = append(st.fakePeers, st.fakePeer)
		return peer.NewContext(ctx, st.fakePeer)
	case "peer-auth":
		st.fakePeer = &peer.Peer{Addr: &fakeAddr{"203.0.113.9:443"}, AuthInfo: &fakeAuth{"caller's TLS session"}}
		st.fakePeers = append(st.fakePeers, st.fakePeer)
		return peer.NewContext(ctx, st.fakePeer)
	case "transport-stream":
		st.fakeSTS = &fakeSTS{}
		return grpc.NewContextWithServerTransportStream(ctx, st.fakeSTS)
	}
	panic("layer")
}

func (st *runState) buildCaller(base context.Context) (context.Context, context.CancelFunc) {
	ctx := context.WithValue(base, markerKey{}, st.marker)
	var cancel context.CancelFunc
	var cancelDL context.CancelFunc = func() {}
	deadline := func() {
		switch {
		case st.c.end() == "deadline":
			d := shortDeadline
			if st.reference {
				d = shortDeadlineRef
			}
			st.callerDeadline = time.Now().Add(d)
			ctx, cancelDL = context.WithDeadline(ctx, st.callerDeadline)
		case st.c.Deadline:
			st.callerDeadline = time.Now().Add(time.Hour)
			ctx, cancelDL = context.WithDeadline(ctx, st.callerDeadline)
		}
	}
	if st.c.Order == "up" {
		deadline()
		for i := range layerNames {
			if st.c.Layers&(1<<i) != 0 {
				ctx = st.applyLayer(ctx, i)
			}
		}
		ctx, cancel = context.WithCancel(ctx)
	} else {
		ctx, cancel = context.WithCancel(ctx)
		for i := len(layerNames) - 1; i >= 0; i-- {
			if st.c.Layers&(1<<i) != 0 {
				ctx = st.applyLayer(ctx, i)
			}
		}
		deadline()
	}
	st.wantIncoming, _ = metadata.FromOutgoingContext(ctx)
	st.callerIncoming, _ = metadata.FromIncomingContext(ctx)
	if m, present := credsMap(st.c); present {
		st.creds = &perRPC{m: m}
		st.credsWant = metadata.New(m) // lower-cases the keys; all values of a key are kept
	}
	st.callerCtx = ctx
	return ctx, func() {
		cancel()
		cancelDL()
		for _, f := range st.cleanup {
			f()
		}
	}
}

func (st *runState) call(cc grpc.ClientConnInterface, ctx context.Context) error {
	opts := []grpc.CallOption{grpc.Peer(&st.clientPeer)}
	if st.creds != nil {
		opts = append(opts, grpc.PerRPCCredentials(st.creds))
	}
	if st.c.Kind == "unary" {
		var out wrapperspb.StringValue
		return cc.Invoke(ctx, st.method, wrapperspb.String("req"), &out, opts...)
	}
	cs, err := cc.NewStream(ctx, &grpc.StreamDesc{StreamName: "St", ClientStreams: true, ServerStreams: true}, st.method, opts...)
	if err != nil {
		return err
	}
	_ = cs.CloseSend()
	var out wrapperspb.StringValue
	return cs.RecvMsg(&out)
}

func wait(ch <-chan struct{}) bool {
	t := time.NewTimer(guard)
	defer t.Stop()
	select {
	case <-ch:
		return true
	case <-t.C:
		return false
	}
}

// drive makes the call under test from the given base context and steps the
// handler through its phases.
func (st *runState) drive(cc grpc.ClientConnInterface, base context.Context) {
	ctx, cancel := st.buildCaller(base)
	defer cancel()
	callDone := make(chan struct{})
	var callErr error
	go func() { defer close(callDone); callErr = st.call(cc, ctx) }()

	t := time.NewTimer(guard)
	defer t.Stop()
	select {
	case <-st.entered:
	case <-callDone:
		// only a call whose (short) deadline has already passed may be over before
		// its handler got as far as the first gate
		if st.c.end() != "deadline" || ctx.Err() == nil && time.Now().Before(st.callerDeadline) {
			st.fail(fmt.Sprintf("the call ended before the handler was entered: %v", callErr))
			return
		}
		if !wait(st.entered) {
			st.fail(fmt.Sprintf("the call ended (%v) and the handler was never entered", callErr))
			return
		}
	case <-t.C:
		st.fail("hang: handler not entered")
		return
	}
	// the handler has scribbled on the metadata it was given; the caller's must be as built
	if now, _ := metadata.FromOutgoingContext(ctx); !mdEqual(now, st.wantIncoming) {
		st.add("md-aliasing:handler->caller", "caller", "parked", fmt.Sprintf("caller's outgoing metadata is now %s, was %s", mdString(now), mdString(st.wantIncoming)))
	}
	// now the caller scribbles on the map it had handed to NewOutgoingContext
	for _, v := range st.origOut {
		if len(v) > 0 {
			v[0] = "CALLER-MUTATED"
		}
	}
	if st.origOut != nil {
		st.origOut.Set("caller-added", "late")
		st.origOut.Set("out-key", "replaced")
		delete(st.origOut, "out-doomed")
	}
	close(st.proceed)
	if !wait(st.cancelReady) {
		st.fail("hang: handler did not reach the end-of-context phase")
		return
	}
	if st.c.end() == "cancel" {
		cancel()
	}
	// Gate: the caller's Invoke / RecvMsg has returned (because of the cancellation,
	// the deadline, or because the handler returned). The handler (or the goroutine
	// that kept its context) looks again after that.
	if !wait(callDone) {
		st.fail("hang: the call did not return after " + st.c.end())
		return
	}
	close(st.afterReturn)
	// the handler itself reports a cancellation that never arrives (after its bound)
	t2 := time.NewTimer(3*guard + endBound + graceAfter)
	defer t2.Stop()
	select {
	case <-st.handlerDone:
	case <-t2.C:
		st.fail("hang: handler did not finish its last observation")
		return
	}
	// the interceptor looks once more after the handler has returned
	if st.c.IC && !wait(st.icDone) {
		st.fail("hang: the interceptor did not finish its last observation")
	}
}

// ---------------------------------------------------------------- handler side

// observe is the oracle: everything the statement says about the handler's
// context, evaluated at one instant.
func (st *runState) observe(ctx context.Context, where, when string) {
	var pending []finding
	add := func(clause, detail string) {
		pending = append(pending, finding{Clause: clause, Where: where, When: when, Detail: detail})
	}
	addKey := func(clause, key, detail string) {
		f := finding{Clause: clause, Where: where, When: when, Detail: detail}
		if st.c.Part == "keys" {
			f.Shape = keyShape(key)
		}
		pending = append(pending, f)
	}
	defer func() {
		// A short deadline may pass before or while an early instant is evaluated
		// (slow machine). Being done is monotonic: if the context is still live now,
		// everything above was seen on a live context; otherwise what was seen
		// counts as seen after the deadline.
		label := when
		if (when == "entry" || when == "parked") && st.c.end() == "deadline" && ctx.Err() != nil {
			label = "after-deadline"
		}
		for _, f := range pending {
			f.When = label
			st.addFinding(f)
		}
	}()
	if v := ctx.Value(markerKey{}); v != nil {
		add("value-leak:private-key", "the caller's marker value is visible through ctx.Value")
	}
	for _, e := range st.values {
		if v := ctx.Value(e.key); v != nil {
			add("value-leak:"+e.layer, fmt.Sprintf("ctx.Value(%#v) is not nil (it is the caller's value: %v)", e.key, v == e.val))
		}
	}
	for _, k := range st.innerKeys {
		if v := ctx.Value(k); v != nil {
			add("value-leak:context-value", fmt.Sprintf("ctx.Value(%#v) is not nil: a value stored only inside a context-typed caller value is visible", k))
		}
	}
	if md, ok := metadata.FromOutgoingContext(ctx); ok && len(md) > 0 {
		add("value-leak:outgoing-md", "handler context carries outgoing metadata "+mdString(md))
	}
	in, _ := metadata.FromIncomingContext(ctx)
	// keys that the standard transport withholds: nothing is demanded of them here
	var skip func(string) bool
	if st.c.Part == "keys" {
		skip = withheldKey
		if st.reference {
			// the table itself is what is being checked against the standard transport
			for k, vals := range st.wantIncoming {
				if !withheldKey(k) {
					continue
				}
				for _, v := range vals {
					if containsAll(in[k], []string{v}) {
						add("calibration:key-not-withheld:"+k, fmt.Sprintf("the table says the standard transport withholds %q; it delivered %q", k, in[k]))
					}
				}
			}
		}
	}
	if sub, key := carriedKey(in, st.wantIncoming, st.credsWant, skip); sub != "" { // the text does not depend on which key differs
		clause := "incoming-md-mismatch"
		if sub != "mismatch" {
			clause += ":" + sub
		}
		msg := fmt.Sprintf("incoming metadata %s does not carry the caller's outgoing %s", mdString(in), mdString(st.wantIncoming))
		if st.creds != nil {
			msg += " joined with the per-RPC credentials' " + mdString(st.credsWant)
		}
		addKey(clause, key, msg)
	} else if st.creds != nil {
		for k, cr := range st.credsWant {
			if len(cr) > 0 && len(st.wantIncoming[k]) > 0 {
				st.mu.Lock()
				st.sharedSeen = true
				st.mu.Unlock()
				break
			}
		}
	}
	var inKeys []string
	for k := range st.callerIncoming {
		inKeys = append(inKeys, k)
	}
	sort.Strings(inKeys)
leak:
	for _, k := range inKeys {
		// a value of the caller's own incoming metadata that was not sent
		for _, v := range st.callerIncoming[k] {
			if containsAll(in[k], []string{v}) && !containsAll(st.wantIncoming[k], []string{v}) && !containsAll(st.credsWant[k], []string{v}) {
				add("incoming-md-leak", fmt.Sprintf("incoming metadata %s shows key %q of the caller's own incoming metadata", mdString(in), k))
				break leak
			}
		}
	}
	p, ok := peer.FromContext(ctx)
	switch {
	case !ok || p == nil || p.Addr == nil:
		add("peer-missing", "no peer in the handler context")
	case st.leaksPeer(p) != "":
		add(st.leaksPeer(p), "handler's peer carries what the caller's context stored as peer: addr "+p.Addr.String()+fmt.Sprintf(", auth info %T", p.AuthInfo))
	case !st.reference && (st.clientPeer.Addr == nil || p.Addr != st.clientPeer.Addr):
		add("peer-not-inprocess", fmt.Sprintf("handler's peer %v is not the in-process peer reported to the caller (%v)", p.Addr, st.clientPeer.Addr))
	}
	if ok && p != nil && !st.reference && !reflect.DeepEqual(p.AuthInfo, st.clientPeer.AuthInfo) && st.leaksPeer(p) == "" {
		add("peer-not-inprocess", fmt.Sprintf("handler's peer auth info (%T) is not the one reported to the caller through grpc.Peer (%T)", p.AuthInfo, st.clientPeer.AuthInfo))
	}
	if sts := grpc.ServerTransportStreamFromContext(ctx); sts == nil {
		add("transport-stream-missing", "no ServerTransportStream in the handler context")
	} else if sts.Method() != st.method || (st.fakeSTS != nil && sts == grpc.ServerTransportStream(st.fakeSTS)) {
		add("transport-stream-leak", fmt.Sprintf("ServerTransportStream.Method() = %q, this call is %q", sts.Method(), st.method))
	}
	hasDL := st.c.Deadline || st.c.end() == "deadline"
	d, ok := ctx.Deadline()
	switch {
	case hasDL && !ok:
		add("deadline-lost", "caller has a deadline, handler context has none")
	case hasDL && !st.reference && !d.Equal(st.callerDeadline):
		add("deadline-mismatch", fmt.Sprintf("handler deadline differs from the caller's by %v", d.Sub(st.callerDeadline)))
	case !hasDL && ok:
		add("deadline-invented", "caller has no deadline, handler context has one")
	}
	switch when {
	case "entry", "parked":
		// Not done before the caller's context is. (The caller's context is read
		// after the handler's: being done is monotonic, so a caller context that is
		// still live now was live when the handler's was found done. Over a real
		// connection the server runs its own timer for a deadline, so with a short
		// deadline the comparison is only made in-process.)
		if err := ctx.Err(); err != nil {
			if st.c.end() != "deadline" {
				add("spurious-cancel", "handler context already done: "+err.Error())
			} else if !st.reference && st.callerCtx.Err() == nil && time.Now().Before(st.callerDeadline) {
				add("spurious-cancel", "handler context done ("+err.Error()+") while the caller's context is not, nor has its deadline passed")
			} else {
				st.mu.Lock()
				st.earlyLive = false
				st.mu.Unlock()
			}
		}
	case "after-cancel":
		if ctx.Err() != context.Canceled {
			add("cancel-wrong-error", fmt.Sprintf("after the caller's cancel, ctx.Err() = %v", ctx.Err()))
		}
	case "after-deadline":
		if err := ctx.Err(); err != context.DeadlineExceeded && err != context.Canceled {
			add("cancel-wrong-error", fmt.Sprintf("after the caller's deadline, ctx.Err() = %v", err))
		} else if !st.reference && st.callerCtx.Err() == nil && time.Now().Before(st.callerDeadline) {
			// (an implementation may run a timer of its own for the caller's deadline, as a
			// server across a network does: the two fire in either order, neither early)
			add("spurious-cancel", "handler context done ("+err.Error()+") while the caller's context, whose deadline has not passed, is not")
		}
	}
	if st.reference {
		return
	}
	// the sanctioned back-door
	cc := inprocgrpc.ClientContext(ctx)
	if cc == nil {
		add("client-context-missing", "ClientContext(ctx) is nil")
		return
	}
	if cc.Value(markerKey{}) != interface{}(st.marker) {
		add("client-context-wrong", "ClientContext(ctx) is not the context the caller passed (marker value differs)")
	}
	for _, e := range st.values {
		if cc.Value(e.key) != e.val {
			add("client-context-incomplete", fmt.Sprintf("ClientContext(ctx).Value(%#v) is not the caller's value", e.key))
		}
	}
	if st.fakePeer != nil {
		if p, _ := peer.FromContext(cc); p != st.fakePeer {
			add("client-context-incomplete", "ClientContext(ctx) does not carry the caller's peer")
		}
	}
	if st.fakeSTS != nil {
		if s := grpc.ServerTransportStreamFromContext(cc); s != grpc.ServerTransportStream(st.fakeSTS) {
			add("client-context-incomplete", "ClientContext(ctx) does not carry the caller's enclosing ServerTransportStream")
		}
	}
	// The caller's context shows whatever the caller's map holds now (the caller may
	// have changed it since the call was made); the context the accessor returns
	// must show that, or what the map held when the call was made. With per-RPC
	// credentials it may show the credentials' values joined to it (the channel
	// derives the call's context from the caller's), never less than the caller's.
	callerNow, _ := metadata.FromOutgoingContext(st.callerCtx)
	out, _ := metadata.FromOutgoingContext(cc)
	if st.creds == nil {
		if !mdEqual(out, callerNow) && !mdEqual(out, st.wantIncoming) {
			addKey("client-context-incomplete", firstDiffKey(out, st.wantIncoming), "ClientContext(ctx) outgoing metadata "+mdString(out)+" differs from the caller's "+mdString(callerNow))
		}
	} else if a, b := carried(out, callerNow, st.credsWant), carried(out, st.wantIncoming, st.credsWant); a != "" && b != "" && !mdEqual(out, callerNow) {
		_, key := carriedKey(out, st.wantIncoming, st.credsWant, nil)
		addKey("client-context-incomplete", key, "ClientContext(ctx) outgoing metadata "+mdString(out)+" is neither the caller's "+mdString(callerNow)+" nor that joined with the credentials' "+mdString(st.credsWant)+" ("+b+")")
	}
	if inc, _ := metadata.FromIncomingContext(cc); !mdEqual(inc, st.callerIncoming) {
		add("client-context-incomplete", "ClientContext(ctx) incoming metadata "+mdString(inc)+" differs from the caller's "+mdString(st.callerIncoming))
	}
	if st.c.Base != "background" {
		// the caller was itself a handler: its own client context must still be reachable through the chain
		outer := inprocgrpc.ClientContext(cc)
		if outer == nil || outer.Value(outerMarkerKey{}) != interface{}(st.outerMarker) {
			add("client-context-chain", "ClientContext(ClientContext(ctx)) is not the outer caller's context")
		}
		if ctx.Value(outerMarkerKey{}) != nil {
			add("value-leak:private-key", "the outer caller's marker value is visible through ctx.Value")
		}
	}
}

// probe is the observation at an instant after the context is done, or after
// the caller's call has returned: whatever the library still does in the
// background at that point (propagation goroutines, functions registered on the
// context) is given the processor `lookups` times, with the accessors looked up
// each time, and then the whole oracle is evaluated. No clock is involved.
func (st *runState) probe(ctx context.Context, where, when string) {
	reported := false
	for i := 0; i < lookups; i++ {
		if !reported {
			if v := ctx.Value(markerKey{}); v != nil {
				st.add("value-leak:private-key", where, when, fmt.Sprintf("the caller's marker value is visible through ctx.Value (look-up #%d at this instant)", i))
				reported = true
			}
			if !st.reference {
				if cc := inprocgrpc.ClientContext(ctx); cc == nil {
					st.add("client-context-missing", where, when, fmt.Sprintf("ClientContext(ctx) is nil (look-up #%d at this instant)", i))
					reported = true
				} else if cc.Value(markerKey{}) != interface{}(st.marker) {
					st.add("client-context-wrong", where, when, fmt.Sprintf("ClientContext(ctx) is not the context the caller passed (look-up #%d at this instant)", i))
					reported = true
				}
			}
			if _, ok := metadata.FromIncomingContext(ctx); !ok && (len(st.wantIncoming) > 0 || len(st.credsWant) > 0) {
				st.add("incoming-md-mismatch", where, when, fmt.Sprintf("no incoming metadata in the handler context (look-up #%d at this instant)", i))
				reported = true
			}
		}
		runtime.Gosched()
	}
	st.mu.Lock()
	st.lateLookups += lookups
	st.mu.Unlock()
	st.observe(ctx, where, when)
}

// leaksPeer: does the handler's peer show anything of a peer the caller stored in its context?
func (st *runState) leaksPeer(p *peer.Peer) string {
	for _, f := range st.fakePeers {
		if p == f || p.Addr == f.Addr {
			return "peer-leak"
		}
		if f.AuthInfo != nil && p.AuthInfo == f.AuthInfo {
			return "peer-authinfo-leak"
		}
	}
	return ""
}

var errHandlerDone = status.Error(codes.Aborted, "c10 handler done")

// handle is the handler of the call under test. It returns nil when the case
// wants a handler that completes normally.
func (st *runState) handle(ctx context.Context) error {
	add := func(clause, when, detail string) { st.add(clause, "handler", when, detail) }
	st.observe(ctx, "handler", "entry")
	snap, _ := metadata.FromIncomingContext(ctx)
	mine, _ := metadata.FromIncomingContext(ctx)
	for _, v := range mine {
		if len(v) > 0 {
			v[0] = "HANDLER-MUTATED"
		}
	}
	if mine != nil {
		mine["handler-added"] = []string{"x"}
	}
	if again, _ := metadata.FromIncomingContext(ctx); !mdEqual(snap, again) {
		add("md-aliasing:handler-view", "entry", "mutating the metadata returned to the handler changed the handler context's metadata")
	}
	st.setPhase(1)
	close(st.entered)
	if !wait(st.proceed) {
		st.fail("hang: harness did not let the handler proceed")
		close(st.handlerDone)
		return status.Error(codes.Aborted, "checker")
	}
	if after, _ := metadata.FromIncomingContext(ctx); !mdEqual(snap, after) {
		add("md-aliasing:caller->handler", "parked", fmt.Sprintf("after the caller mutated its metadata map the handler sees %s, before %s", mdString(after), mdString(snap)))
	}
	st.observe(ctx, "handler", "parked")
	st.setPhase(2)
	end := st.c.end()
	if end == "return" {
		// the handler completes normally; work it started keeps the context and
		// looks at it once the caller's call has returned
		go func() {
			defer close(st.handlerDone)
			if !wait(st.afterReturn) {
				st.fail("hang: harness did not report the return of the call")
				return
			}
			st.setPhase(3)
			st.probe(ctx, "handler", "returned-normally")
			st.setPhase(4)
		}()
		close(st.cancelReady)
		return nil
	}
	defer close(st.handlerDone)
	close(st.cancelReady)
	if !st.awaitEnd(ctx, end) {
		return errHandlerDone
	}
	st.setPhase(3)
	st.probe(ctx, "handler", "after-"+end)
	if !wait(st.afterReturn) {
		st.fail("hang: harness did not report the return of the call")
		return errHandlerDone
	}
	st.probe(ctx, "handler", "returned-after-"+end)
	st.setPhase(4)
	return errHandlerDone
}

// awaitEnd is the handler's wait for the end of its context after the caller
// has cancelled (or the caller's deadline has passed). Its bound is counted
// from the moment at which this goroutine has itself seen the caller's context
// done (see cancel.go: awaitDone). A context that does not end within the
// bound is the violation "the caller's cancellation does not reach the
// handler's context"; the class of the case is then registered in `stuck`, and
// the later cases of that class (and the cases of every class that the cancel
// part has found stuck before this sweep began) only look, after a bounded
// number of yields, whether the context has ended and, if it has not, go on
// without the instants that follow the end of the context.
func (st *runState) awaitEnd(ctx context.Context, end string) bool {
	t := time.NewTimer(guard)
	defer t.Stop()
	select {
	case <-ctx.Done():
		return true
	case <-st.callerCtx.Done():
	case <-t.C:
		st.fail("hang: the caller's context did not end (" + end + ")")
		return false
	}
	class := classOf(st.c, st.reference)
	if stuck.has(class) {
		for i := 0; i < lookups; i++ {
			select {
			case <-ctx.Done():
				return true
			default:
			}
			runtime.Gosched()
		}
		select {
		case <-ctx.Done():
			return true
		default:
		}
		st.mu.Lock()
		st.cut = true
		st.mu.Unlock()
		return false
	}
	since := time.Now()
	if awaitDone(ctx.Done()) {
		return true
	}
	stuck.add(class, "main sweep: "+st.c.String())
	what := "the caller cancelled its context"
	if end == "deadline" {
		what = "the caller's deadline passed"
	}
	st.add("cancel-not-propagated", "handler", "after-"+end, fmt.Sprintf("%s; the handler context is still not done %v after the handler's own goroutine saw the caller's context done (bound %v, then %d yields and %v more)",
		what, time.Since(since).Round(time.Millisecond), endBound, lookups, graceAfter))
	return false
}

type wrappedSS struct {
	grpc.ServerStream
	ctx context.Context
}

func (w *wrappedSS) Context() context.Context { return w.ctx }

// env holds the state of the case currently running on a service instance.
type env struct{ cur *runState }

func (e *env) service() *common.Svc {
	return &common.Svc{Name: "c10.S",
		Unary: map[string]common.UnaryFn{
			"U": func(ctx context.Context, dec func(interface{}) error) (interface{}, error) {
				var in wrapperspb.StringValue
				if err := dec(&in); err != nil {
					return nil, err
				}
				if err := e.cur.handle(ctx); err != nil {
					return nil, err
				}
				return wrapperspb.String("resp"), nil
			},
			"OuterU": func(ctx context.Context, dec func(interface{}) error) (interface{}, error) {
				var in wrapperspb.StringValue
				if err := dec(&in); err != nil {
					return nil, err
				}
				e.cur.drive(e.cur.innerCC, ctx)
				return wrapperspb.String("outer done"), nil
			},
		},
		Streams: map[string]common.StreamDef{
			"St": {ClientStreams: true, ServerStreams: true, Fn: func(s grpc.ServerStream) error { return e.cur.handle(s.Context()) }},
			"OuterSt": {ClientStreams: true, ServerStreams: true, Fn: func(s grpc.ServerStream) error {
				e.cur.drive(e.cur.innerCC, s.Context())
				return nil
			}},
		},
	}
}

func (e *env) unaryIC(ctx context.Context, req interface{}, info *grpc.UnaryServerInfo, h grpc.UnaryHandler) (interface{}, error) {
	if info.FullMethod != e.cur.method {
		return h(ctx, req)
	}
	st := e.cur
	st.mu.Lock()
	st.icRan = true
	st.mu.Unlock()
	st.observe(ctx, "interceptor", "entry")
	resp, err := h(context.WithValue(ctx, icKey{}, "ic"), req)
	st.probe(ctx, "interceptor", "handler-returned")
	close(st.icDone)
	return resp, err
}

func (e *env) streamIC(srv interface{}, ss grpc.ServerStream, info *grpc.StreamServerInfo, h grpc.StreamHandler) error {
	if info.FullMethod != e.cur.method {
		return h(srv, ss)
	}
	st := e.cur
	st.mu.Lock()
	st.icRan = true
	st.mu.Unlock()
	st.observe(ss.Context(), "interceptor", "entry")
	err := h(srv, &wrappedSS{ss, context.WithValue(ss.Context(), icKey{}, "ic")})
	st.probe(ss.Context(), "interceptor", "handler-returned")
	close(st.icDone)
	return err
}
