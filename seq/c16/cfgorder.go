// C16, CONFIGURATION ORDER cases: the order of configuration steps on a long-lived carrier.
//
// Everywhere else in this check a carrier is built in the order "configure the transport-level
// interceptors, register, call". Here a carrier is one long-lived object and a case is a PROGRAM: every
// sequence (up to a length bound) over the steps
//
//	R        register a new service (description of its own, server object of its own) as it is
//	RD       register a new service decorated with interceptors D<k> of its own (form WI: through a
//	         WithInterceptor view of the carrier, derived right there or - "early" - before the first
//	         step; form IS: InterceptServer applied to the description by hand)
//	X/K      configure the transport-level interceptors: X in {T1, T2, none} for K in {the unary one,
//	         the stream one, both}
//
// with one unary and one stream RPC to every service registered so far after EVERY step. The three
// carriers that have transport-level interceptors:
//
//	inproc   one inprocgrpc.Channel; X/K = WithServerUnaryInterceptor / WithServerStreamInterceptor on
//	         it (nil to clear), at any point of the program
//	httpsrv  one httpgrpc.Server; X/K = a WithServerUnaryInterceptor / WithServerStreamInterceptor
//	         option (nil included) in the list given to NewServer, so all X/K steps come first, in
//	         program order
//	httpmux  one grpchan.HandlerMap and one long-lived mux (a map from pattern to handler; a handler
//	         registered again for a pattern replaces the earlier one); R / RD register into the map,
//	         X/K = httpgrpc.HandleServices(mux, "/", map, u, s) with u / s = X for the kinds in K and
//	         nil for the others; only services that the mux has a handler for are called
//
// Oracle: the statement per call - the transport-level interceptor of the call's kind that is in force
// WHEN THE CALL IS MADE (inproc: what the channel was configured with last; httpsrv: the last option of
// that kind; httpmux: the arguments of the latest HandleServices that covered the service) first, then
// the service's decorating interceptor, each exactly once, then the handler of that service with its
// server object; plus everything judge demands of a single call (method names, flags, identities,
// results).
package main

import (
	"context"
	"fmt"
	"net/http"
	"strings"
	"sync"
	"sync/atomic"

	"github.com/fullstorydev/grpchan"
	"github.com/fullstorydev/grpchan/httpgrpc"
	"github.com/fullstorydev/grpchan/inprocgrpc"
	"google.golang.org/grpc"
)

type cfgStep struct {
	Op string `json:"op"`          // R | RD | T
	X  int    `json:"x,omitempty"` // T: 0 = none (clear), 1 = T1, 2 = T2
	K  int    `json:"k,omitempty"` // T: bit0 = the unary interceptor, bit1 = the stream interceptor
}

func (s cfgStep) name() string {
	if s.Op != "T" {
		return s.Op
	}
	return []string{"none", "T1", "T2"}[s.X] + "/" + []string{"", "u", "s", "us"}[s.K]
}

type cfgT struct {
	Target string    `json:"target"` // inproc | httpsrv | httpmux
	Steps  []cfgStep `json:"steps"`
	Early  bool      `json:"early,omitempty"` // form WI: the views are derived before the first step
}

func (g *cfgT) prog() string {
	var s []string
	for _, st := range g.Steps {
		s = append(s, st.name())
	}
	return strings.Join(s, " ")
}

func (g *cfgT) String() string {
	s := fmt.Sprintf("cfg-order %s [%s]", g.Target, g.prog())
	if g.Early {
		s += " views-derived-early"
	}
	return s
}

// reconfigured: is there a configuration step after a registration?
func (g *cfgT) reconfigured() bool {
	seenReg := false
	for _, st := range g.Steps {
		if st.Op != "T" {
			seenReg = true
		} else if seenReg {
			return true
		}
	}
	return false
}

// mapMux is the long-lived mux of the httpmux target
type mapMux struct {
	mu sync.Mutex
	h  map[string]func(http.ResponseWriter, *http.Request)
}

func (m *mapMux) handle(pattern string, h func(http.ResponseWriter, *http.Request)) {
	m.mu.Lock()
	defer m.mu.Unlock()
	m.h[pattern] = h
}

func (m *mapMux) has(pattern string) bool {
	m.mu.Lock()
	defer m.mu.Unlock()
	return m.h[pattern] != nil
}

func (m *mapMux) ServeHTTP(w http.ResponseWriter, r *http.Request) {
	m.mu.Lock()
	h := m.h[r.URL.Path]
	m.mu.Unlock()
	if h == nil {
		http.NotFound(w, r)
		return
	}
	h(w, r)
}

var cfgCallCount, cfgIntercepted, cfgMoved int64 // measured

var cfgFlags = []int{3, 2, 1, 0} // the stream method of the k-th service: bidi, server-, client-streaming, neither

type cfgSvc struct {
	k          int
	decorated  bool
	desc       *grpc.ServiceDesc
	snap       string
	srv        *impl
	regAt      int
	regU, regS string // the transport-level interceptors in force when the service was registered
	// httpmux: the arguments of the latest HandleServices that covered this service
	bound          bool
	boundU, boundS string
	// the history of the carrier's configuration as far as it concerns calls to this service, per kind (0 unary, 1 stream):
	// inproc: what was in force at registration, then every later (re)configuration of that kind; httpsrv: the options of
	// that kind in order; httpmux: the argument of that kind of every HandleServices that covered the service
	hist [2][]string
}

func histName(x string) string {
	if x == "" {
		return "none"
	}
	return x
}

func runCfg(c caseT, verbose bool) (probs []problem, observed string) {
	atomic.AddInt64(&progress, 1)
	current.Store(c.String())
	add := func(clause, sub, what string) { probs = append(probs, problem{clause, sub, what}) }
	defer func() {
		if r := recover(); r != nil {
			add("panic", "", fmt.Sprintf("library code panicked: %v", r))
		}
	}()
	g := c.Cfg
	l := &clog{}

	// the transport-level interceptor instances
	names := []string{"", "T1", "T2"}
	tU := []grpc.UnaryServerInterceptor{nil, mkUnary(l, "T1", bPass, 0), mkUnary(l, "T2", bPass, 0)}
	tS := []grpc.StreamServerInterceptor{nil, mkStream(l, "T1", bPass, 0), mkStream(l, "T2", bPass, 0)}

	// the carrier
	t := &target{who: "T"}
	var root grpc.ServiceRegistrar
	var hm grpchan.HandlerMap
	var mux *mapMux
	var opts []httpgrpc.ServerOption
	switch g.Target {
	case "inproc":
		t.ipc = &inprocgrpc.Channel{}
		root = t.ipc
	case "httpsrv":
		// made at the first registration, with the options collected until then
	case "httpmux":
		hm = grpchan.HandlerMap{}
		root = hm
		mux = &mapMux{h: map[string]func(http.ResponseWriter, *http.Request){}}
		t.hh = mux
	default:
		panic("bad target " + g.Target)
	}
	getRoot := func() grpc.ServiceRegistrar {
		if g.Target == "httpsrv" && t.hs == nil {
			t.hs = httpgrpc.NewServer(opts...)
			root = t.hs
		}
		return root
	}

	// the services, their decorations, and (early) their views
	nSvc := 0
	for _, st := range g.Steps {
		if st.Op != "T" {
			nSvc++
		}
	}
	dU := make([]grpc.UnaryServerInterceptor, nSvc)
	dS := make([]grpc.StreamServerInterceptor, nSvc)
	views := make([]grpc.ServiceRegistrar, nSvc)
	for k := 0; k < nSvc; k++ {
		dU[k], dS[k] = mkUnary(l, fmt.Sprintf("D%d", k), bPass, 0), mkStream(l, fmt.Sprintf("D%d", k), bPass, 0)
	}
	// early: all views are derived before the first step (httpsrv: as soon as the server exists, before the first registration)
	deriveEarly := func() {
		if !g.Early || c.Form != "WI" {
			return
		}
		k := 0
		for _, st := range g.Steps {
			if st.Op == "RD" && views[k] == nil {
				views[k] = grpchan.WithInterceptor(getRoot(), dU[k], dS[k])
			}
			if st.Op != "T" {
				k++
			}
		}
	}
	if g.Target != "httpsrv" {
		deriveEarly()
	}

	curU, curS := "", ""    // the model: what the carrier is configured with
	var optHist [2][]string // httpsrv: the options given, per kind
	var svcs []*cfgSvc
	var obs []string

	callAll := func(i int, st cfgStep) {
		for _, s := range svcs {
			for _, kind := range []string{"unary", "stream"} {
				kc := caseT{Carrier: c.Carrier, Form: c.Form, Kind: kind}
				var method string
				var cs, ss bool
				if kind == "unary" {
					method = s.desc.Methods[0].MethodName
				} else {
					method = s.desc.Streams[0].StreamName
					cs, ss = s.desc.Streams[0].ClientStreams, s.desc.Streams[0].ServerStreams
				}
				full := "/" + s.desc.ServiceName + "/" + method
				inForce, atReg := curU, s.regU
				if kind == "stream" {
					inForce, atReg = curS, s.regS
				}
				if g.Target == "httpmux" {
					if !s.bound || !mux.has(full) {
						continue // no HandleServices call has covered it: the mux has no handler for it, nothing of the library would run
					}
					inForce = s.boundU
					if kind == "stream" {
						inForce = s.boundS
					}
				}
				var chain []chainEl
				if inForce != "" {
					chain = append(chain, chainEl{who: inForce, beh: bPass})
				}
				if s.decorated {
					chain = append(chain, chainEl{who: fmt.Sprintf("D%d", s.k), beh: bPass})
				}
				hist := s.hist[0]
				if kind == "stream" {
					hist = s.hist[1]
				}
				sub := fmt.Sprintf("svc=%s,%s,config-history=%s", map[bool]string{false: "R", true: "RD"}[s.decorated], kind, strings.Join(hist, ">"))
				ctx, cancel := context.WithCancel(context.Background())
				l.take()
				res := call(kc, ctx, method, full, "req:"+method, 0, cs, ss, nil, s.srv, t)
				cancel()
				es := l.take()
				atomic.AddInt64(&cfgCallCount, 1)
				if len(chain) > 0 {
					atomic.AddInt64(&cfgIntercepted, 1)
				}
				if g.Target != "httpmux" && inForce != atReg {
					atomic.AddInt64(&cfgMoved, 1) // the configuration in force differs from the one at registration
				}
				o := fmt.Sprintf("%s(after step %d %s): log=%v result=(%q %v err=%v)", method, i, st.name(), whos(es), res.respVal, res.msgs, res.err)
				obs = append(obs, o)
				if verbose {
					fmt.Println("  " + o + fmt.Sprintf("   expected log=%v", expect(kc, chain, method).log))
				}
				judge(callSpec{c: kc, carrier: c.Carrier, method: method, full: full, cs: cs, ss: ss, css: ss, sub: sub,
					sent: "req:" + method, chain: chain, srv: s.srv}, es, res, add)
			}
		}
	}

	for i, st := range g.Steps {
		switch st.Op {
		case "T":
			var u grpc.UnaryServerInterceptor
			var s grpc.StreamServerInterceptor
			if st.K&1 != 0 {
				u = tU[st.X]
			}
			if st.K&2 != 0 {
				s = tS[st.X]
			}
			switch g.Target {
			case "inproc":
				if st.K&1 != 0 {
					t.ipc.WithServerUnaryInterceptor(u)
					curU = names[st.X]
				}
				if st.K&2 != 0 {
					t.ipc.WithServerStreamInterceptor(s)
					curS = names[st.X]
				}
				for _, sv := range svcs {
					if st.K&1 != 0 {
						sv.hist[0] = append(sv.hist[0], histName(curU))
					}
					if st.K&2 != 0 {
						sv.hist[1] = append(sv.hist[1], histName(curS))
					}
				}
			case "httpsrv":
				if t.hs != nil {
					panic("httpsrv: an option after the server was made")
				}
				if st.K&1 != 0 {
					opts = append(opts, httpgrpc.WithServerUnaryInterceptor(u))
					curU = names[st.X]
					optHist[0] = append(optHist[0], histName(curU))
				}
				if st.K&2 != 0 {
					opts = append(opts, httpgrpc.WithServerStreamInterceptor(s))
					curS = names[st.X]
					optHist[1] = append(optHist[1], histName(curS))
				}
			case "httpmux":
				httpgrpc.HandleServices(mux.handle, "/", hm, u, s)
				curU, curS = "", ""
				if st.K&1 != 0 {
					curU = names[st.X]
				}
				if st.K&2 != 0 {
					curS = names[st.X]
				}
				for _, sv := range svcs {
					sv.bound, sv.boundU, sv.boundS = true, curU, curS
					sv.hist[0], sv.hist[1] = append(sv.hist[0], histName(curU)), append(sv.hist[1], histName(curS))
				}
			}
		default:
			k := len(svcs)
			sv := &cfgSvc{k: k, decorated: st.Op == "RD", srv: &impl{200 + k}, regAt: i, regU: curU, regS: curS}
			sv.desc = makeDescNamed(fmt.Sprintf("t.S%d", k), fmt.Sprintf("S%d", k), caseT{U: 1, Flags: []int{cfgFlags[k%len(cfgFlags)]}}, l)
			sv.snap = snapshot(sv.desc)
			switch g.Target {
			case "inproc":
				sv.hist = [2][]string{{histName(curU)}, {histName(curS)}}
			case "httpsrv":
				sv.hist = [2][]string{append([]string{"default"}, optHist[0]...), append([]string{"default"}, optHist[1]...)}
			}
			r := getRoot()
			if k == 0 {
				deriveEarly()
			}
			switch {
			case !sv.decorated:
				r.RegisterService(sv.desc, sv.srv)
			case c.Form == "WI":
				v := views[k]
				if v == nil {
					v = grpchan.WithInterceptor(r, dU[k], dS[k])
				}
				v.RegisterService(sv.desc, sv.srv)
			default:
				r.RegisterService(grpchan.InterceptServer(sv.desc, dU[k], dS[k]), sv.srv)
			}
			svcs = append(svcs, sv)
		}
		callAll(i, st)
	}

	for _, sv := range svcs {
		sv := sv
		checkInputUntouched(&built{srv: &impl{1}, d0: sv.desc, snap0: sv.snap}, l, func(clause, sub, what string) {
			add(clause, fmt.Sprintf("svc=%d,%s", sv.k, sub), what)
		})
	}
	return probs, strings.Join(obs, "; ")
}

// cfgPrograms: every step sequence of exactly n steps that makes at least one call
func cfgPrograms(target string, n int) [][]cfgStep {
	var letters []cfgStep
	letters = append(letters, cfgStep{Op: "R"}, cfgStep{Op: "RD"})
	for x := 1; x <= 2; x++ {
		for k := 1; k <= 3; k++ {
			letters = append(letters, cfgStep{Op: "T", X: x, K: k})
		}
	}
	if target == "httpmux" {
		letters = append(letters, cfgStep{Op: "T", X: 0, K: 3}) // HandleServices(..., nil, nil)
	} else {
		for k := 1; k <= 3; k++ {
			letters = append(letters, cfgStep{Op: "T", X: 0, K: k})
		}
	}
	var out [][]cfgStep
	var rec func(prefix []cfgStep)
	rec = func(prefix []cfgStep) {
		if len(prefix) == n {
			if cfgMakesCalls(target, prefix) {
				out = append(out, append([]cfgStep(nil), prefix...))
			}
			return
		}
		for _, st := range letters {
			if target == "httpsrv" && st.Op == "T" && len(prefix) > 0 && prefix[len(prefix)-1].Op != "T" {
				continue // options can only be given to NewServer
			}
			rec(append(prefix, st))
		}
	}
	rec(nil)
	return out
}

func cfgMakesCalls(target string, steps []cfgStep) bool {
	seenReg := false
	for _, st := range steps {
		if st.Op != "T" {
			seenReg = true
		} else if seenReg && target == "httpmux" {
			return true
		}
	}
	return seenReg && target != "httpmux"
}

// enumerateCfg: every program of 1..3 (quick) / 1..4 (thorough) steps x target x form (IS only when nothing
// is registered decorated) x views derived early (form WI with a decorated registration only)
func enumerateCfg(tier string, fn func(caseT)) (programs int) {
	maxLen := 3
	if tier == "thorough" {
		maxLen = 4
	}
	for _, target := range []string{"inproc", "httpsrv", "httpmux"} {
		carrier := "http"
		if target == "inproc" {
			carrier = "inproc"
		}
		for n := 1; n <= maxLen; n++ {
			for _, steps := range cfgPrograms(target, n) {
				programs++
				hasRD := false
				for _, st := range steps {
					hasRD = hasRD || st.Op == "RD"
				}
				fn(caseT{Carrier: carrier, Form: "IS", Cfg: &cfgT{Target: target, Steps: steps}})
				if hasRD {
					fn(caseT{Carrier: carrier, Form: "WI", Cfg: &cfgT{Target: target, Steps: steps}})
					fn(caseT{Carrier: carrier, Form: "WI", Cfg: &cfgT{Target: target, Steps: steps, Early: true}})
				}
			}
		}
	}
	return programs
}
