// OVERLAP cases of C16: two RPCs whose interceptor activity overlaps on one decorated carrier.
//
// One interceptor X on the path (transport-level, outer or inner decoration; its own behaviour is
// "pass") makes its single onward call LATE, in one of three ways:
//
//	inline   it blocks until a gate opens, then calls onward itself
//	go-wait  it calls onward from another goroutine (which first waits for the gate) and waits for that goroutine
//	go-late  it starts such a goroutine and returns DeadlineExceeded "late:<X>" at once (the classic
//	         server-side timeout interceptor that has given up); the onward call happens after it has returned
//
// RPC 1 (method M1) is started and reaches the gate of X (go-late: and has completed for its
// caller). Then RPC 2 (method M2, any method of the same kind, also M1 itself) is run on the same
// carrier, either ungated to completion (order "2-in-between"), or gated the same way with the
// gates then opened 2-then-1 or 1-then-2. Every wait is a channel; nothing sleeps.
//
// The oracle is, PER RPC, the statement: each interceptor on the path exactly once, told the
// RPC's own FullMethod / flags, the handler iff every interceptor called onward, and the handler
// of the RPC's own method. Events are attributed to an RPC by what the event itself was given (the
// request value "req:<method>#<rpc>" for unary RPCs, the "rpc" metadata of the stream's context
// for streams), never by time.
package main

import (
	"context"
	"fmt"
	"os"
	"runtime"
	"runtime/debug"
	"strconv"
	"strings"
	"sync"
	"sync/atomic"

	"google.golang.org/grpc/metadata"
	"google.golang.org/protobuf/types/known/wrapperspb"
)

const (
	ovInline = 1
	ovGoWait = 2
	ovGoLate = 3

	ordBetween = 0 // RPC 2 is ungated and runs to completion while RPC 1 is held
	ord21      = 1 // both held; released 2, then 1
	ord12      = 2 // both held; released 1, then 2
)

var ovModeNames = []string{"", "inline", "go-wait", "go-late"}
var ovOrderNames = []string{"2-in-between", "both-held-release-2-then-1", "both-held-release-1-then-2"}

type ovT struct {
	X     string `json:"x"`     // the interceptor that calls onward late: T, D1 or D2
	Mode  int    `json:"mode"`  // ovInline / ovGoWait / ovGoLate
	Order int    `json:"order"` // ordBetween / ord21 / ord12
	M1    int    `json:"m1"`    // method index of RPC 1
	M2    int    `json:"m2"`    // method index of RPC 2
}

func (o *ovT) String() string {
	return fmt.Sprintf("overlap(X=%s,%s,%s,m1=%d,m2=%d)", o.X, ovModeNames[o.Mode], ovOrderNames[o.Order], o.M1, o.M2)
}

type gate struct {
	open     chan struct{}
	reached  chan struct{}
	lateDone chan struct{}
	once     sync.Once
}

func newGate() *gate {
	return &gate{open: make(chan struct{}), reached: make(chan struct{}), lateDone: make(chan struct{})}
}

// run makes the onward call of an interceptor in the given mode; late = the interceptor is to
// return now, the onward call will be made after the gate has opened.
func (g *gate) run(mode int, e *entry, onward func()) (late bool) {
	guarded := func() {
		defer func() {
			if r := recover(); r != nil {
				e.panicked = r
			}
		}()
		onward()
	}
	switch mode {
	case ovInline:
		close(g.reached)
		<-g.open
		guarded()
	case ovGoWait:
		done := make(chan struct{})
		go func() {
			defer close(done)
			<-g.open
			guarded()
		}()
		close(g.reached)
		<-done
	case ovGoLate:
		go func() {
			defer close(g.lateDone)
			<-g.open
			guarded()
		}()
		close(g.reached)
		return true
	}
	return false
}

type ovState struct {
	x     string
	mode  int
	gates map[int]*gate // by RPC; not written while RPCs are in flight
}

// gateFor: the gate that interceptor who has to respect for this RPC (nil = call onward normally).
// Only the first invocation of X for an RPC is gated; a second one (already a violation) proceeds.
func (l *clog) gateFor(who string, rpc int) *gate {
	ov := l.ov
	if ov == nil || ov.x != who {
		return nil
	}
	g := ov.gates[rpc]
	if g == nil {
		return nil
	}
	first := false
	g.once.Do(func() { first = true })
	if !first {
		return nil
	}
	return g
}

func rpcOfString(s string) int {
	i := strings.IndexByte(s, '#')
	if i < 0 || i+1 >= len(s) {
		return 0
	}
	j := i + 1
	for j < len(s) && s[j] >= '0' && s[j] <= '9' {
		j++
	}
	n, _ := strconv.Atoi(s[i+1 : j])
	return n
}

func rpcOfReq(req interface{}) int {
	if sv, ok := req.(*wrapperspb.StringValue); ok && sv != nil {
		return rpcOfString(sv.Value)
	}
	return 0
}

func rpcOfCtx(ctx context.Context) int {
	if ctx == nil {
		return 0
	}
	md, _ := metadata.FromIncomingContext(ctx)
	if v := md.Get("rpc"); len(v) == 1 {
		n, _ := strconv.Atoi(v[0])
		return n
	}
	return 0
}

var ovGateReached int64 // measured: overlap runs in which RPC 1 really was held at the gate of X

func runOverlap(c caseT, verbose bool) (probs []problem, observed string) {
	atomic.AddInt64(&progress, 1)
	current.Store(c.String())
	add := func(clause, sub, what string) { probs = append(probs, problem{clause, sub, what}) }
	defer func() {
		if r := recover(); r != nil {
			add("panic", "", fmt.Sprintf("library code panicked: %v", r))
		}
	}()
	ov := c.Ov
	l := &clog{}
	b := build(c, l, add)
	if b == nil {
		return
	}
	t := b.targets[0]

	n := c.U
	if c.Kind == "stream" {
		n = len(c.Flags)
	}
	type rpcT struct {
		id         int
		method     string
		full       string
		cs, ss     bool
		sent       string
		g          *gate
		callerDone chan struct{}
		res        callResult
		held       bool
	}
	mk := func(id, m int, gated bool) *rpcT {
		r := &rpcT{id: id, callerDone: make(chan struct{})}
		if c.Kind == "unary" {
			r.method = unaryName(m)
		} else {
			r.method = streamName(m)
			r.cs, r.ss = c.Flags[m]&1 != 0, c.Flags[m]&2 != 0
		}
		r.full = "/" + svcName + "/" + r.method
		r.sent = fmt.Sprintf("req:%s#%d", r.method, id)
		if gated {
			r.g = newGate()
		}
		return r
	}
	r1, r2 := mk(1, ov.M1, true), mk(2, ov.M2, ov.Order != ordBetween)
	st := &ovState{x: ov.X, mode: ov.Mode, gates: map[int]*gate{}}
	for _, r := range []*rpcT{r1, r2} {
		if r.g != nil {
			st.gates[r.id] = r.g
		}
	}
	l.take()
	l.ov = st

	start := func(r *rpcT) {
		go func() {
			defer close(r.callerDone)
			r.res = call(c, context.Background(), r.method, r.full, r.sent, r.id, r.cs, r.ss, b.final, b.srv, t)
		}()
		if r.g == nil {
			<-r.callerDone
			return
		}
		// until the RPC is held at the gate of X (or is over without ever getting there, which the oracle will report)
		select {
		case <-r.g.reached:
			r.held = true
		case <-r.callerDone:
			select {
			case <-r.g.reached:
				r.held = true
			default:
			}
		}
		if r.held && ov.Mode == ovGoLate {
			<-r.callerDone // X has given up; the RPC is over for its caller, the onward call is still to come
		}
	}
	finish := func(r *rpcT) {
		if r.g == nil {
			return
		}
		close(r.g.open)
		<-r.callerDone
		if r.held && ov.Mode == ovGoLate {
			<-r.g.lateDone
		}
	}
	start(r1)
	start(r2)
	if ov.Order == ord12 {
		finish(r1)
		finish(r2)
	} else {
		finish(r2)
		finish(r1)
	}
	l.ov = nil
	all := l.take()
	if r1.held {
		atomic.AddInt64(&ovGateReached, 1)
	}

	// attribute the events
	per := map[int][]*entry{}
	for _, e := range all {
		if e.rpc != 1 && e.rpc != 2 {
			add("unattributable-event", "", fmt.Sprintf("%s was invoked (FullMethod %q, handler of %q) with a request / stream that belongs to neither RPC", e.who, e.fullMethod, e.method))
			continue
		}
		per[e.rpc] = append(per[e.rpc], e)
	}
	var obs []string
	for _, r := range []*rpcT{r1, r2} {
		es := per[r.id]
		chain := c.chainWith(t.who, t.beh)
		for i := range chain {
			if chain[i].who == ov.X && r.g != nil && ov.Mode == ovGoLate {
				chain[i].late = true
			}
		}
		var evs []string
		for _, e := range es {
			if e.who == "H" {
				evs = append(evs, "H("+e.method+")")
			} else {
				evs = append(evs, e.who+"("+e.fullMethod+")")
			}
		}
		o := fmt.Sprintf("rpc%d %s: held=%v log=%v result=(%q %v err=%v)", r.id, r.method, r.held, evs, r.res.respVal, r.res.msgs, r.res.err)
		obs = append(obs, o)
		if verbose {
			fmt.Println("  " + o + fmt.Sprintf("   expected log=%v", expect(c, chain, r.method).log))
		}
		sub := fmt.Sprintf("rpc=%d,m=%d>%d/%d", r.id, ov.M1, ov.M2, n)
		if c.Kind == "stream" {
			sub += fmt.Sprintf(",cs=%v,ss=%v", r.cs, r.ss)
		}
		judge(callSpec{c: c, carrier: c.Carrier, method: r.method, full: r.full, cs: r.cs, ss: r.ss, css: r.ss, sub: sub,
			sent: r.sent, chain: chain, srv: b.srv}, es, r.res, add)
	}
	checkInputUntouched(b, l, add)
	return probs, strings.Join(obs, "; ")
}

// enumerateOverlap: see the head of this file. The late interceptor X is each interceptor on the
// path in turn (its own behaviour: pass); interceptors before X call onward (pass / rewrite, or
// absent where that is possible), interceptors after X take every behaviour; x every mode x every
// order x every ordered pair of methods of the kind (equal ones included) x carrier x form x
// handler outcome.
func enumerateOverlap(tier string, fn func(caseT)) {
	shs := []shape{{2, []int{1, 2}}, {1, []int{3}}}
	if tier == "thorough" {
		shs = []shape{{2, []int{1, 2}}, {1, []int{3}}, {2, []int{3, 0}}, {2, nil}, {0, []int{2, 2}}}
	}
	all := []int{bNil, bPass, bShort, bFail, bRewrite}
	set := []int{bPass, bShort, bFail, bRewrite}
	type chainT struct {
		x         string
		t, d1, d2 int
	}
	var chains []chainT
	for _, d1 := range set { // X = T
		for _, d2 := range all {
			chains = append(chains, chainT{"T", bPass, d1, d2})
		}
	}
	for _, t := range []int{bNil, bPass, bRewrite} { // X = D1
		for _, d2 := range all {
			chains = append(chains, chainT{"D1", t, bPass, d2})
		}
	}
	for _, t := range []int{bNil, bPass, bRewrite} { // X = D2
		for _, d1 := range []int{bPass, bRewrite} {
			chains = append(chains, chainT{"D2", t, d1, bPass})
		}
	}
	for _, sh := range shs {
		for _, carrier := range []string{"direct", "inproc", "http"} {
			for _, form := range []string{"IS", "WI"} {
				for _, kind := range []string{"unary", "stream"} {
					n := sh.U
					if kind == "stream" {
						n = len(sh.Flags)
					}
					for _, ch := range chains {
						depth := 1
						if ch.d2 != bNil {
							depth = 2
						}
						for mode := ovInline; mode <= ovGoLate; mode++ {
							for order := ordBetween; order <= ord12; order++ {
								for m1 := 0; m1 < n; m1++ {
									for m2 := 0; m2 < n; m2++ {
										for _, herr := range []bool{false, true} {
											fn(caseT{Carrier: carrier, Form: form, U: sh.U, Flags: sh.Flags, Depth: depth, Kind: kind,
												T: ch.t, D1: ch.d1, D2: ch.d2, HErr: herr,
												Ov: &ovT{X: ch.x, Mode: mode, Order: order, M1: m1, M2: m2}})
										}
									}
								}
							}
						}
					}
				}
			}
		}
	}
}

// ---- making the overlap phase deterministic
//
// What a late onward call finds can depend on whether the library recycles per-call state (say,
// through a sync.Pool) and whether another RPC was handed the recycled state in between. With a
// single P and no garbage collection between a Put and the next Get, sync.Pool hands back the
// object that was put last, so that such reuse happens every time rather than now and then.

type ovPhase struct {
	prevProcs int
	prevGC    int
	n         int
	live      uint64 // heap in use after the last collection
}

// poolCalibration: does sync.Pool, in this process configuration, hand back what was put last?
func poolCalibration(rounds int) (same int) {
	type box struct{ _ [4]int }
	p := sync.Pool{New: func() interface{} { return new(box) }}
	for i := 0; i < rounds; i++ {
		a := p.Get().(*box)
		p.Put(a)
		done := make(chan *box)
		go func() { b := p.Get().(*box); p.Put(b); done <- b }() // (the Get of the "other RPC" runs in another goroutine)
		if <-done == a {
			same++
		}
	}
	return same
}

func beginOverlapPhase() *ovPhase {
	ph := &ovPhase{prevProcs: runtime.GOMAXPROCS(1)}
	runtime.GC()
	ph.prevGC = debug.SetGCPercent(-1)
	return ph
}

// tick is called between cases: garbage is collected only here, never while RPCs are in flight
// (when: every 256 cases, unless the heap has not grown by half (at least 32 MB) since the last
// collection: a library that retains something for every decoration ever made - a tree under check
// may - would otherwise make every one of these forced single-P collections walk gigabytes)
func (ph *ovPhase) tick() {
	ph.n++
	if ph.n%256 == 0 {
		var ms runtime.MemStats
		runtime.ReadMemStats(&ms)
		if ms.HeapAlloc > ph.live+ph.live/2+32<<20 {
			runtime.GC()
			runtime.ReadMemStats(&ms)
			ph.live = ms.HeapAlloc
		}
	}
}

func (ph *ovPhase) end() {
	debug.SetGCPercent(ph.prevGC)
	runtime.GOMAXPROCS(ph.prevProcs)
}

func inconclusive(format string, a ...interface{}) {
	fmt.Fprintf(os.Stderr, "INCONCLUSIVE: "+format+"\n", a...)
	os.Exit(2)
}
