// C16, ONWARD MULTIPLICITY cases: how many times an interceptor calls onward within one RPC.
//
// Everywhere else in this check an interceptor calls onward at most once. A server-side retry (re-running an aborted
// transaction), a hedging or a "run it again with elevated rights" interceptor calls its onward handler several times,
// one call after the other, within one RPC. The statement's order ("the transport-supplied interceptor first and the
// decorating one next, then the original handler; the handler runs if and only if every interceptor calls onward") is
// about what an onward call leads to, so it holds for EVERY onward call: each one must go through all the layers
// below, in order, each exactly once per onward call made to it, and only then reach the handler; what that onward
// call handed on (request, context, stream) is what the next layer is given, and what the next layer returns is what
// that onward call returns. The reference is what grpc-go's own chained server interceptors do
// (grpc.ChainUnaryInterceptor / grpc.ChainStreamInterceptor over bufconn): the oracle's model of the event log is
// compared with a real grpc-go server for every chain of the grammar at start-up (muReference), and the run is
// inconclusive if they disagree.
//
// Grammar: transport-level {absent, short, fail, pass x n, rewrite x n} x outer decoration {short, fail, pass x n,
// rewrite x n} x inner decoration {absent, short, fail, pass x n, rewrite x n}, n = number of onward calls the
// interceptor makes one after the other in every invocation (quick 1..2, thorough 1..3; it returns according to the
// result of the LAST call), restricted to the chains in which an interceptor with n >= 2 is reached; x what every
// onward call hands on {what was received | a fresh clone of the request tagged with the layer and the number of the
// onward call + a context derived for that onward call; stream: a fresh wrapper with such a context that tags every
// message in both directions} x handler outcome {succeeds every time, fails every time, fails on its first run in the
// RPC and succeeds afterwards} x carrier x form x kind, on a few descriptor shapes, other-kind interceptors absent.
package main

import (
	"context"
	"fmt"
	"io"
	"net"
	"reflect"
	"strings"
	"sync"
	"sync/atomic"

	"google.golang.org/grpc"
	"google.golang.org/grpc/codes"
	"google.golang.org/grpc/credentials/insecure"
	"google.golang.org/grpc/status"
	"google.golang.org/grpc/test/bufconn"
	"google.golang.org/protobuf/types/known/wrapperspb"
)

type muT struct {
	// N: the number of onward calls that the transport-level / outer / inner interceptor of the called kind makes,
	// one after the other, in every invocation (1 where the layer is absent or does not call onward)
	N [3]int `json:"n"`
	// Fresh: every onward call hands on a fresh clone of the request and a context derived for that very call
	// (stream: a fresh wrapper), tagged "<who>#<k>"; otherwise every onward call hands on what the interceptor received
	Fresh bool `json:"fresh,omitempty"`
	// HSeq: 0 = the handler's outcome is HErr on every run; 1 = the handler fails on its first run in the RPC and succeeds afterwards
	HSeq int `json:"hseq,omitempty"`
}

func (m *muT) mult(who string) int {
	switch who {
	case "T":
		return m.N[0]
	case "D1":
		return m.N[1]
	case "D2":
		return m.N[2]
	}
	return 1
}

func (m *muT) handlerFails(herr bool, run int) bool {
	if m.HSeq == 1 {
		return run == 1
	}
	return herr
}

func (m *muT) String() string {
	s := fmt.Sprintf("onward-calls(T=%d,D1=%d,D2=%d)", m.N[0], m.N[1], m.N[2])
	if m.Fresh {
		s += " fresh-request-and-context-per-onward-call"
	}
	if m.HSeq == 1 {
		s += " handler-fails-on-first-run-only"
	}
	return s
}

// muChainStr: the chain with the number of onward calls of every onward-calling layer, e.g. "T=pass*2,D1=rewrite*1,D2=nil"
func muChainStr(c caseT) string {
	one := func(who string, b int) string {
		if onwardBeh(b) {
			return fmt.Sprintf("%s=%s*%d", who, behNames[b], c.Mu.mult(who))
		}
		return who + "=" + behNames[b]
	}
	return one("T", c.T) + "," + one("D1", c.D1) + "," + one("D2", c.D2)
}

func muHandlerStr(c caseT) string {
	if c.Mu.HSeq == 1 {
		return "fails-first-run-only"
	}
	return fmt.Sprintf("herr=%v", c.HErr)
}

func muFingerprint(c caseT, pr problem) string {
	head := fmt.Sprintf("C16|%s|%s|%s|depth=%d|%s", c.Carrier, c.Form, c.Kind, c.Depth, muChainStr(c))
	switch pr.clause {
	case "input-desc-modified", "decorated-shape", "nil-nil-not-same", "registration-lost":
		return fmt.Sprintf("C16|%s|%s|depth=%d|onward-multiplicity|%s|%s", c.Form, c.Kind, c.Depth, pr.sub, pr.clause)
	case "result-passthrough", "caller-result", "client-status", "client-response", "request-value", "panic",
		"request-identity", "stream-identity", "context-passthrough":
		return fmt.Sprintf("%s|fresh=%v|%s|%s|%s", head, c.Mu.Fresh, muHandlerStr(c), pr.sub, pr.clause)
	}
	// the event log and what interceptors were told: neither what is handed on nor the handler's outcome can matter
	return fmt.Sprintf("%s|%s|%s", head, pr.sub, pr.clause)
}

// onwardRec is one onward call made by an interceptor
type onwardRec struct {
	reqOut     interface{}
	ctxOut     context.Context
	streamOut  grpc.ServerStream
	gotResp    interface{}
	gotErr     error
	first, end int // the events logged while this onward call was running: [first, end)
	returned   bool
}

func muTag(who string, k int) string { return fmt.Sprintf("%s#%d", who, k) }

func (l *clog) count() int {
	l.mu.Lock()
	defer l.mu.Unlock()
	return len(l.es)
}

func (l *clog) nextRun() int {
	l.mu.Lock()
	defer l.mu.Unlock()
	l.hruns++
	return l.hruns
}

func (l *clog) resetRuns() {
	l.mu.Lock()
	l.hruns = 0
	l.mu.Unlock()
}

// muUnary: the onward-calling part of a unary interceptor (mkUnary) in a multiplicity case
func (l *clog) muUnary(e *entry, who string, b int, ctx context.Context, req interface{}, info *grpc.UnaryServerInfo, handler grpc.UnaryHandler) (interface{}, error) {
	n := l.mul.mult(who)
	for k := 0; k < n; k++ {
		o := &onwardRec{reqOut: req, ctxOut: ctx}
		if l.mul.Fresh {
			tag := muTag(who, k)
			if sv, ok := req.(*wrapperspb.StringValue); ok {
				o.reqOut = wrapperspb.String(sv.Value + "+" + tag) // the received request itself stays untouched
			}
			o.ctxOut = context.WithValue(ctx, ctxKey{who}, "ctx:"+tag)
		}
		e.ons = append(e.ons, o)
		l.onward(who)
		o.first = l.count()
		o.gotResp, o.gotErr = handler(o.ctxOut, o.reqOut)
		o.end = l.count()
		o.returned = true
	}
	last := e.ons[n-1]
	e.reqOut, e.gotResp, e.gotErr = last.reqOut, last.gotResp, last.gotErr
	e.after, e.fullMethodAfter = true, info.FullMethod
	switch b {
	case bPass:
		e.retResp, e.retErr = e.gotResp, e.gotErr
	case bRewrite:
		e.retResp = wrapperspb.String("rw:" + who)
	default:
		panic("multiplicity cases: behaviour " + behNames[b])
	}
	l.returning(who)
	return e.retResp, e.retErr
}

// muStream: the same for a stream interceptor (mkStream)
func (l *clog) muStream(e *entry, who string, b int, srv interface{}, ss grpc.ServerStream, info *grpc.StreamServerInfo, handler grpc.StreamHandler) error {
	n := l.mul.mult(who)
	for k := 0; k < n; k++ {
		o := &onwardRec{streamOut: ss}
		if l.mul.Fresh {
			tag := muTag(who, k)
			o.streamOut = &wrapStream{ServerStream: ss, who: tag, ctx: context.WithValue(e.ctx, ctxKey{who}, "ctx:"+tag)}
		}
		e.ons = append(e.ons, o)
		l.onward(who)
		o.first = l.count()
		o.gotErr = handler(srv, o.streamOut)
		o.end = l.count()
		o.returned = true
	}
	last := e.ons[n-1]
	e.streamOut, e.gotErr = last.streamOut, last.gotErr
	e.after, e.fullMethodAfter, e.csAfter, e.ssAfter = true, info.FullMethod, info.IsClientStream, info.IsServerStream
	switch b {
	case bPass:
		e.retErr = e.gotErr
	case bRewrite:
		e.retErr = status.Error(codes.Aborted, "rw:"+who)
	default:
		panic("multiplicity cases: behaviour " + behNames[b])
	}
	l.returning(who)
	return e.retErr
}

// ---------------------------------------------------------------- reference model

// muNode is one expected event: an invocation of an interceptor or a run of the handler
type muNode struct {
	who  string
	pos  int       // position in the chain; len(chain) = the handler
	kids []*muNode // interceptor: what each of its onward calls leads to
	run  int       // handler: the how-many-th run in this RPC
	// what this participant returns
	resp string
	code codes.Code
	msg  string
}

type muPathEl struct {
	who string
	k   int
}

type muExpectation struct {
	root  *muNode
	log   []string
	sent  []string // stream: the messages that arrive at the transport's stream, in order
	hruns int
}

// muExpect: every onward call of layer i leads to one invocation of layer i+1 (the handler after the last layer)
func muExpect(c caseT, ch []chainEl, method string) muExpectation {
	var x muExpectation
	tagged := func(m string, path []muPathEl) string { // a message sent beneath these onward calls, as seen above all of them
		if c.Kind != "stream" || !c.Mu.Fresh {
			return m
		}
		for i := len(path) - 1; i >= 0; i-- {
			m += "+" + muTag(path[i].who, path[i].k)
		}
		return m
	}
	var ev func(i int, path []muPathEl) *muNode
	ev = func(i int, path []muPathEl) *muNode {
		if i == len(ch) {
			x.hruns++
			n := &muNode{who: "H", pos: i, run: x.hruns}
			x.log = append(x.log, "H")
			if c.Mu.handlerFails(c.HErr, n.run) {
				n.code, n.msg = codes.NotFound, "handler error"
			} else {
				n.resp = "resp:" + method
				x.sent = append(x.sent, tagged("resp:"+method, path))
			}
			return n
		}
		who := ch[i].who
		n := &muNode{who: who, pos: i}
		x.log = append(x.log, who)
		switch ch[i].beh {
		case bShort:
			n.resp = "short:" + who
			x.sent = append(x.sent, tagged("short:"+who, path))
			return n
		case bFail:
			n.code, n.msg = codes.PermissionDenied, "fail:"+who
			return n
		}
		for k := 0; k < c.Mu.mult(who); k++ {
			n.kids = append(n.kids, ev(i+1, append(append([]muPathEl(nil), path...), muPathEl{who, k})))
		}
		last := n.kids[len(n.kids)-1]
		switch ch[i].beh {
		case bPass:
			n.resp, n.code, n.msg = last.resp, last.code, last.msg
		case bRewrite:
			if c.Kind == "unary" {
				n.resp = "rw:" + who
			} else {
				n.code, n.msg = codes.Aborted, "rw:"+who
			}
		default:
			panic("multiplicity cases: behaviour " + behNames[ch[i].beh])
		}
		return n
	}
	x.root = ev(0, nil)
	return x
}

// muReached: does the model reach an interceptor that calls onward more than once (the mechanism)? is the handler reached?
func muReached(c caseT) (multi, handler bool) {
	for _, el := range c.chain() {
		if !onwardBeh(el.beh) {
			return multi, false
		}
		if c.Mu.mult(el.who) >= 2 {
			multi = true
		}
	}
	return multi, true
}

func muClassifyLog(got, want []string, ch []chainEl) (clause, detail string) {
	if reflect.DeepEqual(got, want) || (len(got) == 0 && len(want) == 0) {
		return "", ""
	}
	cnt := func(xs []string, w string) int {
		n := 0
		for _, x := range xs {
			if x == w {
				n++
			}
		}
		return n
	}
	for _, g := range got {
		if strings.HasPrefix(g, "x") {
			return "other-kind-interceptor-invoked", g
		}
	}
	names := []string{}
	for _, el := range ch {
		names = append(names, el.who)
	}
	names = append(names, "H")
	for _, w := range names {
		g, x := cnt(got, w), cnt(want, w)
		part := "interceptor"
		if w == "H" {
			part = "handler"
		}
		if g < x {
			return fmt.Sprintf("%s-invoked-less-often-than-onward-calls-were-made-to-it", part), fmt.Sprintf("%s:%d<%d", w, g, x)
		}
		if g > x {
			return fmt.Sprintf("%s-invoked-more-often-than-onward-calls-were-made-to-it", part), fmt.Sprintf("%s:%d>%d", w, g, x)
		}
	}
	if len(got) == len(want) {
		return "order", ""
	}
	return "log-mismatch", ""
}

// ---------------------------------------------------------------- judging one RPC

var muCallCount, muMultiObserved int64 // measured

func muJudge(k callSpec, es []*entry, res callResult, add func(clause, sub, what string)) {
	c, sub, full, method := k.c, k.sub, k.full, k.method
	want := muExpect(c, k.chain, method)
	got := whos(es)
	if res.panicked != nil {
		add("panic", sub, fmt.Sprintf("call %s panicked: %v", full, res.panicked))
		return
	}
	if cl, detail := muClassifyLog(got, want.log, k.chain); cl != "" {
		s := sub
		if detail != "" {
			s = detail + "," + sub
		}
		add(cl, s, fmt.Sprintf("call %s: event log %v, expected %v (every onward call of an interceptor must go through all the layers below it, then the handler)", full, got, want.log))
		return
	}
	// walk the expected tree along the log; the events of an onward call are those logged while it was running
	var walk func(n *muNode, idx int, parent *entry, o *onwardRec, wantReq string, path []muPathEl) int
	walk = func(n *muNode, idx int, parent *entry, o *onwardRec, wantReq string, path []muPathEl) int {
		e := es[idx]
		from := "caller"
		if parent != nil {
			from = muTag(parent.who, path[len(path)-1].k)
		}
		hand := from + ">" + e.who
		if e.who == "H" {
			if e.method != method {
				add("wrong-method-handler", sub, fmt.Sprintf("call %s ran the handler of %s", full, e.method))
			}
			if e.srv != k.srv {
				add("handler-srv", sub, fmt.Sprintf("call %s: handler got srv %v, registered %v", full, e.srv, k.srv))
			}
			if e.run != n.run {
				add("handler-run-count", sub, fmt.Sprintf("call %s: run %d of the handler where the model has run %d", full, e.run, n.run))
			}
			// (a stream's one request message is read by the first run of the handler; later runs find the end of the stream)
			if e.reqValue != wantReq && (c.Kind == "unary" || n.run == 1) {
				add("request-value", hand+","+sub, fmt.Sprintf("call %s: run %d of the handler read request %q, expected %q (sent %q)", full, e.run, e.reqValue, wantReq, k.sent))
			}
		} else {
			if e.fullMethod != full {
				add("full-method", e.who+","+sub, fmt.Sprintf("call %s: interceptor %s was told FullMethod %q", full, e.who, e.fullMethod))
			}
			if c.Kind == "stream" && (e.cs != k.cs || e.ss != k.ss) {
				add("stream-flags", e.who+","+sub, fmt.Sprintf("call %s (client=%v server=%v): interceptor %s was told IsClientStream=%v IsServerStream=%v", full, k.cs, k.ss, e.who, e.cs, e.ss))
			}
			if e.after && e.fullMethodAfter != full {
				add("full-method", e.who+"@return,"+sub, fmt.Sprintf("call %s: when its onward calls had come back, the info given to interceptor %s said FullMethod %q", full, e.who, e.fullMethodAfter))
			}
			if e.after && c.Kind == "stream" && (e.csAfter != k.cs || e.ssAfter != k.ss) {
				add("stream-flags", e.who+"@return,"+sub, fmt.Sprintf("call %s (client=%v server=%v): when its onward calls had come back, the info given to interceptor %s said IsClientStream=%v IsServerStream=%v", full, k.cs, k.ss, e.who, e.csAfter, e.ssAfter))
			}
		}
		if o != nil {
			// what that onward call handed on is what this layer is given
			if c.Kind == "unary" {
				if e.req != o.reqOut {
					add("request-identity", hand+","+sub, fmt.Sprintf("call %s: %s was given the request %s, but onward call %s handed %s on", full, e.who, describe(e.req), from, describe(o.reqOut)))
				}
			} else if e.stream != o.streamOut {
				add("stream-identity", hand+","+sub, fmt.Sprintf("call %s: %s was given the stream %s, but onward call %s handed %s on", full, e.who, describe(e.stream), from, describe(o.streamOut)))
			}
		}
		if c.Mu.Fresh {
			for _, up := range path {
				if w := "ctx:" + muTag(up.who, up.k); e.ctx == nil || e.ctx.Value(ctxKey{up.who}) != w {
					var has interface{}
					if e.ctx != nil {
						has = e.ctx.Value(ctxKey{up.who})
					}
					add("context-passthrough", muTag(up.who, up.k)+">"+e.who+","+sub, fmt.Sprintf("call %s: the context given to %s has %v where onward call %s of %s put %q", full, e.who, has, muTag(up.who, up.k), up.who, w))
				}
			}
		}
		next := idx + 1
		if len(n.kids) > 0 && len(e.ons) != len(n.kids) {
			add("log-structure", e.who+","+sub, fmt.Sprintf("call %s: %s made %d onward calls, the model %d", full, e.who, len(e.ons), len(n.kids)))
			return -1
		}
		for ki, kid := range n.kids {
			oc := e.ons[ki]
			if oc.first != next || oc.end <= oc.first {
				add("log-structure", muTag(e.who, ki)+","+sub, fmt.Sprintf("call %s: onward call %s ran while events [%d,%d) of %v were logged, expected them to start at %d", full, muTag(e.who, ki), oc.first, oc.end, got, next))
				return -1
			}
			wr := wantReq
			if c.Mu.Fresh {
				wr += "+" + muTag(e.who, ki)
			}
			child := es[oc.first]
			next = walk(kid, oc.first, e, oc, wr, append(append([]muPathEl(nil), path...), muPathEl{e.who, ki}))
			if next < 0 {
				return -1
			}
			if next != oc.end {
				add("log-structure", muTag(e.who, ki)+","+sub, fmt.Sprintf("call %s: onward call %s ran while events [%d,%d) of %v were logged, but what it leads to ends at %d", full, muTag(e.who, ki), oc.first, oc.end, got, next))
				return -1
			}
			if oc.gotResp != child.retResp || !sameErr(oc.gotErr, child.retErr) {
				add("result-passthrough", muTag(e.who, ki)+"<"+child.who+","+sub, fmt.Sprintf("call %s: onward call %s got (%v, %s) but %s returned (%v, %s)", full, muTag(e.who, ki), oc.gotResp, describeErr(oc.gotErr), child.who, child.retResp, describeErr(child.retErr)))
			}
		}
		return next
	}
	if end := walk(want.root, 0, nil, nil, k.sent, nil); end >= 0 && end != len(es) {
		add("log-structure", sub, fmt.Sprintf("call %s: events after the outermost participant's: %v", full, got))
	}
	for _, e := range es {
		if len(e.ons) >= 2 {
			atomic.AddInt64(&muMultiObserved, 1)
			break
		}
	}
	// what the caller sees
	root := want.root
	if k.carrier == "direct" {
		top := es[0]
		if c.Kind == "unary" && res.resp != top.retResp {
			add("caller-result", sub, fmt.Sprintf("call %s: caller got response %v, %s returned %v", full, res.resp, top.who, top.retResp))
		}
		if !sameErr(res.err, top.retErr) {
			add("caller-result", sub, fmt.Sprintf("call %s: caller got error %s, %s returned %s", full, describeErr(res.err), top.who, describeErr(top.retErr)))
		}
		if st, _ := status.FromError(res.err); st.Code() != root.code || (root.code != codes.OK && st.Message() != root.msg) || (c.Kind == "unary" && root.code == codes.OK && res.respVal != root.resp) {
			add("caller-result", sub, fmt.Sprintf("call %s: caller got (%q, %v), expected (%q, code=%v msg=%q)", full, res.respVal, res.err, root.resp, root.code, root.msg))
		}
		if c.Kind == "stream" && !reflect.DeepEqual(res.msgs, want.sent) && !(len(res.msgs) == 0 && len(want.sent) == 0) {
			add("caller-result", sub, fmt.Sprintf("call %s: messages sent %v, expected %v", full, res.msgs, want.sent))
		}
	} else if c.Kind == "unary" {
		// (streams on a transport: what a client makes of a handler that ran more than once on one stream is the transport's business)
		st, _ := status.FromError(res.err)
		if st.Code() != root.code || (root.code != codes.OK && st.Message() != root.msg) {
			add("client-status", sub, fmt.Sprintf("call %s: client got %v, expected code=%v msg=%q", full, res.err, root.code, root.msg))
		} else if root.code == codes.OK && res.respVal != root.resp {
			add("client-response", sub, fmt.Sprintf("call %s: client got response %q, expected %q", full, res.respVal, root.resp))
		}
	}
}

// runMu builds the configuration on the real library and calls every method of c.Kind.
func runMu(c caseT, verbose bool) (probs []problem, observed string) {
	atomic.AddInt64(&progress, 1)
	current.Store(c.String())
	add := func(clause, sub, what string) { probs = append(probs, problem{clause, sub, what}) }
	defer func() {
		if r := recover(); r != nil {
			add("panic", "", fmt.Sprintf("library code panicked: %v", r))
		}
	}()
	l := &clog{mul: c.Mu}
	b := build(c, l, add)
	if b == nil {
		return
	}
	t := b.targets[0]
	n := c.U
	if c.Kind == "stream" {
		n = len(c.Flags)
	}
	var obs []string
	for i := 0; i < n; i++ {
		sub := fmt.Sprintf("m=%d/%d", i, n)
		var method string
		var cs, ss bool
		if c.Kind == "unary" {
			method = unaryName(i)
		} else {
			method = streamName(i)
			cs, ss = c.Flags[i]&1 != 0, c.Flags[i]&2 != 0
			sub += fmt.Sprintf(",cs=%v,ss=%v", cs, ss)
		}
		full := "/" + svcName + "/" + method
		chain := c.chainWith(t.who, t.beh)
		// the server side of a transport runs in a goroutine of its own, and the client of a stream may give up
		// early: wait until the outermost participant has returned
		var done chan struct{}
		l.beforeOnward, l.onReturn = nil, nil
		if c.Carrier != "direct" && c.Kind == "stream" && len(chain) > 0 {
			done = make(chan struct{})
			var once sync.Once
			top := chain[0].who
			l.onReturn = func(who string) {
				if who == top {
					once.Do(func() { close(done) })
				}
			}
		}
		l.take()
		l.resetRuns()
		ctx, cancel := context.WithCancel(context.Background())
		res := call(c, ctx, method, full, "req:"+method, 0, cs, ss, b.final, b.srv, t)
		// (a client that was promised a single response stops reading after the second message; the server side of
		// the in-process channel then blocks in SendMsg until the RPC's context is done: end the RPC for the client
		// first, as a client that has its answer does, then wait for the server side)
		cancel()
		if done != nil && res.panicked == nil {
			<-done
		}
		l.onReturn = nil
		es := l.take()
		atomic.AddInt64(&muCallCount, 1)
		o := fmt.Sprintf("%s: log=%v result=(%q %v err=%v)", method, whos(es), res.respVal, res.msgs, res.err)
		obs = append(obs, o)
		if verbose {
			fmt.Println("  " + o + fmt.Sprintf("   expected log=%v", muExpect(c, chain, method).log))
		}
		muJudge(callSpec{c: c, carrier: c.Carrier, method: method, full: full, cs: cs, ss: ss, css: ss, sub: sub,
			sent: "req:" + method, chain: chain, srv: b.srv}, es, res, add)
	}
	l.resetRuns()
	checkInputUntouched(b, l, add)
	return probs, strings.Join(obs, "; ")
}

// ---------------------------------------------------------------- enumeration

type muOpt struct{ b, n int }

func muOptions(maxN int, withNil bool) []muOpt {
	var out []muOpt
	if withNil {
		out = append(out, muOpt{bNil, 1})
	}
	for n := 1; n <= maxN; n++ {
		out = append(out, muOpt{bPass, n}, muOpt{bRewrite, n})
	}
	return append(out, muOpt{bShort, 1}, muOpt{bFail, 1})
}

func muMaxN(tier string) int {
	if tier == "thorough" {
		return 3
	}
	return 2
}

// muChains: every (transport-level, outer, inner) combination in which an interceptor that calls onward more than once
// is reached, crossed with what is handed on and with the handler's outcome (varied only where the handler is reached)
func muChains(tier string, fn func(t, d1, d2 muOpt, fresh bool, herr bool, hseq int)) {
	maxN := muMaxN(tier)
	for _, t := range muOptions(maxN, true) {
		for _, d1 := range muOptions(maxN, false) {
			for _, d2 := range muOptions(maxN, true) {
				probe := caseT{Kind: "unary", T: t.b, D1: d1.b, D2: d2.b, Mu: &muT{N: [3]int{t.n, d1.n, d2.n}}}
				multi, handler := muReached(probe)
				if !multi {
					continue // the other parts of the grammar have this chain
				}
				for _, fresh := range []bool{false, true} {
					fn(t, d1, d2, fresh, false, 0)
					if handler {
						fn(t, d1, d2, fresh, true, 0)
						fn(t, d1, d2, fresh, false, 1)
					}
				}
			}
		}
	}
}

func enumerateMu(tier string, fn func(caseT)) {
	shs := []shape{{1, nil}, {0, []int{3}}, {2, []int{1, 2}}}
	if tier == "thorough" {
		shs = append(shs, shape{1, []int{0}}, shape{2, []int{3, 0}})
	}
	for _, sh := range shs {
		for _, carrier := range []string{"direct", "inproc", "http"} {
			for _, form := range []string{"IS", "WI"} {
				for _, kind := range []string{"unary", "stream"} {
					if (kind == "unary" && sh.U == 0) || (kind == "stream" && len(sh.Flags) == 0) {
						continue
					}
					muChains(tier, func(t, d1, d2 muOpt, fresh bool, herr bool, hseq int) {
						depth := 1
						if d2.b != bNil {
							depth = 2
						}
						fn(caseT{Carrier: carrier, Form: form, U: sh.U, Flags: sh.Flags, Depth: depth, Kind: kind,
							T: t.b, D1: d1.b, D2: d2.b, HErr: herr, Mu: &muT{N: [3]int{t.n, d1.n, d2.n}, Fresh: fresh, HSeq: hseq}})
					})
				}
			}
		}
	}
}

// ---------------------------------------------------------------- reference: grpc-go's chained server interceptors

// muReference runs every chain of the grammar on a real grpc-go server (over bufconn) whose interceptors are
// chained with grpc.ChainUnaryInterceptor / grpc.ChainStreamInterceptor, the plain description registered, and
// compares the event log (and, for unary RPCs, what the client gets) with the oracle's model.
func muReference(tier string) (ok bool, what string) {
	type slotT struct {
		u grpc.UnaryServerInterceptor
		s grpc.StreamServerInterceptor
	}
	var cur [3]slotT // the interceptors of the configuration being run (nil = that layer is absent)
	unarySlot := func(i int) grpc.UnaryServerInterceptor {
		return func(ctx context.Context, req interface{}, info *grpc.UnaryServerInfo, handler grpc.UnaryHandler) (interface{}, error) {
			if cur[i].u == nil {
				return handler(ctx, req)
			}
			return cur[i].u(ctx, req, info, handler)
		}
	}
	streamSlot := func(i int) grpc.StreamServerInterceptor {
		return func(srv interface{}, ss grpc.ServerStream, info *grpc.StreamServerInfo, handler grpc.StreamHandler) error {
			if cur[i].s == nil {
				return handler(srv, ss)
			}
			return cur[i].s(srv, ss, info, handler)
		}
	}
	l := &clog{}
	shapeC := caseT{U: 1, Flags: []int{3}}
	type refServer struct {
		gs *grpc.Server
		cc *grpc.ClientConn
	}
	servers := map[bool]*refServer{}
	defer func() {
		for _, r := range servers {
			if r.cc != nil {
				r.cc.Close()
			}
			r.gs.Stop()
		}
	}()
	for _, herr := range []bool{false, true} {
		dc := shapeC
		dc.HErr = herr
		lis := bufconn.Listen(1 << 20)
		gs := grpc.NewServer(grpc.ChainUnaryInterceptor(unarySlot(0), unarySlot(1), unarySlot(2)),
			grpc.ChainStreamInterceptor(streamSlot(0), streamSlot(1), streamSlot(2)))
		gs.RegisterService(makeDesc(dc, l), &impl{1})
		go gs.Serve(lis)
		r := &refServer{gs: gs}
		servers[herr] = r
		cc, err := grpc.Dial("bufnet",
			grpc.WithContextDialer(func(ctx context.Context, _ string) (net.Conn, error) { return lis.DialContext(ctx) }),
			grpc.WithTransportCredentials(insecure.NewCredentials()))
		if err != nil {
			return false, "dialling the reference server: " + err.Error()
		}
		r.cc = cc
	}
	n, bad := 0, ""
	muChains(tier, func(t, d1, d2 muOpt, fresh bool, herr bool, hseq int) {
		if bad != "" {
			return
		}
		for _, kind := range []string{"unary", "stream"} {
			c := shapeC
			c.Kind, c.T, c.D1, c.D2, c.HErr = kind, t.b, d1.b, d2.b, herr
			c.Mu = &muT{N: [3]int{t.n, d1.n, d2.n}, Fresh: fresh, HSeq: hseq}
			l.mul = c.Mu
			l.resetRuns()
			l.take()
			for i, el := range []chainEl{{who: "T", beh: c.T}, {who: "D1", beh: c.D1}, {who: "D2", beh: c.D2}} {
				cur[i] = slotT{}
				if kind == "unary" {
					cur[i].u = mkUnary(l, el.who, el.beh, 0)
				} else {
					cur[i].s = mkStream(l, el.who, el.beh, 0)
				}
			}
			cc := servers[herr].cc
			var code codes.Code
			var msg, resp string
			if kind == "unary" {
				var out wrapperspb.StringValue
				err := cc.Invoke(context.Background(), "/"+svcName+"/U0", wrapperspb.String("req:U0"), &out)
				st, _ := status.FromError(err)
				code, msg, resp = st.Code(), st.Message(), out.Value
			} else {
				st, err := cc.NewStream(context.Background(), &grpc.StreamDesc{StreamName: "S0", ClientStreams: true, ServerStreams: true}, "/"+svcName+"/S0")
				if err == nil {
					if err = st.SendMsg(wrapperspb.String("req:S0")); err == nil || err == io.EOF {
						st.CloseSend()
						for err = nil; err == nil; {
							err = st.RecvMsg(new(wrapperspb.StringValue))
						}
					}
				}
				if err == io.EOF {
					err = nil
				}
				s, _ := status.FromError(err)
				code, msg = s.Code(), s.Message()
			}
			got := whos(l.take())
			method := map[string]string{"unary": "U0", "stream": "S0"}[kind]
			want := muExpect(c, c.chain(), method)
			n++
			if !reflect.DeepEqual(got, want.log) {
				bad = fmt.Sprintf("%s %s %s: grpc-go's chained interceptors log %v, the model %v", kind, muChainStr(c), c.Mu.String(), got, want.log)
				return
			}
			if code != want.root.code || (code != codes.OK && msg != want.root.msg) || (kind == "unary" && code == codes.OK && resp != want.root.resp) {
				bad = fmt.Sprintf("%s %s %s: the client of grpc-go got (%q, code=%v msg=%q), the model (%q, code=%v msg=%q)", kind, muChainStr(c), c.Mu.String(), resp, code, msg, want.root.resp, want.root.code, want.root.msg)
				return
			}
		}
	})
	for i := range cur {
		cur[i] = slotT{}
	}
	if bad != "" {
		return false, bad
	}
	return true, fmt.Sprintf("%d RPCs on a grpc-go server over bufconn with chained interceptors: event log and client-visible status (unary: and response) as the model says", n)
}
