// C16, ONWARD MULTIPLICITY cases: how many times an interceptor calls onward within one RPC.
//
// Everywhere else in this check an interceptor calls onward at most once. A server-side retry (re-running an aborted
// transaction), a hedging or a "run it again with elevated rights" interceptor calls its onward handler several times,
// one call after the other, within one RPC. The statement's order ("the transport-supplied interceptor first and the
// decorating one next, then the original handler; the handler runs if and only if every interceptor calls onward") is
// about what an onward call leads to, so it holds for EVERY onward call: each one must go through all the layers
// below, in order, each exactly once per onward call made to it, and only then reach the handler; what that onward
// call handed on (request, context, stream) is what the next layer is given, and what the next layer returns is what
// that onward call returns. The reference is what grpc-go's own chained server interceptors do
// (grpc.ChainUnaryInterceptor / grpc.ChainStreamInterceptor over bufconn): the oracle's model of the event log is
// compared with a real grpc-go server for every chain of the grammar at start-up (muReference), and the run is
// inconclusive if they disagree.
//
// Grammar: transport-level {absent, short, fail, pass x n, rewrite x n} x outer decoration {short, fail, pass x n,
// rewrite x n} x inner decoration {absent, short, fail, pass x n, rewrite x n}, n = number of onward calls the
// interceptor makes one after the other in every invocation (quick 1..2, thorough 1..3; it returns according to the
// result of the LAST call), restricted to the chains in which an interceptor with n >= 2 is reached; x what every
// onward call hands on {what was received | a fresh clone of the request tagged with the layer and the number of the
// onward call + a context derived for that onward call; stream: a fresh wrapper with such a context that tags every
// message in both directions} x handler outcome {succeeds every time, fails every time, fails on its first run in the
// RPC and succeeds afterwards} x carrier x form x kind, on a few descriptor shapes, other-kind interceptors absent.
package main

import (
	"context"
	"fmt"
	"io"
	"net"
	"reflect"
	"strings"
	"sync"
	"sync/atomic"

	"google.golang.org/grpc"
	"google.golang.org/grpc/codes"
	"google.golang.org/grpc/credentials/insecure"
	"google.golang.org/grpc/status"
	"google.golang.org/grpc/test/bufconn"
	"google.golang.org/protobuf/types/known/wrapperspb"
)

type muT struct {
	// N: the number of onward calls that the transport-level / outer / inner interceptor of the called kind makes,
	// one after the other, in every invocation (1 where the layer is absent or does not call onward)
	N [3]int `json:"n"`
	// Fresh: every onward call hands on a fresh clone of the request and a context derived for that very call
	// (stream: a fresh wrapper), tagged "<who>#<k>"; otherwise every onward call hands on what the interceptor received
	Fresh bool `json:"fresh,omitempty"`
	// HSeq: 0 = the handler's outcome is HErr on every run; 1 = the handler fails on its first run in the RPC and succeeds afterwards
	HSeq int `json:"hseq,omitempty"`
}

func (m *muT) mult(who string) int {
	switch who {
	case "T":
		return m.N[0]
	case "D1":
		return m.N[1]
	case "D2":
		return m.N[2]
	}
	return 1
}

func (m *muT) handlerFails(herr bool, run int) bool {
	if m.HSeq == 1 {
		return run == 1
	}
	return herr
}

func (m *muT) String() string {
	s := fmt.Sprintf("onward-calls(T=%d,D1=%d,D2=%d)", m.N[0], m.N[1], m.N[2])
	if m.Fresh {
		s += " fresh-request-and-context-per-onward-call"
	}
	if m.HSeq == 1 {
		s += " handler-fails-on-first-run-only"
	}
	return s
}

// muChainStr: the chain with the number of onward calls of every onward-calling layer, e.g. "T=pass*2,D1=rewrite*1,D2=nil"
func muChainStr(c caseT) string {
	one := func(who string, b int) string {
		if onwardBeh(b) {
			return fmt.Sprintf("%s=%s*%d", who, behNames[b], c.Mu.mult(who))
		}
		return who + "=" + behNames[b]
	}
	return one("T", c.T) + "," + one("D1", c.D1) + "," + one("D2", c.D2)
}

func muHandlerStr(c caseT) string {
	if c.Mu.HSeq == 1 {
		return "fails-first-run-only"
	}
	return fmt.Sprintf("herr=%v", c.HErr)
}

func muFingerprint(c caseT, pr problem) string {
	head := fmt.Sprintf("C16|%s|%s|%s|depth=%d|%s", c.Carrier, c.Form, c.Kind, c.Depth, muChainStr(c))
	switch pr.clause {
	case "input-desc-modified", "decorated-shape", "nil-nil-not-same", "registration-lost":
		return fmt.Sprintf("C16|%s|%s|depth=%d|onward-multiplicity|%s|%s", c.Form, c.Kind, c.Depth, pr.sub, pr.clause)
	case "result-passthrough", "caller-result", "client-status", "client-response", "request-value", "panic",
		"request-identity", "stream-identity", "context-passthrough":
		return fmt.Sprintf("%s|fresh=%v|%s|%s|%s", head, c.Mu.Fresh, muHandlerStr(c), pr.sub, pr.clause)
	}
	// the event log and what interceptors were told: neither what is handed on nor the handler's outcome can matter
	return fmt.Sprintf("%s|%s|%s", head, pr.sub, pr.clause)
}

// onwardRec is one onward call made by an interceptor
type onwardRec struct {
	reqOut     interface{}
	ctxOut     context.Context
	streamOut  grpc.ServerStream
	gotResp    interface{}
	gotErr     error
	first, end int // the events logged while this onward call was running: [first, end)
	returned   bool
}

func muTag(who string, k int) string { return fmt.Sprintf("%s#%d", who, k) }

func (l *clog) count() int {
	l.mu_.Lock()
	defer l.mu_.Unlock()
	return 0
}

func (l *clog) nextRun() int {
	l.mu.Lock()
	defer l.mu.Unlock()
	l.hruns++
	return l.hruns
}
