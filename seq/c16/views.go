// VIEW PROGRAMS of C16: decoration results and registry views are long-lived objects that are
// used again later.
//
// A program is a sequence of operations over registries. There are two ROOT registries R0, R1 of
// the case's carrier type (HandlerMap called directly / inprocgrpc.Channel / httpgrpc.Server),
// each with its own transport-level interceptor instances (or none), and up to three derived
// VIEWS A, B, C. The operations are
//
//	derive   V = WithInterceptor(P, u?, s?)   P any registry that exists already (a root or an earlier view),
//	                                          (u?, s?) one of (u,-) (-,s) (u,s); every view has its own interceptor INSTANCES
//	register D > V                            service description D (X, Y or Z; each with one unary and one stream method)
//	                                          is registered, with a server object of its own, through any registry that
//	                                          exists at that moment; one description POINTER may be registered again
//	                                          on the other root (the generated, package-level description on two servers)
//	register D#k > V                          the DECORATED description that registration number k put onto its root is
//	                                          registered (with another server object) through a registry of the other
//	                                          root: a decoration result is decorated again while it stays in use itself
//	                                          (what HandlerMap.ForEach(WithInterceptor(other, ...).RegisterService) does)
//
// and every interleaving of derivations and registrations is a program (a view that is derived but
// never registered through included: deriving must not affect anything else). In the form "IS"
// the same program is carried out with InterceptServer applied by hand along the path of views
// instead of WithInterceptor objects.
//
// The interceptor instances are made in one of four ways (dimension "inst"):
//
//	closure   every instance is a closure returned by ONE factory function: distinct values, one code pointer
//	method    every instance is a method value of its own receiver object: distinct values, one code pointer
//	distinct  every instance is a function literal of its own: distinct values, distinct code
//	same      all views are given the very same pair of function values (transport-level ones stay separate)
//
// Calls: every method of every registered service, after the whole program in the order of
// registration or in the reverse order, or after every single operation (everything registered so
// far). The oracle is the per-instance event log: a call to a service registered through view V on
// root R passes R's transport-level interceptor of the kind (if any), then the interceptor of that
// kind of every view on the path from R to V, root-most first, each exactly once, then the handler
// with the server object of that registration - and nothing else; plus everything judge() demands
// of a call (FullMethod, flags, identities and results handed through, what the caller sees).
package main

import (
	"context"
	"fmt"
	"strings"
	"sync/atomic"

	"github.com/fullstorydev/grpchan"
	"github.com/fullstorydev/grpchan/httpgrpc"
	"github.com/fullstorydev/grpchan/inprocgrpc"
	"google.golang.org/grpc"
)

const (
	vwRoots    = 2
	vwMaxViews = 3
	vwMaxDescs = 3

	vwCallsEnd    = 0 // after the whole program, in the order of registration
	vwCallsEndRev = 1 // after the whole program, in the reverse order
	vwCallsStep   = 2 // after every operation, everything registered so far
)

var vwCallsNames = []string{"at-end", "at-end-reversed", "after-every-op"}
var vwInsts = []string{"closure", "method", "distinct", "same"}
var vwDescNames = []string{"X", "Y", "Z"}
var vwDescFlags = []int{3, 2, 1} // the stream method of X is bidi, of Y server-streaming, of Z client-streaming

type vwView struct {
	Parent int  `json:"parent"` // registry index: 0, 1 = the roots; 2+k = view k
	U      bool `json:"u"`
	S      bool `json:"s"`
}

type vwOp struct {
	Derive int `json:"derive"` // the view derived by this operation, or -1 when it is a registration
	Desc   int `json:"desc"`   // registration: which description
	From   int `json:"from"`   // registration: -1 = the description itself; k = what registration number k put onto its root
	Via    int `json:"via"`    // registration: through which registry
}

type vwT struct {
	Views []vwView `json:"views"`
	Ops   []vwOp   `json:"ops"`
	Inst  string   `json:"inst"`
	Tr    bool     `json:"tr"`    // every root has transport-level interceptors (of both kinds)
	Calls int      `json:"calls"` // vwCallsEnd / vwCallsEndRev / vwCallsStep
	Fail  int      `json:"fail"`  // the interceptors of this view fail instead of calling onward (-1: all call onward)
}

func vwRegName(i int) string {
	if i < vwRoots {
		return fmt.Sprintf("R%d", i)
	}
	return string(rune('A' + i - vwRoots))
}

func (v *vwT) prog() string {
	var parts []string
	for _, op := range v.Ops {
		if op.Derive >= 0 {
			w := v.Views[op.Derive]
			u, s := "-", "-"
			if w.U {
				u = "u"
			}
			if w.S {
				s = "s"
			}
			parts = append(parts, fmt.Sprintf("%s=%s(%s,%s)", vwRegName(vwRoots+op.Derive), vwRegName(w.Parent), u, s))
		} else {
			parts = append(parts, fmt.Sprintf("%s>%s", op.name(), vwRegName(op.Via)))
		}
	}
	return strings.Join(parts, " ")
}

func (op vwOp) name() string {
	if op.From >= 0 {
		return fmt.Sprintf("%s#%d", vwDescNames[op.Desc], op.From)
	}
	return vwDescNames[op.Desc]
}

func (v *vwT) String() string {
	s := fmt.Sprintf("views[%s] inst=%s transport-interceptors=%v calls=%s", v.prog(), v.Inst, v.Tr, vwCallsNames[v.Calls])
	if v.Fail >= 0 {
		s += " failing=" + vwRegName(vwRoots+v.Fail)
	}
	return s
}

func (v *vwT) rootOf(reg int) int {
	for reg >= vwRoots {
		reg = v.Views[reg-vwRoots].Parent
	}
	return reg
}

// path: the views between the root and registry reg, root-most first
func (v *vwT) path(reg int) []int {
	var p []int
	for reg >= vwRoots {
		p = append([]int{reg - vwRoots}, p...)
		reg = v.Views[reg-vwRoots].Parent
	}
	return p
}

// ---------------------------------------------------------------- interceptor instances

// icptObj: an interceptor packaged as an object (one per server / per view), whose method values are handed to the library
type icptObj struct {
	u grpc.UnaryServerInterceptor
	s grpc.StreamServerInterceptor
}

func (x *icptObj) Unary(ctx context.Context, req interface{}, info *grpc.UnaryServerInfo, handler grpc.UnaryHandler) (interface{}, error) {
	return x.u(ctx, req, info, handler)
}

func (x *icptObj) Stream(srv interface{}, ss grpc.ServerStream, info *grpc.StreamServerInfo, handler grpc.StreamHandler) error {
	return x.s(srv, ss, info, handler)
}

// five function literals of their own for each kind (three views + two roots)
var distinctU = []func(f grpc.UnaryServerInterceptor) grpc.UnaryServerInterceptor{
	func(f grpc.UnaryServerInterceptor) grpc.UnaryServerInterceptor {
		return func(ctx context.Context, req interface{}, info *grpc.UnaryServerInfo, h grpc.UnaryHandler) (interface{}, error) {
			return f(ctx, req, info, h)
		}
	},
	func(f grpc.UnaryServerInterceptor) grpc.UnaryServerInterceptor {
		return func(ctx context.Context, req interface{}, info *grpc.UnaryServerInfo, h grpc.UnaryHandler) (interface{}, error) {
			return f(ctx, req, info, h)
		}
	},
	func(f grpc.UnaryServerInterceptor) grpc.UnaryServerInterceptor {
		return func(ctx context.Context, req interface{}, info *grpc.UnaryServerInfo, h grpc.UnaryHandler) (interface{}, error) {
			return f(ctx, req, info, h)
		}
	},
	func(f grpc.UnaryServerInterceptor) grpc.UnaryServerInterceptor {
		return func(ctx context.Context, req interface{}, info *grpc.UnaryServerInfo, h grpc.UnaryHandler) (interface{}, error) {
			return f(ctx, req, info, h)
		}
	},
	func(f grpc.UnaryServerInterceptor) grpc.UnaryServerInterceptor {
		return func(ctx context.Context, req interface{}, info *grpc.UnaryServerInfo, h grpc.UnaryHandler) (interface{}, error) {
			return f(ctx, req, info, h)
		}
	},
}

var distinctS = []func(f grpc.StreamServerInterceptor) grpc.StreamServerInterceptor{
	func(f grpc.StreamServerInterceptor) grpc.StreamServerInterceptor {
		return func(srv interface{}, ss grpc.ServerStream, info *grpc.StreamServerInfo, h grpc.StreamHandler) error {
			return f(srv, ss, info, h)
		}
	},
	func(f grpc.StreamServerInterceptor) grpc.StreamServerInterceptor {
		return func(srv interface{}, ss grpc.ServerStream, info *grpc.StreamServerInfo, h grpc.StreamHandler) error {
			return f(srv, ss, info, h)
		}
	},
	func(f grpc.StreamServerInterceptor) grpc.StreamServerInterceptor {
		return func(srv interface{}, ss grpc.ServerStream, info *grpc.StreamServerInfo, h grpc.StreamHandler) error {
			return f(srv, ss, info, h)
		}
	},
	func(f grpc.StreamServerInterceptor) grpc.StreamServerInterceptor {
		return func(srv interface{}, ss grpc.ServerStream, info *grpc.StreamServerInfo, h grpc.StreamHandler) error {
			return f(srv, ss, info, h)
		}
	},
	func(f grpc.StreamServerInterceptor) grpc.StreamServerInterceptor {
		return func(srv interface{}, ss grpc.ServerStream, info *grpc.StreamServerInfo, h grpc.StreamHandler) error {
			return f(srv, ss, info, h)
		}
	},
}

// mkInst makes the pair of interceptor instances of one view / one root. slot: 0-2 = views, 3-4 = roots
// (which function literal the instance is, when inst is "distinct"). Both log as <who>.
func mkInst(l *clog, inst string, slot int, who string, beh int) (grpc.UnaryServerInterceptor, grpc.StreamServerInterceptor) {
	u, s := mkUnary(l, who, beh, 0), mkStream(l, who, beh, 0)
	switch inst {
	case "closure", "same":
		return u, s
	case "method":
		o := &icptObj{u: u, s: s}
		return o.Unary, o.Stream
	case "distinct":
		return distinctU[slot](u), distinctS[slot](s)
	}
	panic("bad inst " + inst)
}

// instanceCalibration: do the four ways of making instances give what they are meant to give in
// this build? (one code pointer for the closures of one factory and for method values of two
// receivers, different code pointers for the function literals, and every instance logging as itself)
func instanceCalibration() (ok bool, what string) {
	l := &clog{}
	var notes []string
	ok = true
	bad := func(f string, a ...interface{}) { ok = false; notes = append(notes, fmt.Sprintf(f, a...)) }
	for _, inst := range []string{"closure", "method", "distinct"} {
		var us []grpc.UnaryServerInterceptor
		var ss []grpc.StreamServerInterceptor
		for k := 0; k < 5; k++ {
			u, s := mkInst(l, inst, k, fmt.Sprintf("i%d", k), bPass)
			us, ss = append(us, u), append(ss, s)
		}
		for k := 0; k < 5; k++ {
			for j := 0; j < k; j++ {
				sameU, sameS := codePtr(us[j]) == codePtr(us[k]), codePtr(ss[j]) == codePtr(ss[k])
				if want := inst != "distinct"; sameU != want || sameS != want {
					bad("%s: instances %d and %d share their code: unary %v stream %v, want %v", inst, j, k, sameU, sameS, want)
				}
			}
			l.take()
			us[k](context.Background(), nil, &grpc.UnaryServerInfo{}, func(context.Context, interface{}) (interface{}, error) { return nil, nil })
			ss[k](nil, &fakeStream{ctx: context.Background()}, &grpc.StreamServerInfo{}, func(interface{}, grpc.ServerStream) error { return nil })
			if es := l.take(); len(es) != 2 || es[0].who != fmt.Sprintf("i%d", k) || es[1].who != es[0].who {
				bad("%s: instance %d logs as %v", inst, k, whos(es))
			}
		}
	}
	if ok {
		return true, "closures of one factory share one code pointer: true; method values of distinct receivers share one code pointer: true; function literals of their own have code pointers of their own: true; every instance logs as itself: true"
	}
	return false, strings.Join(notes, "; ")
}

// ---------------------------------------------------------------- running a program

type vwRegistration struct {
	idx   int // in the order of registration
	op    vwOp
	desc  int
	via   int
	root  int
	path  []int // the views whose interceptors apply, outermost first
	srv   *impl
	final *grpc.ServiceDesc // what arrived at the root
}

// recReg stands in front of a root and remembers what arrived there last
type recReg struct {
	inner grpc.ServiceRegistrar
	last  *grpc.ServiceDesc
}

func (r *recReg) RegisterService(d *grpc.ServiceDesc, srv interface{}) {
	r.last = d
	r.inner.RegisterService(d, srv)
}

var vwCallCount int64 // measured: calls made by view programs
var vwIntercepted int64

func newVwTarget(carrier, who string, tU grpc.UnaryServerInterceptor, tS grpc.StreamServerInterceptor) (*target, grpchan.HandlerMap) {
	t := &target{who: who, tU: tU, tS: tS}
	if tU != nil {
		t.beh = bPass
	}
	switch carrier {
	case "direct":
		hm := grpchan.HandlerMap{}
		t.reg = hm
		return t, hm
	case "inproc":
		t.ipc = &inprocgrpc.Channel{}
		if tU != nil {
			t.ipc.WithServerUnaryInterceptor(tU)
		}
		if tS != nil {
			t.ipc.WithServerStreamInterceptor(tS)
		}
		t.reg = t.ipc
	case "http":
		var opts []httpgrpc.ServerOption
		if tU != nil {
			opts = append(opts, httpgrpc.WithServerUnaryInterceptor(tU))
		}
		if tS != nil {
			opts = append(opts, httpgrpc.WithServerStreamInterceptor(tS))
		}
		t.hs = httpgrpc.NewServer(opts...)
		t.reg = t.hs
	default:
		panic("bad carrier")
	}
	return t, nil
}

func runViews(c caseT, verbose bool) (probs []problem, observed string) {
	atomic.AddInt64(&progress, 1)
	current.Store(c.String())
	add := func(clause, sub, what string) { probs = append(probs, problem{clause, sub, what}) }
	defer func() {
		if r := recover(); r != nil {
			add("panic", "", fmt.Sprintf("library code panicked: %v", r))
		}
	}()
	v := c.Vw
	l := &clog{}

	// the roots
	targets := make([]*target, vwRoots)
	maps := make([]grpchan.HandlerMap, vwRoots)
	regs := make([]grpc.ServiceRegistrar, vwRoots+len(v.Views))
	recs := make([]*recReg, vwRoots)
	for r := 0; r < vwRoots; r++ {
		var tU grpc.UnaryServerInterceptor
		var tS grpc.StreamServerInterceptor
		if v.Tr {
			inst := v.Inst
			if inst == "same" {
				inst = "closure"
			}
			tU, tS = mkInst(l, inst, vwMaxViews+r, fmt.Sprintf("T%d", r), bPass)
		}
		targets[r], maps[r] = newVwTarget(c.Carrier, fmt.Sprintf("T%d", r), tU, tS)
		recs[r] = &recReg{inner: targets[r].reg}
		regs[r] = recs[r]
	}

	// the interceptor instances of the views
	type viewInst struct {
		who string
		beh int
		u   grpc.UnaryServerInterceptor
		s   grpc.StreamServerInterceptor
	}
	insts := make([]viewInst, len(v.Views))
	var sharedU grpc.UnaryServerInterceptor
	var sharedS grpc.StreamServerInterceptor
	if v.Inst == "same" {
		sharedU, sharedS = mkInst(l, "same", 0, "I", bPass)
	}
	for k, w := range v.Views {
		vi := viewInst{who: vwRegName(vwRoots + k), beh: bPass}
		if v.Fail == k {
			vi.beh = bFail
		}
		var u grpc.UnaryServerInterceptor
		var s grpc.StreamServerInterceptor
		if v.Inst == "same" {
			vi.who, u, s = "I", sharedU, sharedS
		} else {
			u, s = mkInst(l, v.Inst, k, vi.who, vi.beh)
		}
		if w.U {
			vi.u = u
		}
		if w.S {
			vi.s = s
		}
		insts[k] = vi
	}

	// the descriptions
	shapeOfDesc := func(d int) caseT { return caseT{U: 1, Flags: []int{vwDescFlags[d]}} }
	descs := make([]*grpc.ServiceDesc, vwMaxDescs)
	snaps := make([]string, vwMaxDescs)
	getDesc := func(d int) *grpc.ServiceDesc {
		if descs[d] == nil {
			descs[d] = makeDescNamed("t."+vwDescNames[d], vwDescNames[d], shapeOfDesc(d), l)
			snaps[d] = snapshot(descs[d])
		}
		return descs[d]
	}

	var registered []*vwRegistration
	var obs []string

	callAll := func(afterOp int) {
		order := append([]*vwRegistration(nil), registered...)
		if v.Calls == vwCallsEndRev {
			for i, j := 0, len(order)-1; i < j; i, j = i+1, j-1 {
				order[i], order[j] = order[j], order[i]
			}
		}
		for _, g := range order {
			d := descs[g.desc]
			t := targets[g.root]
			regSub := fmt.Sprintf("reg=%d:%s>%s", g.idx, g.op.name(), vwRegName(g.via))
			final := g.final
			if final == nil {
				add("registration-lost", regSub, fmt.Sprintf("%s registered through %s: nothing arrived at root R%d", d.ServiceName, vwRegName(g.via), g.root))
				continue
			}
			if c.Carrier == "direct" {
				if q, h := maps[g.root].QueryService(d.ServiceName); q != final || h != g.srv {
					add("registration-lost", regSub, fmt.Sprintf("%s registered through %s: root R%d has (%v, %v) under that name", d.ServiceName, vwRegName(g.via), g.root, q, h))
					continue
				}
			}
			if shapeOf(final) != shapeOf(d) {
				add("decorated-shape", regSub, fmt.Sprintf("decorated descriptor is %q, original %q", shapeOf(final), shapeOf(d)))
			}
			for _, kind := range []string{"unary", "stream"} {
				kc := caseT{Carrier: c.Carrier, Form: c.Form, Kind: kind}
				var method string
				var cs, ss bool
				if kind == "unary" {
					method = d.Methods[0].MethodName
				} else {
					method = d.Streams[0].StreamName
					cs, ss = d.Streams[0].ClientStreams, d.Streams[0].ServerStreams
				}
				full := "/" + d.ServiceName + "/" + method
				var chain []chainEl
				if v.Tr {
					chain = append(chain, chainEl{who: t.who, beh: bPass})
				}
				for _, k := range g.path {
					if (kind == "unary" && v.Views[k].U) || (kind == "stream" && v.Views[k].S) {
						chain = append(chain, chainEl{who: insts[k].who, beh: insts[k].beh})
					}
				}
				sub := regSub + "," + kind
				if v.Calls == vwCallsStep {
					sub += fmt.Sprintf(",after-op=%d", afterOp)
				}
				ctx, cancel := context.WithCancel(context.Background())
				l.take()
				res := call(kc, ctx, method, full, "req:"+method, 0, cs, ss, final, g.srv, t)
				cancel()
				es := l.take()
				atomic.AddInt64(&vwCallCount, 1)
				if len(chain) > 0 {
					atomic.AddInt64(&vwIntercepted, 1)
				}
				o := fmt.Sprintf("%s@R%d", method, g.root)
				if v.Calls == vwCallsStep {
					o += fmt.Sprintf("(after op %d)", afterOp)
				}
				o += fmt.Sprintf(": log=%v result=(%q %v err=%v)", whos(es), res.respVal, res.msgs, res.err)
				obs = append(obs, o)
				if verbose {
					fmt.Println("  " + o + fmt.Sprintf("   expected log=%v", expect(kc, chain, method).log))
				}
				judge(callSpec{c: kc, carrier: c.Carrier, method: method, full: full, cs: cs, ss: ss, css: ss, sub: sub,
					sent: "req:" + method, chain: chain, srv: g.srv}, es, res, add)
			}
		}
	}

	// the program
	for i, op := range v.Ops {
		if op.Derive >= 0 {
			k := op.Derive
			w := v.Views[k]
			if c.Form == "WI" {
				parent := regs[w.Parent]
				regs[vwRoots+k] = grpchan.WithInterceptor(parent, insts[k].u, insts[k].s)
			}
		} else {
			d := getDesc(op.Desc)
			own := v.path(op.Via)
			g := &vwRegistration{idx: len(registered), op: op, desc: op.Desc, via: op.Via, root: v.rootOf(op.Via), path: own, srv: &impl{100 + len(registered)}}
			if op.From >= 0 {
				// the decorated description of an earlier registration, which keeps the interceptors it has
				d = registered[op.From].final
				g.path = append(append([]int(nil), own...), registered[op.From].path...)
			}
			if d != nil {
				recs[g.root].last = nil
				if c.Form == "WI" {
					regs[op.Via].RegisterService(d, g.srv)
				} else {
					dec := d
					for j := len(own) - 1; j >= 0; j-- {
						dec = grpchan.InterceptServer(dec, insts[own[j]].u, insts[own[j]].s)
					}
					regs[g.root].RegisterService(dec, g.srv)
				}
				g.final = recs[g.root].last
			}
			registered = append(registered, g)
		}
		if v.Calls == vwCallsStep {
			callAll(i)
		}
	}
	if v.Calls != vwCallsStep {
		callAll(len(v.Ops) - 1)
	}

	for d := range descs {
		if descs[d] != nil {
			checkInputUntouched(&built{srv: &impl{1}, d0: descs[d], snap0: snaps[d]}, l, func(clause, sub, what string) {
				add(clause, vwDescNames[d]+","+sub, what)
			})
		}
	}
	return probs, strings.Join(obs, "; ")
}

// ---------------------------------------------------------------- enumeration

// viewPrograms: every program with exactly nViews derivations and nRegs registrations. Views are
// named in the order of derivation, descriptions in the order of first use, and R1 is touched
// only after R0 has been (programs that differ by such a renaming are the same program).
func viewPrograms(nViews, nRegs int) []*vwT {
	var out []*vwT
	type state struct {
		views   []vwView
		ops     []vwOp
		nRegs   int
		r0Used  bool
		nDescs  int
		onRoot  map[[2]int]bool // (description, root) taken
		rootOfV []int
		regDesc []int // the description of each registration so far
	}
	var gen func(s state)
	rootOf := func(s *state, reg int) int {
		if reg < vwRoots {
			return reg
		}
		return s.rootOfV[reg-vwRoots]
	}
	gen = func(s state) {
		if len(s.views) == nViews && s.nRegs == nRegs {
			out = append(out, &vwT{Views: append([]vwView(nil), s.views...), Ops: append([]vwOp(nil), s.ops...)})
			return
		}
		var avail []int
		avail = append(avail, 0)
		if s.r0Used {
			avail = append(avail, 1)
		}
		for k := range s.views {
			avail = append(avail, vwRoots+k)
		}
		if len(s.views) < nViews {
			for _, p := range avail {
				for _, pat := range [][2]bool{{true, false}, {false, true}, {true, true}} {
					n := s
					n.views = append(append([]vwView(nil), s.views...), vwView{Parent: p, U: pat[0], S: pat[1]})
					n.ops = append(append([]vwOp(nil), s.ops...), vwOp{Derive: len(s.views), From: -1})
					n.rootOfV = append(append([]int(nil), s.rootOfV...), rootOf(&s, p))
					n.r0Used = s.r0Used || p == 0
					gen(n)
				}
			}
		}
		if s.nRegs < nRegs {
			for _, via := range avail {
				root := rootOf(&s, via)
				// the description itself (from = -1), or what an earlier registration put onto the other root
				for from := -1; from < len(s.regDesc); from++ {
					for d := 0; d <= s.nDescs && d < vwMaxDescs; d++ {
						if s.onRoot[[2]int{d, root}] || (from >= 0 && s.regDesc[from] != d) {
							continue
						}
						n := s
						n.ops = append(append([]vwOp(nil), s.ops...), vwOp{Derive: -1, Desc: d, From: from, Via: via})
						n.nRegs++
						n.regDesc = append(append([]int(nil), s.regDesc...), d)
						if d == s.nDescs {
							n.nDescs++
						}
						n.onRoot = map[[2]int]bool{{d, root}: true}
						for k := range s.onRoot {
							n.onRoot[k] = true
						}
						n.r0Used = s.r0Used || via == 0
						gen(n)
					}
				}
			}
		}
	}
	gen(state{onRoot: map[[2]int]bool{}})
	return out
}

// vwSize: programs with exactly V derivations and R registrations, and how the other dimensions are
// treated for them: "cross" = the full product; "sweep" = the base point (instances are closures of
// one factory, transport-level interceptors present, calls at the end, nothing fails) and every
// point that differs from it in ONE dimension; "base+inst" = the base point with every way of making
// instances; "base" = the base point only
type vwSize struct {
	V, R int
	Mode string
}

func vwSizes(tier string) []vwSize {
	if tier == "thorough" {
		return []vwSize{{1, 1, "cross"}, {1, 2, "cross"}, {2, 1, "cross"}, {2, 2, "cross"}, {1, 3, "sweep"}, {3, 1, "sweep"}, {2, 3, "base+inst"}, {3, 2, "base"}}
	}
	return []vwSize{{1, 1, "cross"}, {1, 2, "cross"}, {2, 1, "cross"}, {2, 2, "sweep"}, {3, 1, "base"}}
}

// enumerateViews: every program of the tier's sizes x carrier x form x (way of making instances x
// transport-level interceptors absent / present x when the calls are made x which view's
// interceptors fail: none, or one view in turn), the bracket crossed or swept according to the size's mode.
func enumerateViews(tier string, fn func(caseT)) (programs int) {
	type point struct {
		inst  string
		tr    bool
		calls int
		fail  int
	}
	points := func(mode string, nViews int) []point {
		var out []point
		base := point{"closure", true, vwCallsEnd, -1}
		switch mode {
		case "cross":
			for _, inst := range vwInsts {
				for _, tr := range []bool{false, true} {
					for calls := vwCallsEnd; calls <= vwCallsStep; calls++ {
						for fail := -1; fail < nViews; fail++ {
							if fail >= 0 && inst == "same" {
								continue // one shared instance cannot fail for one view only
							}
							out = append(out, point{inst, tr, calls, fail})
						}
					}
				}
			}
		case "sweep", "base+inst", "base":
			out = append(out, base)
			if mode == "base" {
				break
			}
			for _, inst := range vwInsts[1:] {
				out = append(out, point{inst, base.tr, base.calls, base.fail})
			}
			if mode == "base+inst" {
				break
			}
			out = append(out, point{base.inst, false, base.calls, base.fail})
			for calls := vwCallsEnd + 1; calls <= vwCallsStep; calls++ {
				out = append(out, point{base.inst, base.tr, calls, base.fail})
			}
			for fail := 0; fail < nViews; fail++ {
				out = append(out, point{base.inst, base.tr, base.calls, fail})
			}
		default:
			panic("bad mode")
		}
		return out
	}
	for _, sz := range vwSizes(tier) {
		progs := viewPrograms(sz.V, sz.R)
		programs += len(progs)
		pts := points(sz.Mode, sz.V)
		for _, p := range progs {
			for _, carrier := range []string{"direct", "inproc", "http"} {
				for _, form := range []string{"WI", "IS"} {
					for _, pt := range pts {
						fn(caseT{Carrier: carrier, Form: form, Vw: &vwT{Views: p.Views, Ops: p.Ops, Inst: pt.inst, Tr: pt.tr, Calls: pt.calls, Fail: pt.fail}})
					}
				}
			}
		}
	}
	return programs
}
