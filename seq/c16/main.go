// C16: server interceptors (grpchan.InterceptServer / grpchan.WithInterceptor and
// the transport-level interceptors of inprocgrpc.Channel and httpgrpc.Server).
//
// Exhaustive grammar: descriptor shapes x decoration (per layer: unary nil/set x
// stream nil/set) x nesting depth x transport-level interceptors x behaviour per
// interceptor on the call path x handler outcome x carrier x form of decoration.
// The oracle reads an ordered event log written by instrumented interceptors and
// handlers.
package main

import (
	"context"
	"fmt"
	"io"
	"net/url"
	"os"
	"reflect"
	"sort"
	"strings"
	"sync"
	"sync/atomic"
	"time"

	"github.com/fullstorydev/grpchan"
	"github.com/fullstorydev/grpchan/httpgrpc"
	"github.com/fullstorydev/grpchan/inprocgrpc"
	"google.golang.org/grpc"
	"google.golang.org/grpc/codes"
	"google.golang.org/grpc/metadata"
	"google.golang.org/grpc/status"
	"google.golang.org/protobuf/proto"
	"google.golang.org/protobuf/types/known/wrapperspb"

	"verif/seq/common"
	"verif/vlib"
)

// ---------------------------------------------------------------- grammar

const (
	bNil = iota
	bPass
	bShort
	bFail
	bRewrite
)

var behNames = []string{"nil", "pass", "short", "fail", "rewrite"}

type caseT struct {
	Carrier string `json:"carrier"` // direct | inproc | http
	Form    string `json:"form"`    // IS = InterceptServer on the descriptor, WI = WithInterceptor on the registry
	U       int    `json:"u"`       // number of unary methods
	Flags   []int  `json:"flags"`   // one per stream method: bit0 = client streams, bit1 = server streams
	Depth   int    `json:"depth"`   // decoration layers (1 or 2)
	Kind    string `json:"kind"`    // unary | stream: the kind of method called
	T       int    `json:"t"`       // behaviour of the transport-level interceptor of that kind (0 = nil)
	D1      int    `json:"d1"`      // ... of the OUTER decoration
	D2      int    `json:"d2"`      // ... of the INNER decoration (depth 2)
	OT      bool   `json:"ot"`      // transport-level interceptor of the OTHER kind set?
	OD1     bool   `json:"od1"`     // outer decoration's interceptor of the other kind set?
	OD2     bool   `json:"od2"`     // inner ...
	HErr    bool   `json:"herr"`    // application handler fails
	// Seq, when not empty, makes this a SHARING case: one decorated description / registry is
	// contributed (HandlerMap.ForEach -> RegisterService) to len(Seq) carriers of the same type
	// (direct: the decorated handler is called len(Seq) times), the k-th with the transport-level
	// interceptor Seq[k] of the called kind: 0 = none, 1 = A, 2 = B (distinct, both call onward). T is unused.
	Seq []int `json:"seq,omitempty"`
	// Ctx: 0 = the RPC's context stays live; 1 = already cancelled at dispatch; 2 = cancelled by the
	// transport-level interceptor of the called kind just before it calls onward (T is pass or rewrite).
	Ctx int `json:"ctx,omitempty"`
	// CF: 0 = the client opens streams with the registered flags; 1..4 = with flags CF-1 (bit0 client, bit1 server)
	CF int `json:"cf,omitempty"`
}

var seqNames = []string{"nil", "A", "B"}

func (c caseT) seqStr() string {
	var s []string
	for _, x := range c.Seq {
		s = append(s, seqNames[x])
	}
	return "[" + strings.Join(s, ",") + "]"
}

func (c caseT) chainStr() string {
	if len(c.Seq) > 0 {
		return fmt.Sprintf("seq=%s,D1=%s,D2=%s", c.seqStr(), behNames[c.D1], behNames[c.D2])
	}
	return fmt.Sprintf("T=%s,D1=%s,D2=%s", behNames[c.T], behNames[c.D1], behNames[c.D2])
}

func (c caseT) String() string {
	s := fmt.Sprintf("%s/%s u=%d flags=%v depth=%d %s %s other=%v/%v/%v herr=%v", c.Carrier, c.Form, c.U, c.Flags, c.Depth, c.Kind, c.chainStr(), c.OT, c.OD1, c.OD2, c.HErr)
	if c.Ctx != 0 {
		s += " ctx=" + []string{"live", "cancelled-at-dispatch", "cancelled-by-T-before-onward"}[c.Ctx]
	}
	if c.CF != 0 {
		s += fmt.Sprintf(" client-flags=%d", c.CF-1)
	}
	return s
}

// ---------------------------------------------------------------- event log

type entry struct {
	who        string // T, D1, D2, H; "x" prefix = interceptor of the other kind
	method     string // H: the method this handler closure was built for
	fullMethod string
	cs, ss     bool
	srv        interface{}
	req        interface{}
	reqValue   string
	stream     grpc.ServerStream
	called     bool
	gotResp    interface{}
	gotErr     error
	retResp    interface{}
	retErr     error
}

type clog struct {
	mu sync.Mutex
	es []*entry
	// hooks of the current call (set by the case runner)
	beforeOnward func(who string)
	onReturn     func(who string)
}

func (l *clog) onward(who string) {
	if l.beforeOnward != nil {
		l.beforeOnward(who)
	}
}

func (l *clog) returning(who string) {
	if l.onReturn != nil {
		l.onReturn(who)
	}
}

func (l *clog) add(e *entry) *entry {
	l.mu.Lock()
	l.es = append(l.es, e)
	l.mu.Unlock()
	return e
}

func (l *clog) take() []*entry {
	l.mu.Lock()
	defer l.mu.Unlock()
	es := l.es
	l.es = nil
	return es
}

func mkUnary(l *clog, who string, b int) grpc.UnaryServerInterceptor {
	if b == bNil {
		return nil
	}
	return func(ctx context.Context, req interface{}, info *grpc.UnaryServerInfo, handler grpc.UnaryHandler) (interface{}, error) {
		e := l.add(&entry{who: who, fullMethod: info.FullMethod, req: req, srv: info.Server})
		switch b {
		case bPass:
			e.called = true
			l.onward(who)
			e.gotResp, e.gotErr = handler(ctx, req)
			e.retResp, e.retErr = e.gotResp, e.gotErr
		case bShort:
			e.retResp = wrapperspb.String("short:" + who)
		case bFail:
			e.retErr = status.Error(codes.PermissionDenied, "fail:"+who)
		case bRewrite:
			e.called = true
			l.onward(who)
			e.gotResp, e.gotErr = handler(ctx, req)
			e.retResp = wrapperspb.String("rw:" + who)
		}
		l.returning(who)
		return e.retResp, e.retErr
	}
}

func mkStream(l *clog, who string, b int) grpc.StreamServerInterceptor {
	if b == bNil {
		return nil
	}
	return func(srv interface{}, ss grpc.ServerStream, info *grpc.StreamServerInfo, handler grpc.StreamHandler) error {
		e := l.add(&entry{who: who, fullMethod: info.FullMethod, cs: info.IsClientStream, ss: info.IsServerStream, srv: srv, stream: ss})
		switch b {
		case bPass:
			e.called = true
			l.onward(who)
			e.gotErr = handler(srv, ss)
			e.retErr = e.gotErr
		case bShort:
			ss.SendMsg(wrapperspb.String("short:" + who))
		case bFail:
			e.retErr = status.Error(codes.PermissionDenied, "fail:"+who)
		case bRewrite:
			e.called = true
			l.onward(who)
			e.gotErr = handler(srv, ss)
			e.retErr = status.Error(codes.Aborted, "rw:"+who)
		}
		l.returning(who)
		return e.retErr
	}
}

// ---------------------------------------------------------------- the service

const svcName = "t.Svc"

type svcIface interface{}
type impl struct{ n int }

func unaryName(i int) string  { return fmt.Sprintf("U%d", i) }
func streamName(i int) string { return fmt.Sprintf("S%d", i) }

// makeDesc builds a descriptor the way generated code does: the unary handler
// decodes, then runs the interceptor it is given around the application method.
func makeDesc(c caseT, l *clog) *grpc.ServiceDesc {
	d := &grpc.ServiceDesc{ServiceName: svcName, HandlerType: (*svcIface)(nil), Metadata: "t/svc.proto"}
	for i := 0; i < c.U; i++ {
		name := unaryName(i)
		app := func(srv interface{}, ctx context.Context, req interface{}) (interface{}, error) {
			e := l.add(&entry{who: "H", method: name, srv: srv, req: req})
			if sv, ok := req.(*wrapperspb.StringValue); ok {
				e.reqValue = sv.Value
			}
			if c.HErr {
				e.retErr = status.Error(codes.NotFound, "handler error")
			} else {
				e.retResp = wrapperspb.String("resp:" + name)
			}
			return e.retResp, e.retErr
		}
		d.Methods = append(d.Methods, grpc.MethodDesc{MethodName: name, Handler: func(srv interface{}, ctx context.Context, dec func(interface{}) error, interceptor grpc.UnaryServerInterceptor) (interface{}, error) {
			in := new(wrapperspb.StringValue)
			if err := dec(in); err != nil {
				return nil, err
			}
			if interceptor == nil {
				return app(srv, ctx, in)
			}
			info := &grpc.UnaryServerInfo{Server: srv, FullMethod: "/" + svcName + "/" + name}
			handler := func(ctx context.Context, req interface{}) (interface{}, error) { return app(srv, ctx, req) }
			return interceptor(ctx, in, info, handler)
		}})
	}
	for i, fl := range c.Flags {
		name := streamName(i)
		d.Streams = append(d.Streams, grpc.StreamDesc{StreamName: name, ClientStreams: fl&1 != 0, ServerStreams: fl&2 != 0, Handler: func(srv interface{}, stream grpc.ServerStream) error {
			e := l.add(&entry{who: "H", method: name, srv: srv, stream: stream})
			var in wrapperspb.StringValue
			if err := stream.RecvMsg(&in); err == nil {
				e.reqValue = in.Value
			} else {
				e.reqValue = "<recv error: " + err.Error() + ">"
			}
			if c.HErr {
				e.retErr = status.Error(codes.NotFound, "handler error")
				return e.retErr
			}
			stream.SendMsg(wrapperspb.String("resp:" + name))
			return nil
		}})
	}
	return d
}

// fakeStream is the server stream of the "direct" carrier.
type fakeStream struct {
	ctx  context.Context
	in   []*wrapperspb.StringValue
	sent []string
}

func (f *fakeStream) SetHeader(metadata.MD) error  { return nil }
func (f *fakeStream) SendHeader(metadata.MD) error { return nil }
func (f *fakeStream) SetTrailer(metadata.MD)       {}
func (f *fakeStream) Context() context.Context     { return f.ctx }
func (f *fakeStream) SendMsg(m interface{}) error {
	f.sent = append(f.sent, m.(*wrapperspb.StringValue).Value)
	return nil
}
func (f *fakeStream) RecvMsg(m interface{}) error {
	if len(f.in) == 0 {
		return io.EOF
	}
	proto.Merge(m.(proto.Message), f.in[0])
	f.in = f.in[1:]
	return nil
}

// ---------------------------------------------------------------- structural snapshot of a descriptor

func codePtr(f interface{}) uintptr {
	v := reflect.ValueOf(f)
	if !v.IsValid() || v.IsNil() {
		return 0
	}
	return v.Pointer()
}

func dataPtr(s interface{}) uintptr {
	v := reflect.ValueOf(s)
	if v.Len() == 0 {
		return 0
	}
	return v.Pointer()
}

func snapshot(d *grpc.ServiceDesc) string {
	var b strings.Builder
	fmt.Fprintf(&b, "name=%s htype=%v meta=%v methods@%x[%d] streams@%x[%d]", d.ServiceName, reflect.TypeOf(d.HandlerType), d.Metadata, dataPtr(d.Methods), len(d.Methods), dataPtr(d.Streams), len(d.Streams))
	for _, m := range d.Methods {
		fmt.Fprintf(&b, " U(%s,%x)", m.MethodName, codePtr(m.Handler))
	}
	for _, s := range d.Streams {
		fmt.Fprintf(&b, " S(%s,%v,%v,%x)", s.StreamName, s.ClientStreams, s.ServerStreams, codePtr(s.Handler))
	}
	return b.String()
}

// shapeOf: what a decorated descriptor must still say (names, flags, identity fields)
func shapeOf(d *grpc.ServiceDesc) string {
	var b strings.Builder
	fmt.Fprintf(&b, "name=%s htype=%v meta=%v", d.ServiceName, reflect.TypeOf(d.HandlerType), d.Metadata)
	for _, m := range d.Methods {
		fmt.Fprintf(&b, " U(%s,handler=%v)", m.MethodName, m.Handler != nil)
	}
	for _, s := range d.Streams {
		fmt.Fprintf(&b, " S(%s,%v,%v,handler=%v)", s.StreamName, s.ClientStreams, s.ServerStreams, s.Handler != nil)
	}
	return b.String()
}

func sameRegistrar(a, b grpc.ServiceRegistrar) bool {
	va, vb := reflect.ValueOf(a), reflect.ValueOf(b)
	if !va.IsValid() || !vb.IsValid() || va.Type() != vb.Type() {
		return false
	}
	switch va.Kind() {
	case reflect.Map, reflect.Ptr:
		return va.Pointer() == vb.Pointer()
	}
	return false
}

// ---------------------------------------------------------------- running one case

type problem struct {
	clause string
	sub    string // extra fingerprint component (method index ...)
	what   string
}

type chainEl struct {
	who string
	beh int
}

func (c caseT) chain() []chainEl { return c.chainWith("T", c.T) }

// chainWith: the interceptors on the path of a call whose transport-level interceptor is (who, beh)
func (c caseT) chainWith(who string, beh int) []chainEl {
	var ch []chainEl
	for _, el := range []chainEl{{who, beh}, {"D1", c.D1}, {"D2", c.D2}} {
		if el.beh != bNil {
			ch = append(ch, el)
		}
	}
	return ch
}

// expected (reference model): the log and what the caller must see
type expectation struct {
	log  []string
	resp string   // unary: response value when code == OK
	msgs []string // stream: messages sent
	code codes.Code
	msg  string
}

func expect(c caseT, ch []chainEl, method string) expectation {
	var ev func(i int) expectation
	ev = func(i int) expectation {
		if i == len(ch) {
			if c.HErr {
				return expectation{log: []string{"H"}, code: codes.NotFound, msg: "handler error"}
			}
			return expectation{log: []string{"H"}, resp: "resp:" + method, msgs: []string{"resp:" + method}}
		}
		who := ch[i].who
		switch ch[i].beh {
		case bPass:
			x := ev(i + 1)
			x.log = append([]string{who}, x.log...)
			return x
		case bShort:
			return expectation{log: []string{who}, resp: "short:" + who, msgs: []string{"short:" + who}}
		case bFail:
			return expectation{log: []string{who}, code: codes.PermissionDenied, msg: "fail:" + who}
		default: // rewrite
			x := ev(i + 1)
			x.log = append([]string{who}, x.log...)
			if c.Kind == "unary" {
				return expectation{log: x.log, resp: "rw:" + who}
			}
			return expectation{log: x.log, msgs: x.msgs, code: codes.Aborted, msg: "rw:" + who}
		}
	}
	return ev(0)
}

func whos(es []*entry) []string {
	out := make([]string, len(es))
	for i, e := range es {
		out[i] = e.who
	}
	return out
}

func classifyLog(got, want []string) string {
	if reflect.DeepEqual(got, want) || (len(got) == 0 && len(want) == 0) {
		return ""
	}
	cnt := map[string]int{}
	for _, g := range got {
		cnt[g]++
		if strings.HasPrefix(g, "x") {
			return "other-kind-interceptor-invoked"
		}
	}
	for _, n := range cnt {
		if n > 1 {
			return "invoked-more-than-once"
		}
	}
	wantSet := map[string]bool{}
	for _, w := range want {
		wantSet[w] = true
	}
	if cnt["H"] > 0 && !wantSet["H"] {
		return "handler-ran-although-an-interceptor-did-not-call-onward"
	}
	if cnt["H"] == 0 && wantSet["H"] {
		return "handler-not-run"
	}
	for _, g := range got {
		if !wantSet[g] {
			return "unexpected-interceptor"
		}
	}
	for _, w := range want {
		if cnt[w] == 0 {
			return "interceptor-skipped"
		}
	}
	if len(got) == len(want) {
		return "order"
	}
	return "log-mismatch"
}

// target is one carrier instance with its transport-level interceptors
type target struct {
	who string
	beh int
	tU  grpc.UnaryServerInterceptor
	tS  grpc.StreamServerInterceptor
	ipc *inprocgrpc.Channel
	hs  *httpgrpc.Server
	reg grpc.ServiceRegistrar
}

type callResult struct {
	resp     interface{} // direct unary: the object returned
	respVal  string
	msgs     []string
	err      error
	panicked interface{}
}

var progress int64
var current atomic.Value

var baseURL, _ = url.Parse("http://example.test/")

// runCase builds the configuration on the real library and calls every method of c.Kind.
func runCase(c caseT, verbose bool) (probs []problem, observed string) {
	atomic.AddInt64(&progress, 1)
	current.Store(c.String())
	add := func(clause, sub, what string) { probs = append(probs, problem{clause, sub, what}) }
	defer func() {
		if r := recover(); r != nil {
			add("panic", "", fmt.Sprintf("library code panicked: %v", r))
		}
	}()

	l := &clog{}
	srv := &impl{1}
	d0 := makeDesc(c, l)
	snap0 := snapshot(d0)

	var outU, inU grpc.UnaryServerInterceptor
	var outS, inS grpc.StreamServerInterceptor
	other := func(set bool) int {
		if set {
			return bPass
		}
		return bNil
	}
	if c.Kind == "unary" {
		outU, inU = mkUnary(l, "D1", c.D1), mkUnary(l, "D2", c.D2)
		outS, inS = mkStream(l, "xD1", other(c.OD1)), mkStream(l, "xD2", other(c.OD2))
	} else {
		outS, inS = mkStream(l, "D1", c.D1), mkStream(l, "D2", c.D2)
		outU, inU = mkUnary(l, "xD1", other(c.OD1)), mkUnary(l, "xD2", other(c.OD2))
	}

	// the carrier(s), each with its transport-level interceptors
	mkTarget := func(who string, beh int) *target {
		t := &target{who: who, beh: beh}
		if c.Kind == "unary" {
			t.tU, t.tS = mkUnary(l, who, beh), mkStream(l, "xT", other(c.OT))
		} else {
			t.tS, t.tU = mkStream(l, who, beh), mkUnary(l, "xT", other(c.OT))
		}
		switch c.Carrier {
		case "direct":
		case "inproc":
			t.ipc = &inprocgrpc.Channel{}
			if t.tU != nil {
				t.ipc.WithServerUnaryInterceptor(t.tU)
			}
			if t.tS != nil {
				t.ipc.WithServerStreamInterceptor(t.tS)
			}
			t.reg = t.ipc
		case "http":
			var opts []httpgrpc.ServerOption
			if t.tU != nil {
				opts = append(opts, httpgrpc.WithServerUnaryInterceptor(t.tU))
			}
			if t.tS != nil {
				opts = append(opts, httpgrpc.WithServerStreamInterceptor(t.tS))
			}
			t.hs = httpgrpc.NewServer(opts...)
			t.reg = t.hs
		default:
			panic("bad carrier")
		}
		return t
	}
	var targets []*target
	hm := grpchan.HandlerMap{}
	var registry grpc.ServiceRegistrar = hm // direct carrier and sharing cases decorate around a HandlerMap
	shared := len(c.Seq) > 0
	if !shared {
		t := mkTarget("T", c.T)
		targets = []*target{t}
		if t.reg != nil {
			registry = t.reg
		}
	} else {
		for _, s := range c.Seq {
			beh := bPass
			if s == 0 {
				beh = bNil
			}
			targets = append(targets, mkTarget(seqNames[s], beh))
		}
	}
	viaMap := c.Carrier == "direct" || shared

	// decoration
	var final *grpc.ServiceDesc
	if c.Form == "IS" {
		dec := d0
		if c.Depth == 2 {
			before := dec
			dec = grpchan.InterceptServer(before, inU, inS)
			if inU == nil && inS == nil && dec != before {
				add("nil-nil-not-same", "InterceptServer", "InterceptServer(desc, nil, nil) returned a different descriptor")
			}
		}
		before := dec
		dec = grpchan.InterceptServer(before, outU, outS)
		if outU == nil && outS == nil && dec != before {
			add("nil-nil-not-same", "InterceptServer", "InterceptServer(desc, nil, nil) returned a different descriptor")
		}
		final = dec
		registry.RegisterService(final, srv)
	} else {
		r := grpchan.WithInterceptor(registry, outU, outS)
		if outU == nil && outS == nil && !sameRegistrar(r, registry) {
			add("nil-nil-not-same", "WithInterceptor", "WithInterceptor(reg, nil, nil) returned a different registry")
		}
		if c.Depth == 2 {
			r2 := grpchan.WithInterceptor(r, inU, inS)
			if inU == nil && inS == nil && !sameRegistrar(r2, r) {
				add("nil-nil-not-same", "WithInterceptor", "WithInterceptor(reg, nil, nil) returned a different registry")
			}
			r = r2
		}
		r.RegisterService(d0, srv)
		if viaMap {
			var h interface{}
			final, h = hm.QueryService(svcName)
			if final == nil || h != srv {
				add("registration-lost", "", fmt.Sprintf("after RegisterService through WithInterceptor the registry has (%v, %v)", final, h))
				return
			}
		}
	}
	if shared {
		// contribute the ONE decorated registration to every carrier
		for _, t := range targets {
			if t.reg != nil {
				hm.ForEach(t.reg.RegisterService)
			}
		}
	}
	if final != nil && shapeOf(final) != shapeOf(d0) {
		add("decorated-shape", "", fmt.Sprintf("decorated descriptor is %q, original %q", shapeOf(final), shapeOf(d0)))
	}

	// the calls
	n := c.U
	if c.Kind == "stream" {
		n = len(c.Flags)
	}
	var obs []string
	for i := 0; i < n; i++ {
		sub := fmt.Sprintf("m=%d/%d", i, n)
		var method string
		var cs, ss bool
		if c.Kind == "unary" {
			method = unaryName(i)
		} else {
			method = streamName(i)
			cs, ss = c.Flags[i]&1 != 0, c.Flags[i]&2 != 0
			sub += fmt.Sprintf(",cs=%v,ss=%v", cs, ss)
		}
		full := "/" + svcName + "/" + method
		msub := sub
		for k, t := range targets {
			sub := msub
			if shared {
				sub += fmt.Sprintf(",call=%d:%s", k, t.who)
			}
			if c.Ctx != 0 {
				sub += fmt.Sprintf(",ctx=%d", c.Ctx)
			}
			ccs, css := cs, ss // the flags the client opens the stream with
			if c.CF != 0 && c.Kind == "stream" {
				ccs, css = (c.CF-1)&1 != 0, (c.CF-1)&2 != 0
				sub += fmt.Sprintf(",client-cs=%v,client-ss=%v", ccs, css)
			}
			want := expect(c, c.chainWith(t.who, t.beh), method)
			ctx, cancel := context.WithCancel(context.Background())
			var done chan struct{}
			l.beforeOnward, l.onReturn = nil, nil
			switch c.Ctx {
			case 1:
				cancel()
			case 2:
				done = make(chan struct{})
				var once sync.Once
				tw := t.who
				l.beforeOnward = func(who string) {
					if who == tw {
						cancel()
					}
				}
				l.onReturn = func(who string) {
					if who == tw {
						once.Do(func() { close(done) })
					}
				}
			}
			l.take()
			res := call(c, ctx, method, full, ccs, css, final, srv, t.tU, t.tS, t.ipc, t.hs)
			if done != nil && c.Carrier != "direct" {
				<-done // the server side runs in its own goroutine: wait until the outermost participant has returned
			}
			cancel()
			l.beforeOnward, l.onReturn = nil, nil
			es := l.take()
			// with a dead context on a transport, what the client sees and what the handler can still read is the transport's business (C04), not this property's
			relaxed := c.Ctx != 0 && c.Carrier != "direct"
			got := whos(es)
			o := fmt.Sprintf("%s"+map[bool]string{true: "@" + t.who, false: ""}[shared]+": log=%v result=(%q %v err=%v)", method, got, res.respVal, res.msgs, res.err)
			obs = append(obs, o)
			if verbose {
				fmt.Println("  " + o + fmt.Sprintf("   expected log=%v", want.log))
			}
			if res.panicked != nil {
				add("panic", sub, fmt.Sprintf("call %s panicked: %v", full, res.panicked))
				continue
			}
			if cl := classifyLog(got, want.log); cl != "" {
				add(cl, sub, fmt.Sprintf("call %s: event log %v, expected %v", full, got, want.log))
				continue
			}
			// per-event checks
			var firstReq interface{}
			var firstStream grpc.ServerStream
			for k, e := range es {
				if e.who == "H" {
					if e.method != method {
						add("wrong-method-handler", sub, fmt.Sprintf("call %s ran the handler of %s", full, e.method))
					}
					if e.srv != interface{}(srv) {
						add("handler-srv", sub, fmt.Sprintf("call %s: handler got srv %v, registered %v", full, e.srv, srv))
					}
					if e.reqValue != "req:"+method && !relaxed {
						add("request-value", sub, fmt.Sprintf("call %s: handler read request %q, sent %q", full, e.reqValue, "req:"+method))
					}
				} else {
					if e.fullMethod != full {
						add("full-method", e.who+","+sub, fmt.Sprintf("call %s: interceptor %s was told FullMethod %q", full, e.who, e.fullMethod))
					}
					if c.Kind == "stream" && (e.cs != cs || e.ss != ss) {
						add("stream-flags", e.who+","+sub, fmt.Sprintf("call %s (client=%v server=%v): interceptor %s was told IsClientStream=%v IsServerStream=%v", full, cs, ss, e.who, e.cs, e.ss))
					}
				}
				if c.Kind == "unary" {
					if k == 0 {
						firstReq = e.req
					} else if e.req != firstReq {
						add("request-identity", sub, fmt.Sprintf("call %s: %s saw a different request object than %s", full, e.who, es[0].who))
					}
				} else {
					if k == 0 {
						firstStream = e.stream
					} else if e.stream != firstStream {
						add("stream-identity", sub, fmt.Sprintf("call %s: %s saw a different stream object than %s", full, e.who, es[0].who))
					}
				}
				if e.called && k+1 < len(es) {
					nx := es[k+1]
					if e.gotResp != nx.retResp || e.gotErr != nx.retErr {
						add("result-passthrough", sub, fmt.Sprintf("call %s: %s got (%v, %v) from calling onward but %s returned (%v, %v)", full, e.who, e.gotResp, e.gotErr, nx.who, nx.retResp, nx.retErr))
					}
				}
			}
			// what the caller sees
			if c.Carrier == "direct" {
				top := es[0]
				if c.Kind == "unary" && res.resp != top.retResp {
					add("caller-result", sub, fmt.Sprintf("call %s: caller got response %v, %s returned %v", full, res.resp, top.who, top.retResp))
				}
				if res.err != top.retErr {
					add("caller-result", sub, fmt.Sprintf("call %s: caller got error %v, %s returned %v", full, res.err, top.who, top.retErr))
				}
				if c.Kind == "stream" && !reflect.DeepEqual(res.msgs, want.msgs) && !(len(res.msgs) == 0 && len(want.msgs) == 0) {
					add("caller-result", sub, fmt.Sprintf("call %s: messages sent %v, expected %v", full, res.msgs, want.msgs))
				}
			} else if !relaxed {
				st, _ := status.FromError(res.err)
				if res.err == io.EOF {
					st = status.New(codes.OK, "")
				}
				if st.Code() != want.code || (want.code != codes.OK && st.Message() != want.msg) {
					add("client-status", sub, fmt.Sprintf("call %s: client got %v, expected code=%v msg=%q", full, res.err, want.code, want.msg))
				} else if want.code == codes.OK {
					if c.Kind == "unary" && res.respVal != want.resp {
						add("client-response", sub, fmt.Sprintf("call %s: client got response %q, expected %q", full, res.respVal, want.resp))
					}
					if c.Kind == "stream" && !reflect.DeepEqual(res.msgs, want.msgs) {
						add("client-response", sub, fmt.Sprintf("call %s: client got messages %v, expected %v", full, res.msgs, want.msgs))
					}
				} else if c.Kind == "stream" && css && !reflect.DeepEqual(res.msgs, want.msgs) && !(len(res.msgs) == 0 && len(want.msgs) == 0) {
					add("client-response", sub, fmt.Sprintf("call %s: client got messages %v before the error, expected %v", full, res.msgs, want.msgs))
				}
			}
		}

	}

	// the input description must be untouched: structurally ...
	if s := snapshot(d0); s != snap0 {
		add("input-desc-modified", "structure", fmt.Sprintf("input ServiceDesc changed: before %q after %q", snap0, s))
	}
	// ... and behaviourally: calling its handlers directly runs no interceptor
	for i := range d0.Methods {
		name := d0.Methods[i].MethodName
		l.take()
		_, _ = d0.Methods[i].Handler(srv, context.Background(), func(m interface{}) error { m.(*wrapperspb.StringValue).Value = "req:" + name; return nil }, nil)
		es := l.take()
		if len(es) != 1 || es[0].who != "H" || es[0].method != name {
			add("input-desc-modified", "unary-handler", fmt.Sprintf("after decoration, the ORIGINAL descriptor's handler for %s logs %v (method %s)", name, whos(es), methodOf(es)))
		}
	}
	for i := range d0.Streams {
		name := d0.Streams[i].StreamName
		l.take()
		_ = d0.Streams[i].Handler(srv, &fakeStream{ctx: context.Background(), in: []*wrapperspb.StringValue{wrapperspb.String("req:" + name)}})
		es := l.take()
		if len(es) != 1 || es[0].who != "H" || es[0].method != name {
			add("input-desc-modified", "stream-handler", fmt.Sprintf("after decoration, the ORIGINAL descriptor's handler for %s logs %v (method %s)", name, whos(es), methodOf(es)))
		}
	}
	return probs, strings.Join(obs, "; ")
}

func methodOf(es []*entry) string {
	for _, e := range es {
		if e.who == "H" {
			return e.method
		}
	}
	return "-"
}

func call(c caseT, ctx context.Context, method, full string, cs, ss bool, final *grpc.ServiceDesc, srv interface{}, tU grpc.UnaryServerInterceptor, tS grpc.StreamServerInterceptor, ipc *inprocgrpc.Channel, hs *httpgrpc.Server) (res callResult) {
	defer func() {
		if r := recover(); r != nil {
			res.panicked = r
		}
	}()
	reqVal := "req:" + method
	if c.Carrier == "direct" {
		if c.Kind == "unary" {
			for i := range final.Methods {
				if final.Methods[i].MethodName == method {
					resp, err := final.Methods[i].Handler(srv, ctx, func(m interface{}) error { m.(*wrapperspb.StringValue).Value = reqVal; return nil }, tU)
					res.resp, res.err = resp, err
					if sv, ok := resp.(*wrapperspb.StringValue); ok && sv != nil {
						res.respVal = sv.Value
					}
					return
				}
			}
			panic("decorated descriptor lacks unary method " + method)
		}
		for i := range final.Streams {
			if final.Streams[i].StreamName == method {
				fs := &fakeStream{ctx: ctx, in: []*wrapperspb.StringValue{wrapperspb.String(reqVal)}}
				sd := &final.Streams[i]
				// what the transports do
				if tS != nil {
					res.err = tS(srv, fs, &grpc.StreamServerInfo{FullMethod: full, IsClientStream: sd.ClientStreams, IsServerStream: sd.ServerStreams}, sd.Handler)
				} else {
					res.err = sd.Handler(srv, fs)
				}
				res.msgs = fs.sent
				return
			}
		}
		panic("decorated descriptor lacks stream method " + method)
	}
	var ch grpc.ClientConnInterface
	if c.Carrier == "inproc" {
		ch = ipc
	} else {
		ch = &httpgrpc.Channel{Transport: common.HandlerRT(hs), BaseURL: baseURL}
	}
	if c.Kind == "unary" {
		var out wrapperspb.StringValue
		res.err = ch.Invoke(ctx, full, wrapperspb.String(reqVal), &out)
		res.respVal = out.Value
		return
	}
	st, err := ch.NewStream(ctx, &grpc.StreamDesc{StreamName: method, ClientStreams: cs, ServerStreams: ss}, full)
	if err != nil {
		res.err = err
		return
	}
	if err := st.SendMsg(wrapperspb.String(reqVal)); err != nil && err != io.EOF {
		res.err = fmt.Errorf("SendMsg: %w", err)
		return
	}
	st.CloseSend()
	for k := 0; k < 5; k++ {
		var out wrapperspb.StringValue
		if err := st.RecvMsg(&out); err != nil {
			res.err = err
			return
		}
		res.msgs = append(res.msgs, out.Value)
	}
	res.err = fmt.Errorf("more than 5 messages")
	return
}

// ---------------------------------------------------------------- enumeration

type shape struct {
	U     int
	Flags []int
}

func shapes(allPairsForTwo bool) []shape {
	var out []shape
	for u := 0; u <= 2; u++ {
		out = append(out, shape{u, nil})
		for f := 0; f < 4; f++ {
			out = append(out, shape{u, []int{f}})
		}
		if allPairsForTwo {
			for f := 0; f < 4; f++ {
				for g := 0; g < 4; g++ {
					out = append(out, shape{u, []int{f, g}})
				}
			}
		} else {
			out = append(out, shape{u, []int{1, 2}}, shape{u, []int{3, 0}})
		}
	}
	sort.SliceStable(out, func(i, j int) bool { return out[i].U+len(out[i].Flags) < out[j].U+len(out[j].Flags) })
	return out
}

func enumerate(tier string, fn func(caseT)) {
	maxDepth := 2
	full, reduced := shapes(true), shapes(false)
	behs := []int{bNil, bPass, bShort, bFail, bRewrite}
	bools := []bool{false, true}
	for depth := 1; depth <= maxDepth; depth++ {
		d2s, od2s := []int{bNil}, []bool{false}
		if depth == 2 {
			d2s, od2s = behs, bools
		}
		shs := full
		if depth == 2 && tier != "thorough" {
			shs = reduced // quick: nesting on 21 shapes (0-2 unary x {no stream, one stream of each flag pair, [client,server], [bidi,neither]})
		}
		for _, sh := range shs {
			for _, carrier := range []string{"direct", "inproc", "http"} {
				for _, form := range []string{"IS", "WI"} {
					for _, kind := range []string{"unary", "stream"} {
						for _, t := range behs {
							for _, d1 := range behs {
								for _, d2 := range d2s {
									for _, ot := range bools {
										for _, od1 := range bools {
											for _, od2 := range od2s {
												for _, herr := range bools {
													fn(caseT{Carrier: carrier, Form: form, U: sh.U, Flags: sh.Flags, Depth: depth, Kind: kind,
														T: t, D1: d1, D2: d2, OT: ot, OD1: od1, OD2: od2, HErr: herr})
												}
											}
										}
									}
								}
							}
						}
					}
				}
			}
		}
	}
}

// fingerprint keeps, per clause, the parameters the clause can depend on.
func fingerprint(c caseT, pr problem) string {
	setPat := fmt.Sprintf("own=%v/%v/%v,other=%v/%v/%v", c.T != 0, c.D1 != 0, c.D2 != 0, c.OT, c.OD1, c.OD2)
	switch pr.clause {
	case "nil-nil-not-same":
		if c.Form == "WI" {
			return fmt.Sprintf("C16|%s|%s|nil-nil-not-same", c.Carrier, pr.sub)
		}
		return fmt.Sprintf("C16|%s|nil-nil-not-same", pr.sub)
	case "input-desc-modified", "decorated-shape":
		return fmt.Sprintf("C16|%s|%s|depth=%d|%s|%s|%s", c.Form, c.Kind, c.Depth, setPat, pr.sub, pr.clause)
	case "stream-flags", "full-method":
		return fmt.Sprintf("C16|%s|%s|%s|depth=%d|%s|%s", c.Carrier, c.Form, c.Kind, c.Depth, pr.sub, pr.clause)
	case "result-passthrough", "caller-result", "client-status", "client-response", "request-value", "panic":
		return fmt.Sprintf("C16|%s|%s|%s|depth=%d|%s|herr=%v|%s|%s", c.Carrier, c.Form, c.Kind, c.Depth, c.chainStr(), c.HErr, pr.sub, pr.clause)
	}
	// event-log clauses: the handler's outcome cannot matter
	return fmt.Sprintf("C16|%s|%s|%s|depth=%d|%s|%s|%s", c.Carrier, c.Form, c.Kind, c.Depth, c.chainStr(), pr.sub, pr.clause)
}

// enumerateShared: sharing cases (see caseT.Seq). One decorated description, several
// carriers / successive calls with transport-level interceptor sequences over {none, A, B}.
func enumerateShared(tier string, fn func(caseT)) {
	var seqs [][]int
	for n := 2; n <= 3; n++ {
		total := 1
		for i := 0; i < n; i++ {
			total *= 3
		}
		for x := 0; x < total; x++ {
			q := make([]int, n)
			y := x
			for i := n - 1; i >= 0; i-- {
				q[i] = y % 3
				y /= 3
			}
			seqs = append(seqs, q)
		}
	}
	set := []int{bPass, bShort, bFail, bRewrite}
	bools := []bool{false, true}
	for depth := 1; depth <= 2; depth++ {
		d2s := []int{bNil}
		if depth == 2 {
			d2s = set
			if tier != "thorough" {
				d2s = []int{bPass}
			}
		}
		shs := shapes(false)
		if tier != "thorough" {
			shs = []shape{{1, nil}, {0, []int{3}}, {2, []int{1, 2}}, {1, []int{3, 0}}}
		}
		for _, sh := range shs {
			for _, carrier := range []string{"direct", "inproc", "http"} {
				for _, form := range []string{"IS", "WI"} {
					for _, kind := range []string{"unary", "stream"} {
						if (kind == "unary" && sh.U == 0) || (kind == "stream" && len(sh.Flags) == 0) {
							continue
						}
						for _, seq := range seqs {
							for _, d1 := range set {
								for _, d2 := range d2s {
									for _, od1 := range bools {
										for _, herr := range bools {
											fn(caseT{Carrier: carrier, Form: form, U: sh.U, Flags: sh.Flags, Depth: depth, Kind: kind,
												D1: d1, D2: d2, OD1: od1, HErr: herr, Seq: seq})
										}
									}
								}
							}
						}
					}
				}
			}
		}
	}
}

// enumerateCtx: the context dimension. Direct carrier: context already cancelled at dispatch, or
// cancelled by the transport-level interceptor just before it calls onward; in-process channel: the
// latter only (with a context that is dead at dispatch a transport may legitimately not dispatch at
// all, and whether it will cannot be observed without timing).
func enumerateCtx(tier string, fn func(caseT)) {
	behs := []int{bNil, bPass, bShort, bFail, bRewrite}
	d2s := []int{bNil, bPass}
	shs := []shape{{1, nil}, {0, []int{3}}, {2, []int{1, 2}}}
	if tier == "thorough" {
		d2s = behs
		shs = shapes(false)
	}
	for _, sh := range shs {
		for _, cc := range []struct {
			carrier string
			ctx     int
		}{{"direct", 1}, {"direct", 2}, {"inproc", 2}} {
			ts := behs
			if cc.ctx == 2 {
				ts = []int{bPass, bRewrite}
			}
			for _, form := range []string{"IS", "WI"} {
				for _, kind := range []string{"unary", "stream"} {
					if (kind == "unary" && sh.U == 0) || (kind == "stream" && len(sh.Flags) == 0) {
						continue
					}
					for _, t := range ts {
						for _, d1 := range behs {
							for _, d2 := range d2s {
								for _, herr := range []bool{false, true} {
									depth := 1
									if d2 != bNil {
										depth = 2
									}
									fn(caseT{Carrier: cc.carrier, Form: form, U: sh.U, Flags: sh.Flags, Depth: depth, Kind: kind,
										T: t, D1: d1, D2: d2, HErr: herr, Ctx: cc.ctx})
								}
							}
						}
					}
				}
			}
		}
	}
}

// enumerateClientFlags: a (generic) client opens the stream with flags that differ from the
// registered ones; interceptors must still be told the service's flags.
func enumerateClientFlags(fn func(caseT)) {
	behs := []int{bNil, bPass, bShort, bFail, bRewrite}
	shs := []shape{{0, []int{0}}, {0, []int{1}}, {0, []int{2}}, {0, []int{3}}, {1, []int{1, 2}}}
	for _, sh := range shs {
		for _, carrier := range []string{"inproc", "http"} {
			for _, form := range []string{"IS", "WI"} {
				for cf := 1; cf <= 4; cf++ {
					differs := false
					for _, f := range sh.Flags {
						differs = differs || f != cf-1
					}
					if !differs {
						continue
					}
					for _, t := range behs {
						for _, d1 := range behs {
							for _, herr := range []bool{false, true} {
								fn(caseT{Carrier: carrier, Form: form, U: sh.U, Flags: sh.Flags, Depth: 1, Kind: "stream",
									T: t, D1: d1, HErr: herr, CF: cf})
							}
						}
					}
				}
			}
		}
	}
}

func main() {
	rep := vlib.NewReporter("C16")
	go func() { // hang guard
		last := int64(-1)
		for {
			time.Sleep(30 * time.Second)
			p := atomic.LoadInt64(&progress)
			if p == last {
				fmt.Fprintf(os.Stderr, "INCONCLUSIVE: no progress for 30s in case %v\n", current.Load())
				os.Exit(2)
			}
			last = p
		}
	}()

	if p := common.Arg("replay"); p != "" {
		var c caseT
		if err := common.LoadReplay(p, &c); err != nil {
			fmt.Fprintln(os.Stderr, "INCONCLUSIVE:", err)
			os.Exit(2)
		}
		fmt.Println("replay:", c.String())
		probs, _ := runCase(c, true)
		for _, pr := range probs {
			fmt.Printf("  %s[%s]: %s\n", pr.clause, pr.sub, pr.what)
		}
		if len(probs) > 0 {
			fmt.Printf("VIOLATION property=C16 replay=%s\n", p)
			os.Exit(1)
		}
		os.Exit(0)
	}

	evals, calls := 0, 0
	distinct := map[string]bool{}
	var samples []interface{}
	suppressedFPs := map[string]bool{}
	const maxReported = 100
	sharedCases, ctxCases, cfCases := 0, 0, 0
	visit := func(c caseT) {
		evals++
		if len(c.Seq) > 0 {
			sharedCases++
		}
		if c.Ctx != 0 {
			ctxCases++
		}
		if c.CF != 0 {
			cfCases++
		}
		probs, obs := runCase(c, false)
		n := c.U
		if c.Kind == "stream" {
			n = len(c.Flags)
		}
		if len(c.Seq) > 0 {
			n *= len(c.Seq)
		}
		calls += n
		if n > 0 && len(c.chain()) > 0 {
			distinct[c.String()] = true
		}
		if len(samples) < 8 && n > 0 && len(c.chain()) >= 2 && evals%7919 == 0 {
			samples = append(samples, map[string]interface{}{"case": c, "observed": obs})
		}
		for _, pr := range probs {
			fp := fingerprint(c, pr)
			if rep.Violations >= maxReported {
				suppressedFPs[fp] = true
				continue
			}
			rep.Violation(fp, pr.what+"   ["+c.String()+"]", c)
		}
	}
	enumerate(rep.Tier, visit)
	enumerateShared(rep.Tier, visit)
	enumerateCtx(rep.Tier, visit)
	enumerateClientFlags(visit)
	suppressed := len(suppressedFPs)
	if suppressed > 0 {
		fmt.Printf("(%d further distinct fingerprints not reported individually after the first %d)\n", suppressed, maxReported)
	}
	os.Exit(rep.Finish("exploration", map[string]interface{}{
		"evaluations":         evals,
		"sharing_cases":       sharedCases,
		"context_cases":       ctxCases,
		"client_flag_cases":   cfCases,
		"rpc_calls":           calls,
		"distinct_nontrivial": len(distinct),
		"rule":                "every configuration of: descriptor shape (0-2 unary x 0-2 streams with every flag pair) x carrier (direct call of the decorated descriptor / inprocgrpc.Channel / httpgrpc.Server via HandlerRT) x form (InterceptServer / WithInterceptor) x depth x kind called x behaviour {nil,pass,short-circuit,fail,rewrite} of the transport-level, outer and inner interceptor of that kind x nil/set of each interceptor of the other kind x handler ok/error; every method of the kind is called. Behaviours of other-kind interceptors are not varied because the oracle demands they are never invoked. In addition the SHARING cases: one decorated description (InterceptServer) or decorated HandlerMap (WithInterceptor), outer decoration behaviour {pass,short,fail,rewrite} x inner {none; quick: pass; thorough: all four} on 4 (quick) / 21 (thorough) shapes, is contributed through HandlerMap.ForEach/RegisterService to 2 or 3 in-process channels / HTTP servers, or its handler is called directly 2 or 3 times, with every sequence over {no transport interceptor, A, B} of length 2 and 3; every method of the kind is called on every carrier in turn, same oracle per call. CONTEXT cases: the RPC's context is already cancelled at dispatch (direct carrier) or is cancelled by the transport-level interceptor just before it calls onward (direct carrier and in-process channel, waiting for the server side to finish), all behaviours of T/outer/inner, same oracle on the event log and on identities (on the in-process channel the client-visible result is not judged in these cases). CLIENT-FLAG cases: on the in-process channel and the HTTP server the client opens the stream with a StreamDesc whose flags differ from the registered ones; interceptors must be told the registered flags. A configuration is non-trivial when at least one method is called and at least one interceptor is on its path; distinct by all parameters.",
		"samples":             samples,
		"exhaustive":          true,
		"suppressed_reports":  suppressed,
	}, []string{
		"original descriptors follow the contract of generated code (decode, then run the interceptor argument around the application method)",
		"a panic in a server goroutine of the in-process channel would abort the checker (exit 2) instead of being reported",
		"quick = nesting depth 1 on all 63 descriptor shapes + depth 2 on 21 shapes (0-2 unary x {no stream, one stream of each flag pair, [client-only, server-only], [bidi, neither]}); thorough = depths 1 and 2 on all 63 shapes",
	}))
}
