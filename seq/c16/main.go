// C16: server interceptors (grpchan.InterceptServer / grpchan.WithInterceptor and
// the transport-level interceptors of inprocgrpc.Channel and httpgrpc.Server).
//
// Exhaustive grammar: descriptor shapes x decoration (per layer: unary nil/set x
// stream nil/set) x nesting depth x transport-level interceptors x behaviour per
// interceptor on the call path x handler outcome x carrier x form of decoration.
// The oracle reads an ordered event log written by instrumented interceptors and
// handlers.
//
// Further dimensions, swept around base cases (see the evidence "rule"):
//   - sharing of one decorated description between carriers (Seq),
//   - the RPC's context dying (Ctx), client-side stream flags (CF),
//   - PASS-THROUGH: what an onward-calling interceptor hands to the next layer (the same
//     request / a modified clone, the same context / a derived one, the same ServerStream /
//     a wrapper) and what it returns (the same result / another response / another error),
//     checked at the very next layer and at the handler (TM/D1M/D2M, bRewriteErr),
//   - OVERLAP: two RPCs whose interceptor activity overlaps on one decorated carrier, one
//     interceptor calling onward late, from another goroutine, before or after it has
//     returned itself (overlap.go),
//   - VIEW PROGRAMS: registry views and decoration results as long-lived objects: sequences of
//     "derive a view from a root or from an earlier view" / "register a description, or the
//     decorated result of an earlier registration, through any registry that exists" over two
//     roots, with interceptor instances that are distinct values sharing their code (closures of
//     one factory, method values of several receivers), distinct code, or the very same value
//     (views.go),
//   - ERROR IDENTITY: the error that travels up the chain is a plain Go error (sentinel, wrapped sentinel, io.EOF,
//     context errors, custom types, wrapped / own status), made by the handler or by any layer; every layer above
//     must get back the very value the layer below returned (errident.go),
//   - CONFIGURATION ORDER: a carrier with transport-level interceptors as one long-lived object: every program of
//     registrations (plain / decorated) and (re)configurations of the transport-level interceptors {T1, T2, none},
//     with calls after every step; each call must pass the interceptor in force when it is made (cfgorder.go),
//   - ONWARD MULTIPLICITY: how many times an interceptor calls onward within one RPC (a server-side retry): every
//     onward-calling interceptor on the path makes 1..2 (thorough 1..3) onward calls one after the other; EVERY onward
//     call must go through all the layers below, in order, and then the handler (multiplicity.go).
package main

import (
	"context"
	"fmt"
	"io"
	"net/http"
	"net/url"
	"os"
	"reflect"
	"sort"
	"strings"
	"sync"
	"sync/atomic"
	"time"

	"github.com/fullstorydev/grpchan"
	"github.com/fullstorydev/grpchan/httpgrpc"
	"github.com/fullstorydev/grpchan/inprocgrpc"
	"google.golang.org/grpc"
	"google.golang.org/grpc/codes"
	"google.golang.org/grpc/metadata"
	"google.golang.org/grpc/status"
	"google.golang.org/protobuf/proto"
	"google.golang.org/protobuf/types/known/wrapperspb"

	"verif/seq/common"
	"verif/vlib"
)

// ---------------------------------------------------------------- grammar

const (
	bNil = iota
	bPass
	bShort
	bFail
	bRewrite
	// bRewriteErr replaces the ERROR: a unary interceptor returns (nil, Aborted "rwerr:<who>") whatever
	// came back; a stream interceptor swallows whatever error came back and returns nil.
	bRewriteErr
	// bFailRaw / bRewriteRaw (ERROR IDENTITY cases, errident.go): like bFail / bRewriteErr, but the error
	// returned is a plain Go error without a gRPC status, of the kind caseT.EK, made by this interceptor.
	bFailRaw
	bRewriteRaw
)

var behNames = []string{"nil", "pass", "short", "fail", "rewrite", "rewrite-err", "fail-raw", "rewrite-raw"}

// modifiers of an onward-calling behaviour: what is handed to the next layer
const (
	mReq = 1 // unary: a modified clone of the request (value + "+<who>"); stream: a wrapper around the ServerStream
	mCtx = 2 // unary: a context derived from the one received (carries a value keyed by <who>)
)

func onwardBeh(b int) bool {
	return b == bPass || b == bRewrite || b == bRewriteErr || b == bRewriteRaw
}

// behStr: a behaviour with its modifier, e.g. "pass+req+ctx" (unary) or "rewrite+wrap" (stream)
func behStr(kind string, b, m int) string {
	s := behNames[b]
	if kind == "stream" && b == bRewriteErr {
		s = "swallow-err"
	}
	if m&mReq != 0 {
		if kind == "stream" {
			s += "+wrap"
		} else {
			s += "+req"
		}
	}
	if m&mCtx != 0 {
		s += "+ctx"
	}
	return s
}

type caseT struct {
	Carrier string `json:"carrier"` // direct | inproc | http
	Form    string `json:"form"`    // IS = InterceptServer on the descriptor, WI = WithInterceptor on the registry
	U       int    `json:"u"`       // number of unary methods
	Flags   []int  `json:"flags"`   // one per stream method: bit0 = client streams, bit1 = server streams
	Depth   int    `json:"depth"`   // decoration layers (1 or 2)
	Kind    string `json:"kind"`    // unary | stream: the kind of method called
	T       int    `json:"t"`       // behaviour of the transport-level interceptor of that kind (0 = nil)
	D1      int    `json:"d1"`      // ... of the OUTER decoration
	D2      int    `json:"d2"`      // ... of the INNER decoration (depth 2)
	OT      bool   `json:"ot"`      // transport-level interceptor of the OTHER kind set?
	OD1     bool   `json:"od1"`     // outer decoration's interceptor of the other kind set?
	OD2     bool   `json:"od2"`     // inner ...
	HErr    bool   `json:"herr"`    // application handler fails
	// Seq, when not empty, makes this a SHARING case: one decorated description / registry is
	// contributed (HandlerMap.ForEach -> RegisterService) to len(Seq) carriers of the same type
	// (direct: the decorated handler is called len(Seq) times), the k-th with the transport-level
	// interceptor Seq[k] of the called kind: 0 = none, 1 = A, 2 = B (distinct, both call onward). T is unused.
	Seq []int `json:"seq,omitempty"`
	// Ctx: 0 = the RPC's context stays live; 1 = already cancelled at dispatch; 2 = cancelled by the
	// transport-level interceptor of the called kind just before it calls onward (T is pass or rewrite).
	Ctx int `json:"ctx,omitempty"`
	// CF: 0 = the client opens streams with the registered flags; 1..4 = with flags CF-1 (bit0 client, bit1 server)
	CF int `json:"cf,omitempty"`
	// TM, D1M, D2M: what the onward-calling interceptor hands to the next layer (bit mReq, bit mCtx; see above)
	TM  int `json:"tm,omitempty"`
	D1M int `json:"d1m,omitempty"`
	D2M int `json:"d2m,omitempty"`
	// EK, when not 0, makes this an ERROR IDENTITY case (errident.go): the kind of error that a failing handler
	// (HErr) and interceptors with behaviour fail-raw / rewrite-raw return: errKindNames[EK]
	EK int `json:"ek,omitempty"`
	// Cfg, when set, makes this a CONFIGURATION ORDER case (cfgorder.go); only Carrier and Form are used besides
	Cfg *cfgT `json:"cfg,omitempty"`
	// Ov, when set, makes this an OVERLAP case (overlap.go)
	Ov *ovT `json:"ov,omitempty"`
	// Vw, when set, makes this a VIEW PROGRAM case (views.go); only Carrier and Form are used besides
	Vw *vwT `json:"vw,omitempty"`
	// Mu, when set, makes this an ONWARD MULTIPLICITY case (multiplicity.go)
	Mu *muT `json:"mu,omitempty"`
}

var seqNames = []string{"nil", "A", "B"}

func (c caseT) seqStr() string {
	var s []string
	for _, x := range c.Seq {
		s = append(s, seqNames[x])
	}
	return "[" + strings.Join(s, ",") + "]"
}

func (c caseT) chainStr() string {
	if len(c.Seq) > 0 {
		return fmt.Sprintf("seq=%s,D1=%s,D2=%s", c.seqStr(), behNames[c.D1], behNames[c.D2])
	}
	return fmt.Sprintf("T=%s,D1=%s,D2=%s", behStr(c.Kind, c.T, c.TM), behStr(c.Kind, c.D1, c.D1M), behStr(c.Kind, c.D2, c.D2M))
}

func (c caseT) String() string {
	if c.Vw != nil {
		return fmt.Sprintf("%s/%s %s", c.Carrier, c.Form, c.Vw.String())
	}
	if c.Cfg != nil {
		return fmt.Sprintf("%s/%s %s", c.Carrier, c.Form, c.Cfg.String())
	}
	s := fmt.Sprintf("%s/%s u=%d flags=%v depth=%d %s %s other=%v/%v/%v herr=%v", c.Carrier, c.Form, c.U, c.Flags, c.Depth, c.Kind, c.chainStr(), c.OT, c.OD1, c.OD2, c.HErr)
	if c.Ctx != 0 {
		s += " ctx=" + []string{"live", "cancelled-at-dispatch", "cancelled-by-T-before-onward"}[c.Ctx]
	}
	if c.CF != 0 {
		s += fmt.Sprintf(" client-flags=%d", c.CF-1)
	}
	if c.EK != 0 {
		s += " err-kind=" + errKindNames[c.EK]
	}
	if c.Ov != nil {
		s += " " + c.Ov.String()
	}
	if c.Mu != nil {
		s += " " + c.Mu.String()
	}
	return s
}

// ---------------------------------------------------------------- event log

type entry struct {
	who        string // T, D1, D2, H; "x" prefix = interceptor of the other kind
	method     string // H: the method this handler closure was built for
	fullMethod string
	cs, ss     bool
	srv        interface{}
	ctx        context.Context // the context received (stream: the stream's context at entry)
	req        interface{}
	reqValue   string
	stream     grpc.ServerStream
	called     bool
	reqOut     interface{}       // unary interceptor: the request handed onward
	streamOut  grpc.ServerStream // stream interceptor: the stream handed onward
	gotResp    interface{}
	gotErr     error
	retResp    interface{}
	retErr     error
	// what the info object says when the onward call has come back and the interceptor is about to
	// return (interceptors that log or meter read it then); not recorded when the interceptor itself has already returned
	after            bool
	fullMethodAfter  string
	csAfter, ssAfter bool
	rpc              int         // overlap cases: the RPC this event belongs to (read from the request / the stream's metadata)
	panicked         interface{} // a panic recovered around the onward call made from another goroutine
	// onward multiplicity cases: one record per onward call made (interceptors); the how-many-th run of the handler in this RPC (H)
	ons []*onwardRec
	run int
}

// ctxKey: the key under which interceptor <who> stores "ctx:<who>" in the context it hands onward
type ctxKey struct{ who string }

// wrapStream is what a stream interceptor with modifier mReq hands onward: a derived context,
// and every message passing through it in either direction gets the suffix "+<who>".
type wrapStream struct {
	grpc.ServerStream
	who string
	ctx context.Context
}

func (w *wrapStream) Context() context.Context { return w.ctx }
func (w *wrapStream) RecvMsg(m interface{}) error {
	err := w.ServerStream.RecvMsg(m)
	if sv, ok := m.(*wrapperspb.StringValue); ok && err == nil {
		sv.Value += "+" + w.who
	}
	return err
}
func (w *wrapStream) SendMsg(m interface{}) error {
	if sv, ok := m.(*wrapperspb.StringValue); ok {
		return w.ServerStream.SendMsg(wrapperspb.String(sv.Value + "+" + w.who))
	}
	return w.ServerStream.SendMsg(m)
}

type clog struct {
	mu sync.Mutex
	es []*entry
	// hooks of the current call (set by the case runner)
	beforeOnward func(who string)
	onReturn     func(who string)
	// overlap cases: which interceptor calls onward late, and the gates of the RPCs in flight
	ov *ovState
	// error identity cases: the kind of error that fail-raw / rewrite-raw interceptors return
	ek int
	// onward multiplicity cases: how often each interceptor calls onward, what it hands onward; handler runs in the current RPC
	mul   *muT
	hruns int
}

func (l *clog) onward(who string) {
	if l.beforeOnward != nil {
		l.beforeOnward(who)
	}
}

func (l *clog) returning(who string) {
	if l.onReturn != nil {
		l.onReturn(who)
	}
}

func (l *clog) add(e *entry) *entry {
	l.mu.Lock()
	l.es = append(l.es, e)
	l.mu.Unlock()
	return e
}

func (l *clog) take() []*entry {
	l.mu.Lock()
	defer l.mu.Unlock()
	es := l.es
	l.es = nil
	return es
}

func mkUnary(l *clog, who string, b, mod int) grpc.UnaryServerInterceptor {
	if b == bNil {
		return nil
	}
	return func(ctx context.Context, req interface{}, info *grpc.UnaryServerInfo, handler grpc.UnaryHandler) (interface{}, error) {
		e := l.add(&entry{who: who, fullMethod: info.FullMethod, ctx: ctx, req: req, srv: info.Server})
		if l.ov != nil {
			e.rpc = rpcOfReq(req)
		}
		switch b {
		case bShort:
			e.retResp = wrapperspb.String("short:" + who)
		case bFail:
			e.retErr = status.Error(codes.PermissionDenied, "fail:"+who)
		case bFailRaw:
			e.retErr = rawErr(l.ek, who)
		default: // the onward-calling behaviours
			e.called = true
			if l.mul != nil {
				return l.muUnary(e, who, b, ctx, req, info, handler)
			}
			octx, oreq := ctx, req
			if sv, ok := req.(*wrapperspb.StringValue); ok && mod&mReq != 0 {
				oreq = wrapperspb.String(sv.Value + "+" + who) // the received request itself stays untouched
			}
			if mod&mCtx != 0 {
				octx = context.WithValue(ctx, ctxKey{who}, "ctx:"+who)
			}
			e.reqOut = oreq
			l.onward(who)
			if g := l.gateFor(who, e.rpc); g != nil {
				if late := g.run(l.ov.mode, e, func() { e.gotResp, e.gotErr = handler(octx, oreq) }); late {
					e.retErr = status.Error(codes.DeadlineExceeded, "late:"+who)
					l.returning(who)
					return nil, e.retErr
				}
			} else {
				e.gotResp, e.gotErr = handler(octx, oreq)
			}
			e.after, e.fullMethodAfter = true, info.FullMethod
			switch b {
			case bPass:
				e.retResp, e.retErr = e.gotResp, e.gotErr
			case bRewrite:
				e.retResp = wrapperspb.String("rw:" + who)
			case bRewriteErr:
				e.retErr = status.Error(codes.Aborted, "rwerr:"+who)
			case bRewriteRaw:
				e.retErr = rawErr(l.ek, who)
			}
		}
		l.returning(who)
		return e.retResp, e.retErr
	}
}

func mkStream(l *clog, who string, b, mod int) grpc.StreamServerInterceptor {
	if b == bNil {
		return nil
	}
	return func(srv interface{}, ss grpc.ServerStream, info *grpc.StreamServerInfo, handler grpc.StreamHandler) error {
		e := l.add(&entry{who: who, fullMethod: info.FullMethod, cs: info.IsClientStream, ss: info.IsServerStream, srv: srv, stream: ss, ctx: ss.Context()})
		if l.ov != nil {
			e.rpc = rpcOfCtx(e.ctx)
		}
		switch b {
		case bShort:
			ss.SendMsg(wrapperspb.String("short:" + who))
		case bFail:
			e.retErr = status.Error(codes.PermissionDenied, "fail:"+who)
		case bFailRaw:
			e.retErr = rawErr(l.ek, who)
		default: // the onward-calling behaviours
			e.called = true
			if l.mul != nil {
				return l.muStream(e, who, b, srv, ss, info, handler)
			}
			oss := ss
			if mod&mReq != 0 {
				oss = &wrapStream{ServerStream: ss, who: who, ctx: context.WithValue(e.ctx, ctxKey{who}, "ctx:"+who)}
			}
			e.streamOut = oss
			l.onward(who)
			if g := l.gateFor(who, e.rpc); g != nil {
				if late := g.run(l.ov.mode, e, func() { e.gotErr = handler(srv, oss) }); late {
					e.retErr = status.Error(codes.DeadlineExceeded, "late:"+who)
					l.returning(who)
					return e.retErr
				}
			} else {
				e.gotErr = handler(srv, oss)
			}
			e.after, e.fullMethodAfter, e.csAfter, e.ssAfter = true, info.FullMethod, info.IsClientStream, info.IsServerStream
			switch b {
			case bPass:
				e.retErr = e.gotErr
			case bRewrite:
				e.retErr = status.Error(codes.Aborted, "rw:"+who)
			case bRewriteErr:
				e.retErr = nil
			case bRewriteRaw:
				e.retErr = rawErr(l.ek, who)
			}
		}
		l.returning(who)
		return e.retErr
	}
}

// ---------------------------------------------------------------- the service

const svcName = "t.Svc"

type svcIface interface{}
type impl struct{ n int }

func unaryName(i int) string  { return fmt.Sprintf("U%d", i) }
func streamName(i int) string { return fmt.Sprintf("S%d", i) }

// makeDesc builds a descriptor the way generated code does: the unary handler
// decodes, then runs the interceptor it is given around the application method.
func makeDesc(c caseT, l *clog) *grpc.ServiceDesc {
	return makeDescNamed(svcName, "", c, l)
}

// makeDescNamed: the same for a service called svc whose method names carry the prefix pre
// (view programs register several services; c gives the shape and the handler's outcome).
func makeDescNamed(svcName, pre string, c caseT, l *clog) *grpc.ServiceDesc {
	d := &grpc.ServiceDesc{ServiceName: svcName, HandlerType: (*svcIface)(nil), Metadata: "t/svc.proto"}
	for i := 0; i < c.U; i++ {
		name := pre + unaryName(i)
		app := func(srv interface{}, ctx context.Context, req interface{}) (interface{}, error) {
			e := l.add(&entry{who: "H", method: name, srv: srv, req: req, ctx: ctx})
			if sv, ok := req.(*wrapperspb.StringValue); ok {
				e.reqValue = sv.Value
			}
			if l.ov != nil {
				e.rpc = rpcOfReq(req)
			}
			herr := c.HErr
			if l.mul != nil {
				e.run = l.nextRun()
				herr = l.mul.handlerFails(c.HErr, e.run)
			}
			if herr && c.EK != 0 {
				e.retErr = rawErr(c.EK, "H")
			} else if herr {
				e.retErr = status.Error(codes.NotFound, "handler error")
			} else {
				e.retResp = wrapperspb.String("resp:" + name)
			}
			return e.retResp, e.retErr
		}
		d.Methods = append(d.Methods, grpc.MethodDesc{MethodName: name, Handler: func(srv interface{}, ctx context.Context, dec func(interface{}) error, interceptor grpc.UnaryServerInterceptor) (interface{}, error) {
			in := new(wrapperspb.StringValue)
			if err := dec(in); err != nil {
				return nil, err
			}
			if interceptor == nil {
				return app(srv, ctx, in)
			}
			info := &grpc.UnaryServerInfo{Server: srv, FullMethod: "/" + svcName + "/" + name}
			handler := func(ctx context.Context, req interface{}) (interface{}, error) { return app(srv, ctx, req) }
			return interceptor(ctx, in, info, handler)
		}})
	}
	for i, fl := range c.Flags {
		name := pre + streamName(i)
		d.Streams = append(d.Streams, grpc.StreamDesc{StreamName: name, ClientStreams: fl&1 != 0, ServerStreams: fl&2 != 0, Handler: func(srv interface{}, stream grpc.ServerStream) error {
			e := l.add(&entry{who: "H", method: name, srv: srv, stream: stream, ctx: stream.Context()})
			if l.ov != nil {
				e.rpc = rpcOfCtx(e.ctx)
			}
			herr := c.HErr
			if l.mul != nil {
				e.run = l.nextRun()
				herr = l.mul.handlerFails(c.HErr, e.run)
			}
			var in wrapperspb.StringValue
			if err := stream.RecvMsg(&in); err == nil {
				e.reqValue = in.Value
			} else {
				e.reqValue = "<recv error: " + err.Error() + ">"
			}
			if herr && c.EK != 0 {
				e.retErr = rawErr(c.EK, "H")
				return e.retErr
			}
			if herr {
				e.retErr = status.Error(codes.NotFound, "handler error")
				return e.retErr
			}
			stream.SendMsg(wrapperspb.String("resp:" + name))
			return nil
		}})
	}
	return d
}

// fakeStream is the server stream of the "direct" carrier.
type fakeStream struct {
	ctx  context.Context
	mu   sync.Mutex // (overlap cases: a handler may run in another goroutine after the call has returned)
	in   []*wrapperspb.StringValue
	sent []string
}

func (f *fakeStream) snapshot() []string {
	f.mu.Lock()
	defer f.mu.Unlock()
	return append([]string(nil), f.sent...)
}

func (f *fakeStream) SetHeader(metadata.MD) error  { return nil }
func (f *fakeStream) SendHeader(metadata.MD) error { return nil }
func (f *fakeStream) SetTrailer(metadata.MD)       {}
func (f *fakeStream) Context() context.Context     { return f.ctx }
func (f *fakeStream) SendMsg(m interface{}) error {
	f.mu.Lock()
	defer f.mu.Unlock()
	f.sent = append(f.sent, m.(*wrapperspb.StringValue).Value)
	return nil
}
func (f *fakeStream) RecvMsg(m interface{}) error {
	f.mu.Lock()
	defer f.mu.Unlock()
	if len(f.in) == 0 {
		return io.EOF
	}
	proto.Merge(m.(proto.Message), f.in[0])
	f.in = f.in[1:]
	return nil
}

// ---------------------------------------------------------------- structural snapshot of a descriptor

func codePtr(f interface{}) uintptr {
	v := reflect.ValueOf(f)
	if !v.IsValid() || v.IsNil() {
		return 0
	}
	return v.Pointer()
}

func dataPtr(s interface{}) uintptr {
	v := reflect.ValueOf(s)
	if v.Len() == 0 {
		return 0
	}
	return v.Pointer()
}

func snapshot(d *grpc.ServiceDesc) string {
	var b strings.Builder
	fmt.Fprintf(&b, "name=%s htype=%v meta=%v methods@%x[%d] streams@%x[%d]", d.ServiceName, reflect.TypeOf(d.HandlerType), d.Metadata, dataPtr(d.Methods), len(d.Methods), dataPtr(d.Streams), len(d.Streams))
	for _, m := range d.Methods {
		fmt.Fprintf(&b, " U(%s,%x)", m.MethodName, codePtr(m.Handler))
	}
	for _, s := range d.Streams {
		fmt.Fprintf(&b, " S(%s,%v,%v,%x)", s.StreamName, s.ClientStreams, s.ServerStreams, codePtr(s.Handler))
	}
	return b.String()
}

// shapeOf: what a decorated descriptor must still say (names, flags, identity fields)
func shapeOf(d *grpc.ServiceDesc) string {
	var b strings.Builder
	fmt.Fprintf(&b, "name=%s htype=%v meta=%v", d.ServiceName, reflect.TypeOf(d.HandlerType), d.Metadata)
	for _, m := range d.Methods {
		fmt.Fprintf(&b, " U(%s,handler=%v)", m.MethodName, m.Handler != nil)
	}
	for _, s := range d.Streams {
		fmt.Fprintf(&b, " S(%s,%v,%v,handler=%v)", s.StreamName, s.ClientStreams, s.ServerStreams, s.Handler != nil)
	}
	return b.String()
}

func sameRegistrar(a, b grpc.ServiceRegistrar) bool {
	va, vb := reflect.ValueOf(a), reflect.ValueOf(b)
	if !va.IsValid() || !vb.IsValid() || va.Type() != vb.Type() {
		return false
	}
	switch va.Kind() {
	case reflect.Map, reflect.Ptr:
		return va.Pointer() == vb.Pointer()
	}
	return false
}

// ---------------------------------------------------------------- running one case

type problem struct {
	clause string
	sub    string // extra fingerprint component (method index ...)
	what   string
}

type chainEl struct {
	who  string
	beh  int
	mod  int
	late bool // overlap cases: this interceptor returns DeadlineExceeded "late:<who>" and calls onward afterwards
}

func (c caseT) chain() []chainEl { return c.chainWith("T", c.T) }

// chainWith: the interceptors on the path of a call whose transport-level interceptor is (who, beh)
func (c caseT) chainWith(who string, beh int) []chainEl {
	var ch []chainEl
	for _, el := range []chainEl{{who: who, beh: beh, mod: c.TM}, {who: "D1", beh: c.D1, mod: c.D1M}, {who: "D2", beh: c.D2, mod: c.D2M}} {
		if el.beh != bNil {
			ch = append(ch, el)
		}
	}
	return ch
}

// ctxMod: does this chain element hand a derived context onward?
func ctxMod(kind string, el chainEl) bool {
	if !onwardBeh(el.beh) {
		return false
	}
	if kind == "stream" {
		return el.mod&mReq != 0
	}
	return el.mod&mCtx != 0
}

// expected (reference model): the log and what the caller must see
type expectation struct {
	log  []string
	resp string   // unary: response value when code == OK
	msgs []string // stream: messages sent
	code codes.Code
	msg  string
	raw  string // error identity cases: who made a plain Go error on the way (not empty = the mechanism was reached)
}

func expect(c caseT, ch []chainEl, method string) expectation {
	var ev func(i int) expectation
	ev = func(i int) expectation {
		if i == len(ch) {
			if c.HErr && c.EK != 0 {
				code, msg := refStatus(rawErr(c.EK, "H"))
				return expectation{log: []string{"H"}, code: code, msg: msg, raw: "H"}
			}
			if c.HErr {
				return expectation{log: []string{"H"}, code: codes.NotFound, msg: "handler error"}
			}
			return expectation{log: []string{"H"}, resp: "resp:" + method, msgs: []string{"resp:" + method}}
		}
		who := ch[i].who
		switch ch[i].beh {
		case bShort:
			return expectation{log: []string{who}, resp: "short:" + who, msgs: []string{"short:" + who}}
		case bFail:
			return expectation{log: []string{who}, code: codes.PermissionDenied, msg: "fail:" + who}
		case bFailRaw:
			code, msg := refStatus(rawErr(c.EK, who))
			return expectation{log: []string{who}, code: code, msg: msg, raw: who}
		}
		x := ev(i + 1)
		x.log = append([]string{who}, x.log...)
		if c.Kind == "stream" && ch[i].mod&mReq != 0 {
			// everything sent further down went through this interceptor's wrapper
			tagged := make([]string, len(x.msgs))
			for k, m := range x.msgs {
				tagged[k] = m + "+" + who
			}
			x.msgs = tagged
		}
		if ch[i].late {
			// returned before anything further down ran
			return expectation{log: x.log, code: codes.DeadlineExceeded, msg: "late:" + who}
		}
		switch ch[i].beh {
		case bRewrite:
			if c.Kind == "unary" {
				return expectation{log: x.log, resp: "rw:" + who, raw: x.raw}
			}
			return expectation{log: x.log, msgs: x.msgs, code: codes.Aborted, msg: "rw:" + who, raw: x.raw}
		case bRewriteErr:
			if c.Kind == "unary" {
				return expectation{log: x.log, code: codes.Aborted, msg: "rwerr:" + who, raw: x.raw}
			}
			return expectation{log: x.log, msgs: x.msgs, raw: x.raw}
		case bRewriteRaw:
			code, msg := refStatus(rawErr(c.EK, who))
			if c.Kind == "unary" {
				return expectation{log: x.log, code: code, msg: msg, raw: x.raw + who}
			}
			return expectation{log: x.log, msgs: x.msgs, code: code, msg: msg, raw: x.raw + who}
		}
		return x // pass
	}
	return ev(0)
}

// expectedHandlerRequest: what the handler must read when it is reached: the value sent, with the
// suffix of every interceptor that replaces the request / wraps the stream, outermost first.
func expectedHandlerRequest(ch []chainEl, sent string) string {
	for _, el := range ch {
		if onwardBeh(el.beh) && el.mod&mReq != 0 {
			sent += "+" + el.who
		}
	}
	return sent
}

func whos(es []*entry) []string {
	out := make([]string, len(es))
	for i, e := range es {
		out[i] = e.who
	}
	return out
}

func classifyLog(got, want []string) string {
	if reflect.DeepEqual(got, want) || (len(got) == 0 && len(want) == 0) {
		return ""
	}
	cnt := map[string]int{}
	for _, g := range got {
		cnt[g]++
		if strings.HasPrefix(g, "x") {
			return "other-kind-interceptor-invoked"
		}
	}
	for _, n := range cnt {
		if n > 1 {
			return "invoked-more-than-once"
		}
	}
	wantSet := map[string]bool{}
	for _, w := range want {
		wantSet[w] = true
	}
	if cnt["H"] > 0 && !wantSet["H"] {
		return "handler-ran-although-an-interceptor-did-not-call-onward"
	}
	if cnt["H"] == 0 && wantSet["H"] {
		return "handler-not-run"
	}
	for _, g := range got {
		if !wantSet[g] {
			return "unexpected-interceptor"
		}
	}
	for _, w := range want {
		if cnt[w] == 0 {
			return "interceptor-skipped"
		}
	}
	if len(got) == len(want) {
		return "order"
	}
	return "log-mismatch"
}

// target is one carrier instance with its transport-level interceptors
type target struct {
	who string
	beh int
	tU  grpc.UnaryServerInterceptor
	tS  grpc.StreamServerInterceptor
	ipc *inprocgrpc.Channel
	hs  *httpgrpc.Server
	hh  http.Handler // configuration order cases: the mux that httpgrpc.HandleServices filled (instead of hs)
	reg grpc.ServiceRegistrar
}

type callResult struct {
	resp     interface{} // direct unary: the object returned
	respVal  string
	msgs     []string
	err      error
	panicked interface{}
}

var progress int64
var current atomic.Value

var baseURL, _ = url.Parse("http://example.test/")

// built is a configuration set up on the real library
type built struct {
	srv     *impl
	d0      *grpc.ServiceDesc
	snap0   string
	targets []*target
	final   *grpc.ServiceDesc // nil when the decorated description is not observable (WithInterceptor straight onto a transport)
	shared  bool
}

// build sets the configuration of c up: description, carrier(s) with transport-level interceptors, decoration.
func build(c caseT, l *clog, add func(clause, sub, what string)) *built {
	b := &built{srv: &impl{1}}
	srv := b.srv
	b.d0 = makeDesc(c, l)
	d0 := b.d0
	b.snap0 = snapshot(d0)

	var outU, inU grpc.UnaryServerInterceptor
	var outS, inS grpc.StreamServerInterceptor
	other := func(set bool) int {
		if set {
			return bPass
		}
		return bNil
	}
	if c.Kind == "unary" {
		outU, inU = mkUnary(l, "D1", c.D1, c.D1M), mkUnary(l, "D2", c.D2, c.D2M)
		outS, inS = mkStream(l, "xD1", other(c.OD1), 0), mkStream(l, "xD2", other(c.OD2), 0)
	} else {
		outS, inS = mkStream(l, "D1", c.D1, c.D1M), mkStream(l, "D2", c.D2, c.D2M)
		outU, inU = mkUnary(l, "xD1", other(c.OD1), 0), mkUnary(l, "xD2", other(c.OD2), 0)
	}

	// the carrier(s), each with its transport-level interceptors
	mkTarget := func(who string, beh int) *target {
		t := &target{who: who, beh: beh}
		if c.Kind == "unary" {
			t.tU, t.tS = mkUnary(l, who, beh, c.TM), mkStream(l, "xT", other(c.OT), 0)
		} else {
			t.tS, t.tU = mkStream(l, who, beh, c.TM), mkUnary(l, "xT", other(c.OT), 0)
		}
		switch c.Carrier {
		case "direct":
		case "inproc":
			t.ipc = &inprocgrpc.Channel{}
			if t.tU != nil {
				t.ipc.WithServerUnaryInterceptor(t.tU)
			}
			if t.tS != nil {
				t.ipc.WithServerStreamInterceptor(t.tS)
			}
			t.reg = t.ipc
		case "http":
			var opts []httpgrpc.ServerOption
			if t.tU != nil {
				opts = append(opts, httpgrpc.WithServerUnaryInterceptor(t.tU))
			}
			if t.tS != nil {
				opts = append(opts, httpgrpc.WithServerStreamInterceptor(t.tS))
			}
			t.hs = httpgrpc.NewServer(opts...)
			t.reg = t.hs
		default:
			panic("bad carrier")
		}
		return t
	}
	hm := grpchan.HandlerMap{}
	var registry grpc.ServiceRegistrar = hm // direct carrier and sharing cases decorate around a HandlerMap
	b.shared = len(c.Seq) > 0
	if !b.shared {
		t := mkTarget("T", c.T)
		b.targets = []*target{t}
		if t.reg != nil {
			registry = t.reg
		}
	} else {
		for _, s := range c.Seq {
			beh := bPass
			if s == 0 {
				beh = bNil
			}
			b.targets = append(b.targets, mkTarget(seqNames[s], beh))
		}
	}
	viaMap := c.Carrier == "direct" || b.shared

	// decoration
	if c.Form == "IS" {
		dec := d0
		if c.Depth == 2 {
			before := dec
			dec = grpchan.InterceptServer(before, inU, inS)
			if inU == nil && inS == nil && dec != before {
				add("nil-nil-not-same", "InterceptServer", "InterceptServer(desc, nil, nil) returned a different descriptor")
			}
		}
		before := dec
		dec = grpchan.InterceptServer(before, outU, outS)
		if outU == nil && outS == nil && dec != before {
			add("nil-nil-not-same", "InterceptServer", "InterceptServer(desc, nil, nil) returned a different descriptor")
		}
		b.final = dec
		registry.RegisterService(b.final, srv)
	} else {
		r := grpchan.WithInterceptor(registry, outU, outS)
		if outU == nil && outS == nil && !sameRegistrar(r, registry) {
			add("nil-nil-not-same", "WithInterceptor", "WithInterceptor(reg, nil, nil) returned a different registry")
		}
		if c.Depth == 2 {
			r2 := grpchan.WithInterceptor(r, inU, inS)
			if inU == nil && inS == nil && !sameRegistrar(r2, r) {
				add("nil-nil-not-same", "WithInterceptor", "WithInterceptor(reg, nil, nil) returned a different registry")
			}
			r = r2
		}
		r.RegisterService(d0, srv)
		if viaMap {
			var h interface{}
			b.final, h = hm.QueryService(svcName)
			if b.final == nil || h != srv {
				add("registration-lost", "", fmt.Sprintf("after RegisterService through WithInterceptor the registry has (%v, %v)", b.final, h))
				return nil
			}
		}
	}
	if b.shared {
		// contribute the ONE decorated registration to every carrier
		for _, t := range b.targets {
			if t.reg != nil {
				hm.ForEach(t.reg.RegisterService)
			}
		}
	}
	if b.final != nil && shapeOf(b.final) != shapeOf(d0) {
		add("decorated-shape", "", fmt.Sprintf("decorated descriptor is %q, original %q", shapeOf(b.final), shapeOf(d0)))
	}
	return b
}

// checkInputUntouched: the input description must be untouched, structurally and behaviourally
// (calling its handlers directly runs no interceptor).
func checkInputUntouched(b *built, l *clog, add func(clause, sub, what string)) {
	d0, srv := b.d0, b.srv
	if s := snapshot(d0); s != b.snap0 {
		add("input-desc-modified", "structure", fmt.Sprintf("input ServiceDesc changed: before %q after %q", b.snap0, s))
	}
	for i := range d0.Methods {
		name := d0.Methods[i].MethodName
		l.take()
		_, _ = d0.Methods[i].Handler(srv, context.Background(), func(m interface{}) error { m.(*wrapperspb.StringValue).Value = "req:" + name; return nil }, nil)
		es := l.take()
		if len(es) != 1 || es[0].who != "H" || es[0].method != name {
			add("input-desc-modified", "unary-handler", fmt.Sprintf("after decoration, the ORIGINAL descriptor's handler for %s logs %v (method %s)", name, whos(es), methodOf(es)))
		}
	}
	for i := range d0.Streams {
		name := d0.Streams[i].StreamName
		l.take()
		_ = d0.Streams[i].Handler(srv, &fakeStream{ctx: context.Background(), in: []*wrapperspb.StringValue{wrapperspb.String("req:" + name)}})
		es := l.take()
		if len(es) != 1 || es[0].who != "H" || es[0].method != name {
			add("input-desc-modified", "stream-handler", fmt.Sprintf("after decoration, the ORIGINAL descriptor's handler for %s logs %v (method %s)", name, whos(es), methodOf(es)))
		}
	}
}

// callSpec is one RPC as the oracle needs to know it
type callSpec struct {
	c       caseT
	carrier string
	method  string
	full    string
	cs, ss  bool // the registered stream flags
	css     bool // the client opened the stream as server-streaming
	sub     string
	relaxed bool // dead context on a transport: what the client sees and what the handler can still read is the transport's business (C04), not this property's
	sent    string
	chain   []chainEl
	srv     interface{}
}

// judge compares the event log and the result of one RPC with the reference model.
func judge(k callSpec, es []*entry, res callResult, add func(clause, sub, what string)) {
	c, sub, full, method := k.c, k.sub, k.full, k.method
	want := expect(c, k.chain, method)
	got := whos(es)
	if res.panicked != nil {
		add("panic", sub, fmt.Sprintf("call %s panicked: %v", full, res.panicked))
		return
	}
	for _, e := range es {
		if e.panicked != nil {
			add("panic", sub, fmt.Sprintf("call %s: the onward call of %s panicked: %v", full, e.who, e.panicked))
			return
		}
	}
	if cl := classifyLog(got, want.log); cl != "" {
		add(cl, sub, fmt.Sprintf("call %s: event log %v, expected %v", full, got, want.log))
		return
	}
	late := false
	for _, el := range k.chain {
		late = late || el.late
	}
	// per-event checks; es[j] is the event of k.chain[j], the handler's event comes last
	for i, e := range es {
		if e.who == "H" {
			if e.method != method {
				add("wrong-method-handler", sub, fmt.Sprintf("call %s ran the handler of %s", full, e.method))
			}
			if e.srv != k.srv {
				add("handler-srv", sub, fmt.Sprintf("call %s: handler got srv %v, registered %v", full, e.srv, k.srv))
			}
			// (a stream handler that runs after its RPC has been completed on a transport may read anything)
			if wantReq := expectedHandlerRequest(k.chain, k.sent); e.reqValue != wantReq && !k.relaxed && !(late && c.Kind == "stream" && k.carrier != "direct") {
				add("request-value", sub, fmt.Sprintf("call %s: handler read request %q, expected %q (sent %q)", full, e.reqValue, wantReq, k.sent))
			}
		} else {
			if e.fullMethod != full {
				add("full-method", e.who+","+sub, fmt.Sprintf("call %s: interceptor %s was told FullMethod %q", full, e.who, e.fullMethod))
			}
			if c.Kind == "stream" && (e.cs != k.cs || e.ss != k.ss) {
				add("stream-flags", e.who+","+sub, fmt.Sprintf("call %s (client=%v server=%v): interceptor %s was told IsClientStream=%v IsServerStream=%v", full, k.cs, k.ss, e.who, e.cs, e.ss))
			}
			if e.after && e.fullMethodAfter != full {
				add("full-method", e.who+"@return,"+sub, fmt.Sprintf("call %s: when its onward call had come back, the info given to interceptor %s said FullMethod %q", full, e.who, e.fullMethodAfter))
			}
			if e.after && c.Kind == "stream" && (e.csAfter != k.cs || e.ssAfter != k.ss) {
				add("stream-flags", e.who+"@return,"+sub, fmt.Sprintf("call %s (client=%v server=%v): when its onward call had come back, the info given to interceptor %s said IsClientStream=%v IsServerStream=%v", full, k.cs, k.ss, e.who, e.csAfter, e.ssAfter))
			}
		}
		// what the previous layer handed onward is what this layer is given
		if i > 0 {
			prev := es[i-1]
			if c.Kind == "unary" {
				if e.req != prev.reqOut {
					add("request-identity", handOff(c.Kind, k.chain, i-1, e.who)+","+sub, fmt.Sprintf("call %s: %s was given the request %s, but %s handed %s onward", full, e.who, describe(e.req), prev.who, describe(prev.reqOut)))
				}
			} else if e.stream != prev.streamOut {
				add("stream-identity", handOff(c.Kind, k.chain, i-1, e.who)+","+sub, fmt.Sprintf("call %s: %s was given the stream %s, but %s handed %s onward", full, e.who, describe(e.stream), prev.who, describe(prev.streamOut)))
			}
		}
		for j := 0; j < i && j < len(k.chain); j++ {
			if up := k.chain[j]; ctxMod(c.Kind, up) {
				if e.ctx == nil || e.ctx.Value(ctxKey{up.who}) != "ctx:"+up.who {
					add("context-passthrough", handOff(c.Kind, k.chain, j, e.who)+","+sub, fmt.Sprintf("call %s: the context given to %s lacks the value that %s put into the context it handed onward", full, e.who, up.who))
				}
			}
		}
		if e.called && i+1 < len(es) {
			nx := es[i+1]
			if e.gotResp != nx.retResp || !sameErr(e.gotErr, nx.retErr) {
				sub := sub
				if c.EK != 0 { // error identity cases: the hand-over concerned
					sub = handBack(k.chain, i+1, nx.who, e.who) + "," + sub
				}
				add("result-passthrough", sub, fmt.Sprintf("call %s: %s got (%v, %s) from calling onward but %s returned (%v, %s)", full, e.who, e.gotResp, describeErr(e.gotErr), nx.who, nx.retResp, describeErr(nx.retErr)))
			}
		}
	}
	// what the caller sees
	if k.carrier == "direct" {
		top := es[0]
		if c.Kind == "unary" && res.resp != top.retResp {
			add("caller-result", sub, fmt.Sprintf("call %s: caller got response %v, %s returned %v", full, res.resp, top.who, top.retResp))
		}
		if !sameErr(res.err, top.retErr) {
			sub := sub
			if c.EK != 0 {
				sub = handBack(k.chain, 0, top.who, "caller") + "," + sub
			}
			add("caller-result", sub, fmt.Sprintf("call %s: caller got error %s, %s returned %s", full, describeErr(res.err), top.who, describeErr(top.retErr)))
		}
		if c.Kind == "stream" && !reflect.DeepEqual(res.msgs, want.msgs) && !(len(res.msgs) == 0 && len(want.msgs) == 0) {
			add("caller-result", sub, fmt.Sprintf("call %s: messages sent %v, expected %v", full, res.msgs, want.msgs))
		}
	} else if !k.relaxed {
		st, _ := status.FromError(res.err)
		if res.err == io.EOF {
			st = status.New(codes.OK, "")
		}
		if c.Kind == "stream" && want.code == codes.OK && len(want.msgs) == 0 && !k.css {
			// a stream that ends well without any message, opened by the client as single-response: what
			// the client reports for that is the transport's business, not this property's
		} else if st.Code() != want.code || (want.code != codes.OK && st.Message() != want.msg) {
			add("client-status", sub, fmt.Sprintf("call %s: client got %v, expected code=%v msg=%q", full, res.err, want.code, want.msg))
		} else if want.code == codes.OK {
			if c.Kind == "unary" && res.respVal != want.resp {
				add("client-response", sub, fmt.Sprintf("call %s: client got response %q, expected %q", full, res.respVal, want.resp))
			}
			if c.Kind == "stream" && !reflect.DeepEqual(res.msgs, want.msgs) && !(len(res.msgs) == 0 && len(want.msgs) == 0) {
				add("client-response", sub, fmt.Sprintf("call %s: client got messages %v, expected %v", full, res.msgs, want.msgs))
			}
		} else if c.Kind == "stream" && k.css && !reflect.DeepEqual(res.msgs, want.msgs) && !(len(res.msgs) == 0 && len(want.msgs) == 0) {
			add("client-response", sub, fmt.Sprintf("call %s: client got messages %v before the error, expected %v", full, res.msgs, want.msgs))
		}
	}
}

// handOff names a hand-over for a fingerprint: the layer that handed something onward (with its behaviour) and the layer that received
func handOff(kind string, ch []chainEl, from int, to string) string {
	if from < 0 || from >= len(ch) {
		return "?>" + to
	}
	return fmt.Sprintf("%s=%s>%s", ch[from].who, behStr(kind, ch[from].beh, ch[from].mod), to)
}

// handBack names a hand-back for a fingerprint: the layer that returned (with its behaviour) and the layer that received
func handBack(ch []chainEl, from int, fromWho, to string) string {
	if from < 0 || from >= len(ch) {
		return fromWho + ">" + to // the handler
	}
	return fmt.Sprintf("%s=%s>%s", fromWho, behNames[ch[from].beh], to)
}

func describe(v interface{}) string {
	switch x := v.(type) {
	case nil:
		return "<nil>"
	case *wrapperspb.StringValue:
		return fmt.Sprintf("%q", x.GetValue())
	case *wrapStream:
		return "wrapper(" + x.who + ")"
	}
	return fmt.Sprintf("%T", v)
}

// runCase builds the configuration on the real library and calls every method of c.Kind.
func runCase(c caseT, verbose bool) (probs []problem, observed string) {
	if c.Ov != nil {
		return runOverlap(c, verbose)
	}
	if c.Vw != nil {
		return runViews(c, verbose)
	}
	if c.Cfg != nil {
		return runCfg(c, verbose)
	}
	if c.Mu != nil {
		return runMu(c, verbose)
	}
	atomic.AddInt64(&progress, 1)
	current.Store(c.String())
	add := func(clause, sub, what string) { probs = append(probs, problem{clause, sub, what}) }
	defer func() {
		if r := recover(); r != nil {
			add("panic", "", fmt.Sprintf("library code panicked: %v", r))
		}
	}()

	l := &clog{ek: c.EK}
	b := build(c, l, add)
	if b == nil {
		return
	}
	srv, final, targets, shared := b.srv, b.final, b.targets, b.shared

	// the calls
	n := c.U
	if c.Kind == "stream" {
		n = len(c.Flags)
	}
	var obs []string
	for i := 0; i < n; i++ {
		sub := fmt.Sprintf("m=%d/%d", i, n)
		var method string
		var cs, ss bool
		if c.Kind == "unary" {
			method = unaryName(i)
		} else {
			method = streamName(i)
			cs, ss = c.Flags[i]&1 != 0, c.Flags[i]&2 != 0
			sub += fmt.Sprintf(",cs=%v,ss=%v", cs, ss)
		}
		full := "/" + svcName + "/" + method
		msub := sub
		for k, t := range targets {
			sub := msub
			if shared {
				sub += fmt.Sprintf(",call=%d:%s", k, t.who)
			}
			if c.Ctx != 0 {
				sub += fmt.Sprintf(",ctx=%d", c.Ctx)
			}
			ccs, css := cs, ss // the flags the client opens the stream with
			if c.CF != 0 && c.Kind == "stream" {
				ccs, css = (c.CF-1)&1 != 0, (c.CF-1)&2 != 0
				sub += fmt.Sprintf(",client-cs=%v,client-ss=%v", ccs, css)
			}
			chain := c.chainWith(t.who, t.beh)
			ctx, cancel := context.WithCancel(context.Background())
			var done chan struct{}
			l.beforeOnward, l.onReturn = nil, nil
			switch c.Ctx {
			case 1:
				cancel()
			case 2:
				done = make(chan struct{})
				var once sync.Once
				tw := t.who
				l.beforeOnward = func(who string) {
					if who == tw {
						cancel()
					}
				}
				l.onReturn = func(who string) {
					if who == tw {
						once.Do(func() { close(done) })
					}
				}
			}
			l.take()
			res := call(c, ctx, method, full, "req:"+method, 0, ccs, css, final, srv, t)
			if done != nil && c.Carrier != "direct" {
				<-done // the server side runs in its own goroutine: wait until the outermost participant has returned
			}
			cancel()
			l.beforeOnward, l.onReturn = nil, nil
			es := l.take()
			o := fmt.Sprintf("%s"+map[bool]string{true: "@" + t.who, false: ""}[shared]+": log=%v result=(%q %v err=%v)", method, whos(es), res.respVal, res.msgs, res.err)
			if isPassthrough(c) {
				for _, e := range es {
					if e.who == "H" {
						o += fmt.Sprintf(" handler-read=%q", e.reqValue)
					}
				}
			}
			obs = append(obs, o)
			if verbose {
				fmt.Println("  " + o + fmt.Sprintf("   expected log=%v", expect(c, chain, method).log))
			}
			judge(callSpec{c: c, carrier: c.Carrier, method: method, full: full, cs: cs, ss: ss, css: css, sub: sub,
				relaxed: c.Ctx != 0 && c.Carrier != "direct", sent: "req:" + method, chain: chain, srv: srv}, es, res, add)
		}

	}

	checkInputUntouched(b, l, add)
	return probs, strings.Join(obs, "; ")
}

func methodOf(es []*entry) string {
	for _, e := range es {
		if e.who == "H" {
			return e.method
		}
	}
	return "-"
}

// call performs one RPC. rpc > 0 (overlap cases) labels it in the metadata so that stream
// interceptors and handlers can tell which RPC they are working for.
func call(c caseT, ctx context.Context, method, full, reqVal string, rpc int, cs, ss bool, final *grpc.ServiceDesc, srv interface{}, t *target) (res callResult) {
	defer func() {
		if r := recover(); r != nil {
			res.panicked = r
		}
	}()
	if rpc > 0 {
		if c.Carrier == "direct" {
			ctx = metadata.NewIncomingContext(ctx, metadata.Pairs("rpc", fmt.Sprint(rpc)))
		} else {
			ctx = metadata.AppendToOutgoingContext(ctx, "rpc", fmt.Sprint(rpc))
		}
	}
	if c.Carrier == "direct" {
		if c.Kind == "unary" {
			for i := range final.Methods {
				if final.Methods[i].MethodName == method {
					resp, err := final.Methods[i].Handler(srv, ctx, func(m interface{}) error { m.(*wrapperspb.StringValue).Value = reqVal; return nil }, t.tU)
					res.resp, res.err = resp, err
					if sv, ok := resp.(*wrapperspb.StringValue); ok && sv != nil {
						res.respVal = sv.Value
					}
					return
				}
			}
			panic("decorated descriptor lacks unary method " + method)
		}
		for i := range final.Streams {
			if final.Streams[i].StreamName == method {
				fs := &fakeStream{ctx: ctx, in: []*wrapperspb.StringValue{wrapperspb.String(reqVal)}}
				sd := &final.Streams[i]
				// what the transports do
				if t.tS != nil {
					res.err = t.tS(srv, fs, &grpc.StreamServerInfo{FullMethod: full, IsClientStream: sd.ClientStreams, IsServerStream: sd.ServerStreams}, sd.Handler)
				} else {
					res.err = sd.Handler(srv, fs)
				}
				res.msgs = fs.snapshot()
				return
			}
		}
		panic("decorated descriptor lacks stream method " + method)
	}
	var ch grpc.ClientConnInterface
	if c.Carrier == "inproc" {
		ch = t.ipc
	} else {
		var h http.Handler = t.hs
		if t.hh != nil {
			h = t.hh
		}
		ch = &httpgrpc.Channel{Transport: common.HandlerRT(h), BaseURL: baseURL}
	}
	if c.Kind == "unary" {
		var out wrapperspb.StringValue
		res.err = ch.Invoke(ctx, full, wrapperspb.String(reqVal), &out)
		res.respVal = out.Value
		return
	}
	st, err := ch.NewStream(ctx, &grpc.StreamDesc{StreamName: method, ClientStreams: cs, ServerStreams: ss}, full)
	if err != nil {
		res.err = err
		return
	}
	if err := st.SendMsg(wrapperspb.String(reqVal)); err != nil && err != io.EOF {
		res.err = fmt.Errorf("SendMsg: %w", err)
		return
	}
	st.CloseSend()
	for k := 0; k < 5; k++ {
		var out wrapperspb.StringValue
		if err := st.RecvMsg(&out); err != nil {
			res.err = err
			return
		}
		res.msgs = append(res.msgs, out.Value)
	}
	res.err = fmt.Errorf("more than 5 messages")
	return
}

// ---------------------------------------------------------------- enumeration

type shape struct {
	U     int
	Flags []int
}

func shapes(allPairsForTwo bool) []shape {
	var out []shape
	for u := 0; u <= 2; u++ {
		out = append(out, shape{u, nil})
		for f := 0; f < 4; f++ {
			out = append(out, shape{u, []int{f}})
		}
		if allPairsForTwo {
			for f := 0; f < 4; f++ {
				for g := 0; g < 4; g++ {
					out = append(out, shape{u, []int{f, g}})
				}
			}
		} else {
			out = append(out, shape{u, []int{1, 2}}, shape{u, []int{3, 0}})
		}
	}
	sort.SliceStable(out, func(i, j int) bool { return out[i].U+len(out[i].Flags) < out[j].U+len(out[j].Flags) })
	return out
}

func enumerate(tier string, fn func(caseT)) {
	maxDepth := 2
	full, reduced := shapes(true), shapes(false)
	behs := []int{bNil, bPass, bShort, bFail, bRewrite}
	bools := []bool{false, true}
	for depth := 1; depth <= maxDepth; depth++ {
		d2s, od2s := []int{bNil}, []bool{false}
		if depth == 2 {
			d2s, od2s = behs, bools
		}
		shs := full
		if depth == 2 && tier != "thorough" {
			shs = reduced // quick: nesting on 21 shapes (0-2 unary x {no stream, one stream of each flag pair, [client,server], [bidi,neither]})
		}
		for _, sh := range shs {
			for _, carrier := range []string{"direct", "inproc", "http"} {
				for _, form := range []string{"IS", "WI"} {
					for _, kind := range []string{"unary", "stream"} {
						for _, t := range behs {
							for _, d1 := range behs {
								for _, d2 := range d2s {
									for _, ot := range bools {
										for _, od1 := range bools {
											for _, od2 := range od2s {
												for _, herr := range bools {
													fn(caseT{Carrier: carrier, Form: form, U: sh.U, Flags: sh.Flags, Depth: depth, Kind: kind,
														T: t, D1: d1, D2: d2, OT: ot, OD1: od1, OD2: od2, HErr: herr})
												}
											}
										}
									}
								}
							}
						}
					}
				}
			}
		}
	}
}

// fingerprint keeps, per clause, the parameters the clause can depend on.
func fingerprint(c caseT, pr problem) string {
	if c.Vw != nil {
		// view programs: the program, how the instances were made, and the call concerned (in pr.sub); whether there are
		// transport-level interceptors, when the calls are made and which view fails only where the clause can depend on it
		v := c.Vw
		fp := fmt.Sprintf("C16|%s|%s|views[%s]|inst=%s|tr=%v|calls=%s", c.Carrier, c.Form, v.prog(), v.Inst, v.Tr, vwCallsNames[v.Calls])
		if v.Fail >= 0 {
			fp += "|failing=" + vwRegName(vwRoots+v.Fail)
		}
		return fp + "|" + pr.sub + "|" + pr.clause
	}
	if c.Cfg != nil {
		// configuration order: the call concerned in pr.sub (how the service was registered, the kind, and the history of the
		// carrier's configuration for that kind as far as it concerns the call); the rest of the program is in the replay object
		fp := fmt.Sprintf("C16|%s|%s|cfg-order[%s]", c.Carrier, c.Form, c.Cfg.Target)
		if c.Cfg.Early {
			fp += "|views-early"
		}
		return fp + "|" + pr.sub + "|" + pr.clause
	}
	if c.Mu != nil {
		return muFingerprint(c, pr)
	}
	if c.EK != 0 {
		// error identity: as below, with the kind of error that travels
		switch pr.clause {
		case "result-passthrough", "caller-result":
			// pr.sub starts with the hand-back concerned (who returned the error to whom); the rest of the chain cannot matter
			return fmt.Sprintf("C16|%s|%s|%s|depth=%d|err=%s|%s|%s", c.Carrier, c.Form, c.Kind, c.Depth, errKindNames[c.EK], pr.sub, pr.clause)
		case "client-status", "client-response", "request-value", "panic":
			return fmt.Sprintf("C16|%s|%s|%s|depth=%d|%s|herr=%v|err=%s|%s|%s", c.Carrier, c.Form, c.Kind, c.Depth, c.chainStr(), c.HErr, errKindNames[c.EK], pr.sub, pr.clause)
		}
	}
	if c.Ov != nil {
		// overlap cases: the clause, the RPC and its position among the methods (in pr.sub), who calls onward late and how, the chain
		switch pr.clause {
		case "input-desc-modified", "decorated-shape", "nil-nil-not-same", "registration-lost":
		case "result-passthrough", "caller-result", "client-status", "client-response", "request-value", "panic":
			return fmt.Sprintf("C16|%s|%s|%s|depth=%d|%s|overlap(X=%s,%s,%s)|herr=%v|%s|%s", c.Carrier, c.Form, c.Kind, c.Depth, c.chainStr(),
				c.Ov.X, ovModeNames[c.Ov.Mode], ovOrderNames[c.Ov.Order], c.HErr, pr.sub, pr.clause)
		default: // the event log, what interceptors were told, which handler ran: the handler's outcome cannot matter
			return fmt.Sprintf("C16|%s|%s|%s|depth=%d|%s|overlap(X=%s,%s,%s)|%s|%s", c.Carrier, c.Form, c.Kind, c.Depth, c.chainStr(),
				c.Ov.X, ovModeNames[c.Ov.Mode], ovOrderNames[c.Ov.Order], pr.sub, pr.clause)
		}
	}
	setPat := fmt.Sprintf("own=%v/%v/%v,other=%v/%v/%v", c.T != 0, c.D1 != 0, c.D2 != 0, c.OT, c.OD1, c.OD2)
	switch pr.clause {
	case "nil-nil-not-same":
		if c.Form == "WI" {
			return fmt.Sprintf("C16|%s|%s|nil-nil-not-same", c.Carrier, pr.sub)
		}
		return fmt.Sprintf("C16|%s|nil-nil-not-same", pr.sub)
	case "input-desc-modified", "decorated-shape":
		return fmt.Sprintf("C16|%s|%s|depth=%d|%s|%s|%s", c.Form, c.Kind, c.Depth, setPat, pr.sub, pr.clause)
	case "request-identity", "stream-identity", "context-passthrough":
		// pr.sub starts with the hand-over concerned (who handed what kind of thing onward to whom); the rest of the chain cannot matter
		return fmt.Sprintf("C16|%s|%s|%s|depth=%d|%s|%s", c.Carrier, c.Form, c.Kind, c.Depth, pr.sub, pr.clause)
	case "stream-flags", "full-method":
		return fmt.Sprintf("C16|%s|%s|%s|depth=%d|%s|%s", c.Carrier, c.Form, c.Kind, c.Depth, pr.sub, pr.clause)
	case "result-passthrough", "caller-result", "client-status", "client-response", "request-value", "panic":
		return fmt.Sprintf("C16|%s|%s|%s|depth=%d|%s|herr=%v|%s|%s", c.Carrier, c.Form, c.Kind, c.Depth, c.chainStr(), c.HErr, pr.sub, pr.clause)
	}
	// event-log clauses: the handler's outcome cannot matter
	return fmt.Sprintf("C16|%s|%s|%s|depth=%d|%s|%s|%s", c.Carrier, c.Form, c.Kind, c.Depth, c.chainStr(), pr.sub, pr.clause)
}

// enumerateShared: sharing cases (see caseT.Seq). One decorated description, several
// carriers / successive calls with transport-level interceptor sequences over {none, A, B}.
func enumerateShared(tier string, fn func(caseT)) {
	var seqs [][]int
	for n := 2; n <= 3; n++ {
		total := 1
		for i := 0; i < n; i++ {
			total *= 3
		}
		for x := 0; x < total; x++ {
			q := make([]int, n)
			y := x
			for i := n - 1; i >= 0; i-- {
				q[i] = y % 3
				y /= 3
			}
			seqs = append(seqs, q)
		}
	}
	set := []int{bPass, bShort, bFail, bRewrite}
	bools := []bool{false, true}
	for depth := 1; depth <= 2; depth++ {
		d2s := []int{bNil}
		if depth == 2 {
			d2s = set
			if tier != "thorough" {
				d2s = []int{bPass}
			}
		}
		shs := shapes(false)
		if tier != "thorough" {
			shs = []shape{{1, nil}, {0, []int{3}}, {2, []int{1, 2}}, {1, []int{3, 0}}}
		}
		for _, sh := range shs {
			for _, carrier := range []string{"direct", "inproc", "http"} {
				for _, form := range []string{"IS", "WI"} {
					for _, kind := range []string{"unary", "stream"} {
						if (kind == "unary" && sh.U == 0) || (kind == "stream" && len(sh.Flags) == 0) {
							continue
						}
						for _, seq := range seqs {
							for _, d1 := range set {
								for _, d2 := range d2s {
									for _, od1 := range bools {
										for _, herr := range bools {
											fn(caseT{Carrier: carrier, Form: form, U: sh.U, Flags: sh.Flags, Depth: depth, Kind: kind,
												D1: d1, D2: d2, OD1: od1, HErr: herr, Seq: seq})
										}
									}
								}
							}
						}
					}
				}
			}
		}
	}
}

// enumerateCtx: the context dimension. Direct carrier: context already cancelled at dispatch, or
// cancelled by the transport-level interceptor just before it calls onward; in-process channel: the
// latter only (with a context that is dead at dispatch a transport may legitimately not dispatch at
// all, and whether it will cannot be observed without timing).
func enumerateCtx(tier string, fn func(caseT)) {
	behs := []int{bNil, bPass, bShort, bFail, bRewrite}
	d2s := []int{bNil, bPass}
	shs := []shape{{1, nil}, {0, []int{3}}, {2, []int{1, 2}}}
	if tier == "thorough" {
		d2s = behs
		shs = shapes(false)
	}
	for _, sh := range shs {
		for _, cc := range []struct {
			carrier string
			ctx     int
		}{{"direct", 1}, {"direct", 2}, {"inproc", 2}} {
			ts := behs
			if cc.ctx == 2 {
				ts = []int{bPass, bRewrite}
			}
			for _, form := range []string{"IS", "WI"} {
				for _, kind := range []string{"unary", "stream"} {
					if (kind == "unary" && sh.U == 0) || (kind == "stream" && len(sh.Flags) == 0) {
						continue
					}
					for _, t := range ts {
						for _, d1 := range behs {
							for _, d2 := range d2s {
								for _, herr := range []bool{false, true} {
									depth := 1
									if d2 != bNil {
										depth = 2
									}
									fn(caseT{Carrier: cc.carrier, Form: form, U: sh.U, Flags: sh.Flags, Depth: depth, Kind: kind,
										T: t, D1: d1, D2: d2, HErr: herr, Ctx: cc.ctx})
								}
							}
						}
					}
				}
			}
		}
	}
}

// enumerateClientFlags: a (generic) client opens the stream with flags that differ from the
// registered ones; interceptors must still be told the service's flags.
func enumerateClientFlags(fn func(caseT)) {
	behs := []int{bNil, bPass, bShort, bFail, bRewrite}
	shs := []shape{{0, []int{0}}, {0, []int{1}}, {0, []int{2}}, {0, []int{3}}, {1, []int{1, 2}}}
	for _, sh := range shs {
		for _, carrier := range []string{"inproc", "http"} {
			for _, form := range []string{"IS", "WI"} {
				for cf := 1; cf <= 4; cf++ {
					differs := false
					for _, f := range sh.Flags {
						differs = differs || f != cf-1
					}
					if !differs {
						continue
					}
					for _, t := range behs {
						for _, d1 := range behs {
							for _, herr := range []bool{false, true} {
								fn(caseT{Carrier: carrier, Form: form, U: sh.U, Flags: sh.Flags, Depth: 1, Kind: "stream",
									T: t, D1: d1, HErr: herr, CF: cf})
							}
						}
					}
				}
			}
		}
	}
}

// enumeratePassthrough: the PASS-THROUGH dimension. Every interceptor on the path takes every
// behaviour of {absent (T and inner only), short-circuit, fail} + {pass, replace the response
// (stream: the error), replace the error (stream: swallow it)} x what it hands onward
// (unary: same request / modified clone x same context / derived context; stream: same
// ServerStream / wrapper with a derived context that tags every message in both directions),
// x carrier x form x handler outcome, on a few descriptor shapes. Combinations that the base
// grammar already has (nothing replaced on the way in, no error replacement) are left out.
func enumeratePassthrough(tier string, fn func(caseT)) {
	type bm struct{ b, m int }
	options := func(kind string, withNil bool) []bm {
		var out []bm
		if withNil {
			out = append(out, bm{bNil, 0})
		}
		mods := []int{0, mReq, mCtx, mReq | mCtx}
		if kind == "stream" {
			mods = []int{0, mReq}
		}
		for _, b := range []int{bPass, bRewrite, bRewriteErr} {
			for _, m := range mods {
				out = append(out, bm{b, m})
			}
		}
		return append(out, bm{bShort, 0}, bm{bFail, 0})
	}
	inBase := func(x bm) bool { return x.m == 0 && x.b != bRewriteErr }
	shs := []shape{{1, nil}, {0, []int{3}}, {2, []int{1, 2}}}
	if tier == "thorough" {
		shs = shapes(false)
	}
	for _, sh := range shs {
		for _, carrier := range []string{"direct", "inproc", "http"} {
			for _, form := range []string{"IS", "WI"} {
				for _, kind := range []string{"unary", "stream"} {
					if (kind == "unary" && sh.U == 0) || (kind == "stream" && len(sh.Flags) == 0) {
						continue
					}
					for _, t := range options(kind, true) {
						for _, d1 := range options(kind, false) {
							for _, d2 := range options(kind, true) {
								if inBase(t) && inBase(d1) && inBase(d2) {
									continue
								}
								depth := 1
								if d2.b != bNil {
									depth = 2
								}
								for _, herr := range []bool{false, true} {
									fn(caseT{Carrier: carrier, Form: form, U: sh.U, Flags: sh.Flags, Depth: depth, Kind: kind,
										T: t.b, TM: t.m, D1: d1.b, D1M: d1.m, D2: d2.b, D2M: d2.m, HErr: herr})
								}
							}
						}
					}
				}
			}
		}
	}
}

func isPassthrough(c caseT) bool {
	return c.TM != 0 || c.D1M != 0 || c.D2M != 0 || c.T == bRewriteErr || c.D1 == bRewriteErr || c.D2 == bRewriteErr
}

func main() {
	rep := vlib.NewReporter("C16")
	go func() { // hang guard
		last := int64(-1)
		for {
			time.Sleep(30 * time.Second)
			p := atomic.LoadInt64(&progress)
			if p == last {
				fmt.Fprintf(os.Stderr, "INCONCLUSIVE: no progress for 30s in case %v\n", current.Load())
				os.Exit(2)
			}
			last = p
		}
	}()

	if p := common.Arg("replay"); p != "" {
		var c caseT
		if err := common.LoadReplay(p, &c); err != nil {
			fmt.Fprintln(os.Stderr, "INCONCLUSIVE:", err)
			os.Exit(2)
		}
		fmt.Println("replay:", c.String())
		if c.Ov != nil {
			beginOverlapPhase() // one P, no garbage collection: see overlap.go
			if _, obs1 := runCase(c, false); true {
				if _, obs2 := runCase(c, false); obs1 != obs2 {
					inconclusive("two runs of the overlap case observed different things:\n  %s\n  %s", obs1, obs2)
				}
			}
		}
		probs, _ := runCase(c, true)
		for _, pr := range probs {
			fmt.Printf("  %s[%s]: %s\n", pr.clause, pr.sub, pr.what)
		}
		if len(probs) > 0 {
			fmt.Printf("VIOLATION property=C16 replay=%s\n", p)
			os.Exit(1)
		}
		os.Exit(0)
	}

	evals, calls := 0, 0
	distinct := map[string]bool{}
	var samples, ptSamples, ovSamples, vwSamples, eiSamples, cfgSamples []interface{}
	eiCases := 0
	suppressedFPs := map[string]bool{}
	const maxReported = 100
	sharedCases, ctxCases, cfCases, ptCases, ovCases, ovRuns := 0, 0, 0, 0, 0, 0
	report := func(c caseT, probs []problem) {
		for _, pr := range probs {
			fp := fingerprint(c, pr)
			if rep.Violations >= maxReported {
				suppressedFPs[fp] = true
				continue
			}
			rep.Violation(fp, pr.what+"   ["+c.String()+"]", c)
		}
	}
	visit := func(c caseT) {
		evals++
		if len(c.Seq) > 0 {
			sharedCases++
		}
		if c.Ctx != 0 {
			ctxCases++
		}
		if c.CF != 0 {
			cfCases++
		}
		pt := isPassthrough(c)
		if pt {
			ptCases++
		}
		if c.EK != 0 {
			eiCases++
		}
		probs, obs := runCase(c, false)
		n := c.U
		if c.Kind == "stream" {
			n = len(c.Flags)
		}
		if len(c.Seq) > 0 {
			n *= len(c.Seq)
		}
		calls += n
		if n > 0 && len(c.chain()) > 0 {
			distinct[c.String()] = true
		}
		if c.EK != 0 && len(eiSamples) < 4 && c.Carrier != "direct" && len(c.chain()) >= 2 && c.HErr && c.T == bPass && c.D1 == bPass && (c.D2 == bNil || c.D2 == bPass) && eiCases%53 == 0 {
			eiSamples = append(eiSamples, map[string]interface{}{"case": c, "observed": obs})
		}
		if len(samples) < 8 && n > 0 && len(c.chain()) >= 2 && evals%7919 == 0 {
			samples = append(samples, map[string]interface{}{"case": c, "observed": obs})
		}
		if pt && len(ptSamples) < 4 && onwardBeh(c.T) && onwardBeh(c.D1) && onwardBeh(c.D2) && c.TM != 0 && c.D1M != 0 && ptCases%997 == 0 {
			ptSamples = append(ptSamples, map[string]interface{}{"case": c, "observed": obs})
		}
		report(c, probs)
	}
	enumerate(rep.Tier, visit)
	enumerateShared(rep.Tier, visit)
	enumerateCtx(rep.Tier, visit)
	enumerateClientFlags(visit)
	enumeratePassthrough(rep.Tier, visit)

	// the error identity cases (errident.go)
	eiOK, eiWhat := errIdentSelfTest()
	if !eiOK {
		inconclusive("the error kinds of the error identity cases are not what the oracle needs: %s", eiWhat)
	}
	enumerateErrIdent(rep.Tier, visit)

	// the onward multiplicity cases (multiplicity.go)
	muOK, muWhat := muReference(rep.Tier)
	if !muOK {
		inconclusive("the model of repeated onward calls is not what grpc-go's chained server interceptors do: %s", muWhat)
	}
	muCases := 0
	var muSamples []interface{}
	enumerateMu(rep.Tier, func(c caseT) {
		evals++
		muCases++
		before, beforeM := atomic.LoadInt64(&muCallCount), atomic.LoadInt64(&muMultiObserved)
		probs, obs := runCase(c, false)
		calls += int(atomic.LoadInt64(&muCallCount) - before)
		if atomic.LoadInt64(&muMultiObserved) > beforeM {
			distinct[c.String()] = true
		}
		if len(muSamples) < 4 && c.Carrier != "direct" && c.Mu.N[0] >= 2 && onwardBeh(c.D1) && onwardBeh(c.D2) && c.Mu.Fresh && muCases%401 == 0 {
			muSamples = append(muSamples, map[string]interface{}{"case": c, "observed": obs})
		}
		report(c, probs)
	})

	// the configuration order cases (cfgorder.go)
	cfgCases, cfgReconfigured := 0, 0
	cfgProgs := enumerateCfg(rep.Tier, func(c caseT) {
		evals++
		cfgCases++
		if c.Cfg.reconfigured() {
			cfgReconfigured++
		}
		before, beforeI := atomic.LoadInt64(&cfgCallCount), atomic.LoadInt64(&cfgIntercepted)
		probs, obs := runCase(c, false)
		calls += int(atomic.LoadInt64(&cfgCallCount) - before)
		if atomic.LoadInt64(&cfgIntercepted) > beforeI {
			distinct[c.String()] = true
		}
		if len(cfgSamples) < 4 && len(c.Cfg.Steps) == 3 && c.Cfg.Steps[0].Op == "RD" && c.Cfg.reconfigured() && cfgCases%211 == 0 {
			cfgSamples = append(cfgSamples, map[string]interface{}{"case": c, "program": c.Cfg.prog(), "observed": obs})
		}
		report(c, probs)
	})

	// the view programs (views.go)
	calOK, calWhat := instanceCalibration()
	if !calOK {
		inconclusive("the ways of making interceptor instances do not give what the view programs need in this build: %s", calWhat)
	}
	vwCases := 0
	vwPrograms := enumerateViews(rep.Tier, func(c caseT) {
		evals++
		vwCases++
		before, beforeI := atomic.LoadInt64(&vwCallCount), atomic.LoadInt64(&vwIntercepted)
		probs, obs := runCase(c, false)
		calls += int(atomic.LoadInt64(&vwCallCount) - before)
		if atomic.LoadInt64(&vwIntercepted) > beforeI {
			distinct[c.String()] = true
		}
		if len(vwSamples) < 4 && len(c.Vw.Views) == 2 && len(c.Vw.Ops) == 4 && c.Vw.Ops[3].Derive < 0 && c.Vw.Ops[3].Via != c.Vw.Ops[2].Via && vwCases%30011 == 0 {
			vwSamples = append(vwSamples, map[string]interface{}{"case": c, "program": c.Vw.prog(), "observed": obs})
		}
		report(c, probs)
	})

	// the overlap phase: one P and no garbage collection while RPCs are in flight, every case run twice
	ph := beginOverlapPhase()
	const calRounds = 1000
	cal := poolCalibration(calRounds)
	if cal != calRounds {
		inconclusive("sync.Pool handed back the object put last in only %d of %d rounds with GOMAXPROCS(1) and the collector off: reuse of recycled per-call state by an overlapping RPC would not be deterministic", cal, calRounds)
	}
	ovHeld, ovRepeatDiffer := 0, 0
	enumerateOverlap(rep.Tier, func(c caseT) {
		evals++
		ovCases++
		before := atomic.LoadInt64(&ovGateReached)
		probs, obs := runCase(c, false)
		held := atomic.LoadInt64(&ovGateReached) > before
		probs2, obs2 := runCase(c, false)
		ovRuns += 2
		ph.tick()
		if obs != obs2 || len(probs) != len(probs2) {
			// the oracle never alarms on a correct run, so a violation seen in either run is a violation; but the case was not deterministic
			ovRepeatDiffer++
			if len(probs)+len(probs2) == 0 {
				inconclusive("two runs of %s observed different things:\n  %s\n  %s", c.String(), obs, obs2)
			}
			fmt.Printf("NOTE: two runs of %s observed different things:\n  %s\n  %s\n", c.String(), obs, obs2)
			report(c, probs2)
		}
		calls += 4
		if held {
			ovHeld++
			distinct[c.String()] = true
		}
		if len(ovSamples) < 4 && held && c.Ov.M1 != c.Ov.M2 && len(c.chain()) >= 2 && ovCases%1699 == 0 {
			ovSamples = append(ovSamples, map[string]interface{}{"case": c, "observed": obs})
		}
		report(c, probs)
	})
	ph.end()

	suppressed := len(suppressedFPs)
	if suppressed > 0 {
		fmt.Printf("(%d further distinct fingerprints not reported individually after the first %d)\n", suppressed, maxReported)
	}
	os.Exit(rep.Finish("exploration", map[string]interface{}{
		"evaluations":               evals,
		"sharing_cases":             sharedCases,
		"context_cases":             ctxCases,
		"client_flag_cases":         cfCases,
		"passthrough_cases":         ptCases,
		"error_identity_cases":      eiCases,
		"error_identity_self_test":  eiWhat,
		"onward_multiplicity_cases": muCases,
		"onward_multiplicity_calls": atomic.LoadInt64(&muCallCount),
		"onward_multiplicity_calls_with_an_interceptor_that_called_onward_more_than_once": atomic.LoadInt64(&muMultiObserved),
		"onward_multiplicity_reference":                            muWhat,
		"config_order_programs":                                    cfgProgs,
		"config_order_cases":                                       cfgCases,
		"config_order_cases_reconfigured_after_a_registration":     cfgReconfigured,
		"config_order_calls":                                       atomic.LoadInt64(&cfgCallCount),
		"config_order_calls_in_force_differs_from_at_registration": atomic.LoadInt64(&cfgMoved),
		"overlap_cases":                                            ovCases,
		"view_programs":                                            vwPrograms,
		"view_program_cases":                                       vwCases,
		"view_program_calls":                                       atomic.LoadInt64(&vwCallCount),
		"instance_calibration":                                     calWhat,
		"overlap_runs":                                             ovRuns,
		"overlap_cases_rpc1_held_at_gate":                          ovHeld,
		"overlap_repeat_identical":                                 ovRepeatDiffer == 0,
		"pool_reuse_calibration":                                   fmt.Sprintf("%d/%d", cal, calRounds),
		"rpc_calls":                                                calls,
		"distinct_nontrivial":                                      len(distinct),
		"rule":                                                     "every configuration of: descriptor shape (0-2 unary x 0-2 streams with every flag pair) x carrier (direct call of the decorated descriptor / inprocgrpc.Channel / httpgrpc.Server via HandlerRT) x form (InterceptServer / WithInterceptor) x depth x kind called x behaviour {nil,pass,short-circuit,fail,rewrite} of the transport-level, outer and inner interceptor of that kind x nil/set of each interceptor of the other kind x handler ok/error; every method of the kind is called. Behaviours of other-kind interceptors are not varied because the oracle demands they are never invoked. In addition the SHARING cases: one decorated description (InterceptServer) or decorated HandlerMap (WithInterceptor), outer decoration behaviour {pass,short,fail,rewrite} x inner {none; quick: pass; thorough: all four} on 4 (quick) / 21 (thorough) shapes, is contributed through HandlerMap.ForEach/RegisterService to 2 or 3 in-process channels / HTTP servers, or its handler is called directly 2 or 3 times, with every sequence over {no transport interceptor, A, B} of length 2 and 3; every method of the kind is called on every carrier in turn, same oracle per call. CONTEXT cases: the RPC's context is already cancelled at dispatch (direct carrier) or is cancelled by the transport-level interceptor just before it calls onward (direct carrier and in-process channel, waiting for the server side to finish), all behaviours of T/outer/inner, same oracle on the event log and on identities (on the in-process channel the client-visible result is not judged in these cases). CLIENT-FLAG cases: on the in-process channel and the HTTP server the client opens the stream with a StreamDesc whose flags differ from the registered ones; interceptors must be told the registered flags. PASS-THROUGH cases (swept around the base grammar on 3 (quick) / 21 (thorough) descriptor shapes, other-kind interceptors absent): transport-level {absent or set} x outer {set} x inner {absent or set} interceptor, each set one taking every behaviour of {short-circuit, fail} + {pass, replace the response (stream: the error), replace the error (unary: (nil, Aborted) whatever came back; stream: swallow it)} x what it hands onward (unary: the request received / a modified clone of it x the context received / a derived context carrying a value; stream: the ServerStream received / a wrapper with a derived context that suffixes every message in both directions), x carrier x form x handler ok/error, minus the combinations the base grammar has; the oracle demands that each layer (next interceptor, then handler) is given exactly the request / stream object the previous layer handed onward, sees the context values of every layer before it, that each layer gets back exactly what the next one returned, that the handler reads the value with the suffixes of all replacing layers in order, and that the caller / client sees the model's result. OVERLAP cases (2 (quick) / 5 (thorough) descriptor shapes): two RPCs on ONE decorated carrier; one interceptor X on the path (transport-level, outer or inner in turn; layers before X pass or rewrite or are absent, layers after X take every behaviour) makes its single onward call late: inline after a gate opens / from another goroutine that waits for the gate while X waits for it / from another goroutine after X has returned DeadlineExceeded itself; RPC 1 is held at X's gate (in the last mode: has completed for its caller), then RPC 2 to every method of the kind (the same one included) runs ungated to completion, or is held the same way and the gates are opened 2-then-1 or 1-then-2; x carrier x form x handler ok/error. All waiting is on channels. The oracle is the statement per RPC (events are attributed to an RPC by the request value / stream metadata the event was given): each interceptor once, told that RPC's FullMethod and flags, handler iff every interceptor called onward, the handler of that RPC's method, results passed through; an onward-calling interceptor that has not returned yet reads the info object it was given a second time when its onward call has come back (as logging interceptors do), and it must still say the same. The overlap phase runs with GOMAXPROCS(1) and garbage collection only between cases, so that a sync.Pool hands back what was put last (calibrated: pool_reuse_calibration) and reuse of recycled per-call state by the other RPC happens every time; every overlap case is run twice and both runs must observe the same (overlap_repeat_identical; a difference is printed, and aborts the run as inconclusive unless one of the two runs violated the statement, which is then reported). VIEW PROGRAMS (views.go; view_programs / view_program_cases / view_program_calls): two root registries R0, R1 of the carrier type (HandlerMap whose decorated handlers are called directly / inprocgrpc.Channel / httpgrpc.Server), each behind a registrar that records what arrives, each with transport-level interceptor instances of its own or none; a program is any sequence of V derivations 'view = WithInterceptor(parent, u?, s?)' (parent: any registry that exists at that point, root or earlier view; (u?,s?) in {(u,-),(-,s),(u,s)}; every view has interceptor instances of its own) and R registrations 'description X/Y/Z (one unary and one stream method each; X bidi, Y server-, Z client-streaming), or the decorated description that an earlier registration put onto the other root, with a server object of its own, through any registry that exists at that point', in every interleaving (views that are derived and never registered through included; one description pointer may be registered on both roots; programs equal up to renaming of views / descriptions / roots are enumerated once). Sizes (V,R): quick (1,1) (1,2) (2,1) crossed, (2,2) swept, (3,1) at the base point; thorough (1,1) (1,2) (2,1) (2,2) crossed, (1,3) (3,1) swept, (2,3) at the base point with every way of making instances, (3,2) at the base point. Crossed = program x carrier x form (WithInterceptor objects / InterceptServer applied by hand along the path of views) x way of making the interceptor instances {closures returned by one factory function (distinct values, one code pointer) / method values of one receiver object per view (distinct values, one code pointer) / a function literal of its own per instance (distinct code) / the very same pair of function values for all views} x transport-level interceptors {none, on both roots} x when the calls are made {after the program in registration order / in reverse order / after every single operation, everything registered so far} x which view's interceptors fail instead of calling onward {none, each view in turn}; swept = the base point (closures, transport-level interceptors, calls at the end, nothing fails) and every point differing from it in one of these four dimensions. Every call is one unary and one stream RPC per registered service; oracle = the per-instance event log (transport-level interceptor of that root, then the interceptor of the kind of every view on the path from the root to the registry registered through, root-most first, then those the re-registered decoration result already had, each once, then the handler with that registration's server object, and nothing else) plus everything demanded of a single call above, plus the input descriptions unmodified. The four ways of making instances are calibrated at start-up (instance_calibration: code pointers equal / different as intended, every instance logs as itself), otherwise the run is inconclusive. ERROR IDENTITY cases (errident.go; error_identity_cases; swept around the base grammar on 3 descriptor shapes, other-kind interceptors absent): the error that travels up the chain is a plain Go error of each of 9 kinds {sentinel made with errors.New (one value per participant), that sentinel wrapped with fmt.Errorf %w, io.EOF, context.Canceled, context.DeadlineExceeded, a custom pointer type with Unwrap, a custom comparable value type, a *status.Error wrapped with fmt.Errorf %w, a custom type with a GRPCStatus method}, made by the handler (handler fails) or by the interceptor of any layer (fail-raw: returned instead of calling onward; rewrite-raw: returned in place of whatever came back) x carrier x form x unary / stream x transport-level {absent, pass, fail-raw, rewrite-raw} x outer {pass, fail-raw, rewrite-raw} x inner {absent, pass, fail-raw, rewrite-raw} x handler ok / fails (thorough: every layer additionally short-circuit, fail, rewrite, rewrite-err on the 3 shapes, and the small behaviour set on the other 18 shapes); only configurations in which the model makes a plain error on the way are run (the rest is in the base grammar). Oracle: every layer records the exact error value its onward call returned, and that must be the very value the next layer returned (same dynamic type and same pointer / equal comparable value; errors.Is and type assertions follow from that), on every hand-back handler -> inner -> outer -> transport-level interceptor, resp. -> the direct caller of the decorated handler; the client of a transport must see the code and message that grpc-go's server gives such an error (status.FromError, else status.FromContextError). The notion of identity is self-tested at start-up (error_identity_self_test). CONFIGURATION ORDER cases (cfgorder.go; config_order_programs / _cases / _calls): a carrier with transport-level interceptors as ONE long-lived object and every program of 1..3 (quick) / 1..4 (thorough) steps over {R: register a new service as it is; RD: register a new service decorated with interceptors of its own (form WI: through a WithInterceptor view derived right there, or with all views derived before the first step; form IS: InterceptServer by hand); X/K: configure transport-level interceptor X in {T1, T2, none} for K in {unary, stream, both}} that makes at least one call, with one unary and one stream RPC to every service registered so far after EVERY step, on 3 targets: inproc (one inprocgrpc.Channel, X/K = WithServerUnaryInterceptor / WithServerStreamInterceptor at any point, nil clears), httpsrv (one httpgrpc.Server, X/K = options in that order in NewServer's list, hence before the registrations), httpmux (one HandlerMap + one long-lived mux that is a map from pattern to handler, X/K = httpgrpc.HandleServices(mux, '/', map, u, s) with X for the kinds in K and nil for the others, re-registering a pattern replaces its handler; only services covered by a HandleServices call are called). Oracle per call: the transport-level interceptor of the call's kind in force WHEN THE CALL IS MADE (inproc: configured last; httpsrv: last option of the kind; httpmux: the arguments of the latest HandleServices that covered the service) first, then the service's own decoration, each exactly once, then that service's handler with its server object, plus everything demanded of a single call above; input descriptions unmodified. config_order_cases_reconfigured_after_a_registration counts programs with a configuration step after a registration; config_order_calls_in_force_differs_from_at_registration (measured) counts calls for which the interceptor in force differs from the one in force when the service was registered. ONWARD MULTIPLICITY cases (multiplicity.go; onward_multiplicity_cases / _calls): how many times an interceptor calls onward within one RPC, one call after the other (a server-side retry); everywhere else at most once. Transport-level {absent, short-circuit, fail, pass x n, rewrite x n} x outer decoration {short-circuit, fail, pass x n, rewrite x n} x inner decoration {absent, short-circuit, fail, pass x n, rewrite x n}, n = the number of onward calls the interceptor makes in every invocation (quick 1..2, thorough 1..3; it returns according to the result of the last one), restricted to the chains in which an interceptor with n >= 2 is reached, x what every onward call hands on {what the interceptor received | a fresh clone of the request tagged with layer and number of the onward call and a context derived for that call; stream: a fresh wrapper with such a context that tags every message in both directions} x handler {succeeds on every run, fails on every run, fails on its first run in the RPC and succeeds afterwards; varied where the handler is reached} x carrier x form x unary / stream on 3 (thorough 5) descriptor shapes, other-kind interceptors absent. Oracle: EVERY onward call of a layer leads to exactly one invocation of the next layer, and of the handler after the last one (event log = the depth-first unfolding of the chain; the events logged while an onward call runs are exactly that call's subtree); the next layer is given the very request / ServerStream that onward call handed on and a context with the values of every onward call above it; the onward call returns the very response and error the next layer returned; every invocation is told the right FullMethod and flags; the handler is the method's own, with the registered server object, and reads the request with the tags of the onward calls above it (stream: its first run; later runs find the end of the stream); the direct caller gets what the outermost participant returned and, for streams, exactly the model's messages; the client of a transport gets the model's status and response for unary RPCs (for streams what a client makes of a handler that ran several times on one stream is not judged; the check waits on a channel until the outermost participant has returned). The model's event log and client-visible result are compared at start-up with a real grpc-go server over bufconn whose interceptors are chained with grpc.ChainUnaryInterceptor / grpc.ChainStreamInterceptor, for every chain x handed-on x handler outcome of the tier's grammar (onward_multiplicity_reference); a disagreement makes the run inconclusive. A configuration is non-trivial when at least one method is called and at least one interceptor is on its path (onward multiplicity: when in at least one call an interceptor really made two or more onward calls, measured; error identity: and a plain error is made on the way; configuration order: when at least one call had an interceptor on its path, measured; overlap: when RPC 1 really was held at X's gate, measured; view programs: when at least one call had an interceptor on its path, measured); distinct by all parameters.",
		"samples":                                                  append(append(append(append(append(append(samples, ptSamples...), ovSamples...), vwSamples...), eiSamples...), cfgSamples...), muSamples...),
		"exhaustive":                                               true,
		"suppressed_reports":                                       suppressed,
	}, []string{
		"original descriptors follow the contract of generated code (decode, then run the interceptor argument around the application method)",
		"a panic in a server goroutine of the in-process channel would abort the checker (exit 2) instead of being reported",
		"quick = nesting depth 1 on all 63 descriptor shapes + depth 2 on 21 shapes (0-2 unary x {no stream, one stream of each flag pair, [client-only, server-only], [bidi, neither]}); thorough = depths 1 and 2 on all 63 shapes",
		"the pass-through and overlap dimensions are swept around base cases on a few descriptor shapes with the other-kind interceptors absent, not crossed with the sharing / context / client-flag dimensions nor with each other",
		"the error identity and configuration order dimensions are swept around base cases (error identity: 3 (thorough 21) descriptor shapes, other-kind interceptors absent, requests / contexts / streams handed onward as received; configuration order: services with one unary and one stream method, all interceptors call onward, handlers succeed), not crossed with the sharing / context / client-flag / pass-through / overlap / view-program dimensions nor with each other",
		"configuration order: reconfiguring an in-process channel between RPCs (never while one is in flight) is taken to be legitimate use, and 'the transport-supplied interceptor' of an RPC is taken to be the one the carrier is configured with when the RPC is dispatched, which is what the unchanged library does; on httpgrpc.Server the options can only be given at construction, so only their order is varied there; the order in which several options of one kind apply (last wins) is taken from the unchanged library",
		"onward multiplicity: swept around base cases (3 (thorough 5) descriptor shapes, other-kind interceptors absent, status errors, live contexts, registered client flags), not crossed with the other swept dimensions; the onward calls of one invocation are made one after the other on the interceptor's own goroutine before it returns (onward calls from other goroutines / after returning are the overlap cases), every invocation of an interceptor makes the same number; 'each applicable interceptor exactly once' is read per onward call made to it, as grpc-go's chained server interceptors behave",
		"error identity: identity is interface equality of comparable error values (pointer identity for pointer types); errors of non-comparable dynamic types are not in the grammar",
		"view programs: descriptor shapes, behaviours other than pass / fail, handler errors, contexts and client flags are not varied (the other parts of the grammar do that); views with no interceptor at all are left out because WithInterceptor(reg, nil, nil) is checked to return reg itself; the larger program sizes are swept around / run at one base point instead of crossed (see rule); when the very same function value is given to two nested views the oracle expects it to run once per view, which is what nesting means and what the unchanged library does",
		"overlap cases: determinism of what a late onward call finds rests on GOMAXPROCS(1) + no collection while RPCs are in flight (sync.Pool then returns the object put last; calibrated at the start of the phase) and is verified by running each case twice with identical observations; in the go-late mode on a transport the messages a stream handler reads or sends after its RPC was completed are not judged, only the event log, what interceptors were told and the handler's identity",
	}))
}
