// C16, ERROR IDENTITY cases: "requests, responses and errors pass through unchanged" for errors that are
// not made by the status package.
//
// The base grammar's failing handlers and interceptors return *status.Error values. Here the error that
// travels up the chain is a plain Go error of every kind in errKindNames: a sentinel (errors.New), a
// sentinel wrapped with fmt.Errorf("%w"), io.EOF, context.Canceled, context.DeadlineExceeded, a custom
// pointer type with Unwrap, a custom comparable value type, a *status.Error wrapped with fmt.Errorf("%w"),
// and a custom type that carries a status of its own (GRPCStatus method). It is made by the handler or by an
// interceptor at any layer (fail-raw: instead of calling onward; rewrite-raw: in place of what came back),
// and every layer above records the exact error value its onward call returned. The oracle (judge in
// main.go) demands that this is the very value the next layer returned (interface identity: same dynamic
// type and same pointer / equal comparable value), on every hand-over: handler -> inner decoration ->
// outer decoration -> transport-level interceptor (or the direct caller), and that the client of a
// transport sees the code and message that grpc-go gives such an error (status.FromError, else
// status.FromContextError).
package main

import (
	"context"
	"errors"
	"fmt"
	"io"
	"reflect"
	"sync"

	"google.golang.org/grpc/codes"
	"google.golang.org/grpc/status"
)

const (
	ekNone = iota
	ekSentinel
	ekWrapped
	ekEOF
	ekCanceled
	ekDeadline
	ekCustomPtr
	ekCustomVal
	ekWrappedStatus
	ekOwnStatus
	ekCount
)

var errKindNames = []string{"status", "sentinel", "wrapped-sentinel", "io.EOF", "context.Canceled", "context.DeadlineExceeded",
	"custom-pointer-type", "custom-value-type", "wrapped-status", "custom-type-with-GRPCStatus"}

// opError: what applications wrap their failures in
type opError struct {
	op  string
	err error
}

func (e *opError) Error() string { return e.op + ": " + e.err.Error() }
func (e *opError) Unwrap() error { return e.err }

// codeError: a comparable value type
type codeError struct {
	who string
	n   int
}

func (e codeError) Error() string { return fmt.Sprintf("domain error %d of %s", e.n, e.who) }

// ownStatusError carries a gRPC status of its own, as the errors of some frameworks do
type ownStatusError struct {
	who string
}

func (e *ownStatusError) Error() string { return "own status of " + e.who }
func (e *ownStatusError) GRPCStatus() *status.Status {
	return status.New(codes.FailedPrecondition, "own status of "+e.who)
}

var (
	sentinelMu sync.Mutex
	sentinels  = map[string]error{}
)

// sentinelOf: the one sentinel value of <who> (distinct per participant, so that a layer handing back
// another participant's sentinel in place of the one it was given is told apart)
func sentinelOf(who string) error {
	sentinelMu.Lock()
	defer sentinelMu.Unlock()
	if e, ok := sentinels[who]; ok {
		return e
	}
	e := errors.New("no such thing (" + who + ")")
	sentinels[who] = e
	return e
}

// rawErr makes the error of the given kind that participant <who> returns
func rawErr(kind int, who string) error {
	switch kind {
	case ekSentinel:
		return sentinelOf(who)
	case ekWrapped:
		return fmt.Errorf("lookup by %s: %w", who, sentinelOf(who))
	case ekEOF:
		return io.EOF
	case ekCanceled:
		return context.Canceled
	case ekDeadline:
		return context.DeadlineExceeded
	case ekCustomPtr:
		return &opError{op: "lookup by " + who, err: sentinelOf(who)}
	case ekCustomVal:
		return codeError{who: who, n: 7}
	case ekWrappedStatus:
		return fmt.Errorf("lookup by %s: %w", who, status.Error(codes.AlreadyExists, "inner of "+who))
	case ekOwnStatus:
		return &ownStatusError{who: who}
	}
	panic(fmt.Sprintf("rawErr: bad kind %d", kind))
}

// refStatus: the code and message that grpc-go's server gives a handler's final error
// (server.go processUnaryRPC / processStreamingRPC: status.FromError, else status.FromContextError)
func refStatus(err error) (codes.Code, string) {
	if err == nil {
		return codes.OK, ""
	}
	if st, ok := status.FromError(err); ok {
		return st.Code(), st.Message()
	}
	st := status.FromContextError(err)
	return st.Code(), st.Message()
}

// sameErr: the very same error value (same dynamic type, and same pointer / equal comparable value)
func sameErr(a, b error) bool {
	if a == nil || b == nil {
		return a == nil && b == nil
	}
	ta, tb := reflect.TypeOf(a), reflect.TypeOf(b)
	if ta != tb {
		return false
	}
	if ta.Comparable() {
		return a == b
	}
	return reflect.DeepEqual(a, b)
}

func describeErr(err error) string {
	if err == nil {
		return "<nil>"
	}
	return fmt.Sprintf("%T{%v}", err, err)
}

// errIdentSelfTest: the oracle's notion of identity tells apart what it must tell apart
func errIdentSelfTest() (ok bool, what string) {
	for k := 1; k < ekCount; k++ {
		a := rawErr(k, "H")
		if !sameErr(a, a) {
			return false, "an error of kind " + errKindNames[k] + " is not the same as itself"
		}
		code, msg := refStatus(a)
		replaced := status.Error(code, msg) // what a layer that normalises the error would hand up
		if sameErr(a, replaced) {
			return false, "an error of kind " + errKindNames[k] + " is not told apart from a status made from it"
		}
		if (k == ekSentinel || k == ekWrapped || k == ekCustomPtr) && !errors.Is(a, sentinelOf("H")) {
			return false, "an error of kind " + errKindNames[k] + " does not wrap its sentinel"
		}
		other := rawErr(k, "D1")
		if k != ekEOF && k != ekCanceled && k != ekDeadline && sameErr(a, other) {
			return false, "errors of kind " + errKindNames[k] + " of two participants are not told apart"
		}
	}
	return true, fmt.Sprintf("%d kinds: each is itself, differs from a status made from it and (except the package-level io/context values) from the same kind made by another participant", ekCount-1)
}

// enumerateErrIdent: swept around the base grammar on a few descriptor shapes with the other-kind
// interceptors absent: carrier x form x kind called x error kind x behaviour of the transport-level /
// outer / inner interceptor x handler ok / fails with an error of the kind. Only configurations in which
// a plain error is made on the way (by the model) are run; the others are in the base grammar.
//
// quick: behaviours {absent (transport-level, inner), pass, fail-raw, rewrite-raw} on 3 shapes;
// thorough: that on 21 shapes, plus {absent, pass, short, fail, rewrite, rewrite-err, fail-raw, rewrite-raw} on the 3 shapes.
func enumerateErrIdent(tier string, fn func(caseT)) {
	small := []int{bPass, bFailRaw, bRewriteRaw}
	all := []int{bPass, bShort, bFail, bRewrite, bRewriteErr, bFailRaw, bRewriteRaw}
	base := []shape{{1, nil}, {0, []int{3}}, {2, []int{1, 2}}}
	type part struct {
		shs  []shape
		behs []int
	}
	parts := []part{{shs: base, behs: small}}
	if tier == "thorough" {
		var rest []shape
		for _, sh := range shapes(false) {
			dup := false
			for _, b := range base {
				dup = dup || (b.U == sh.U && reflect.DeepEqual(b.Flags, sh.Flags))
			}
			if !dup {
				rest = append(rest, sh)
			}
		}
		parts = []part{{shs: base, behs: all}, {shs: rest, behs: small}}
	}
	for _, p := range parts {
		for _, sh := range p.shs {
			for _, carrier := range []string{"direct", "inproc", "http"} {
				for _, form := range []string{"IS", "WI"} {
					for _, kind := range []string{"unary", "stream"} {
						if (kind == "unary" && sh.U == 0) || (kind == "stream" && len(sh.Flags) == 0) {
							continue
						}
						for ek := 1; ek < ekCount; ek++ {
							for _, t := range append([]int{bNil}, p.behs...) {
								for _, d1 := range p.behs {
									for _, d2 := range append([]int{bNil}, p.behs...) {
										depth := 1
										if d2 != bNil {
											depth = 2
										}
										for _, herr := range []bool{false, true} {
											c := caseT{Carrier: carrier, Form: form, U: sh.U, Flags: sh.Flags, Depth: depth, Kind: kind,
												T: t, D1: d1, D2: d2, HErr: herr, EK: ek}
											if expect(c, c.chain(), "m").raw == "" {
												continue // no plain error is made on the way: the base grammar has this configuration
											}
											fn(c)
										}
									}
								}
							}
						}
					}
				}
			}
		}
	}
}
