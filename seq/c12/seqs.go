// The server-option and the registration-sequence dimensions of C12.
//
// 1. Server options. The grammar of main.go built every HTTP server with the
// base path as its only option. Two more options are dimensions here:
//
//   - the ErrorRenderer handler option (httpgrpc.NewServer's option form and
//     HandleServices' option form): none / httpgrpc.DefaultErrorRenderer passed
//     explicitly / a renderer that writes nothing / one that answers every
//     failure 200 with a JSON body / one that answers every failure with its own
//     4xx and a body. The gRPC status of a failure is the library's business (it
//     travels in a header the library sets itself); a renderer only decorates the
//     HTTP reply. The oracle is unchanged: an unknown or malformed name gives a
//     *status* error with the stated code and runs no handler, whatever the
//     renderer; a registered name runs its handler and succeeds.
//   - the server interceptor options (decoration "option": inprocgrpc's
//     WithServer*Interceptor, httpgrpc.WithServer*Interceptor, HandleServices'
//     interceptor arguments) next to grpchan.WithInterceptor of descs.go, with
//     the same added oracle (the interceptor runs exactly when the handler does).
//
// 2. Registration is not a one-off prelude. main.go registered every service
// before the first call and used the instance for calls only. Here a case is
// (history, call): the history is a sequence of registrations (services of the
// richest registry D, each at most once) and earlier calls on ONE long-lived
// in-process channel / httpgrpc.Server / ServeMux filled through HandleServices
// (once per registration, each with a HandlerMap of its own); every
// interleaving of up to maxRegs registrations and maxCalls calls over a call
// alphabet derived from D is enumerated. The oracle is the one of main.go with
// the set registered AT THE MOMENT of the call.
package main

import (
	"context"
	"fmt"
	"net/http"
	"strings"
	"sync/atomic"

	"google.golang.org/grpc/codes"
	"google.golang.org/grpc/status"

	"github.com/fullstorydev/grpchan/httpgrpc"
)

// ---- server options: the ErrorRenderer -------------------------------------

// renderers lists the values of the ErrorRenderer option ("" = no option).
var renderers = []string{"default", "noop", "ok-body", "own-4xx"}

func (cfg *config) rendererFn(name string) func(context.Context, *status.Status, http.ResponseWriter) {
	count := func() { atomic.AddInt64(&cfg.rendered, 1) }
	switch name {
	case "default": // the option is set, to what the library uses without it
		return func(ctx context.Context, st *status.Status, w http.ResponseWriter) {
			count()
			httpgrpc.DefaultErrorRenderer(ctx, st, w)
		}
	case "noop": // writes nothing (as the renderer of the library's own test server)
		return func(context.Context, *status.Status, http.ResponseWriter) { count() }
	case "ok-body": // one HTTP status for all failures, the details in a JSON body
		return func(_ context.Context, st *status.Status, w http.ResponseWriter) {
			count()
			w.Header().Set("Content-Type", "application/json")
			w.WriteHeader(http.StatusOK)
			fmt.Fprintf(w, `{"error":%q}`, st.Code().String())
		}
	case "own-4xx": // its own mapping: every failure is a 422 with a body
		return func(_ context.Context, st *status.Status, w http.ResponseWriter) {
			count()
			w.Header().Set("Content-Type", "text/plain")
			w.WriteHeader(http.StatusUnprocessableEntity)
			fmt.Fprintf(w, "rpc failed: %s\n", st.Code())
		}
	}
	return nil
}

// ---- registration sequences ---------------------------------------------------

// stepT is one step of a history: a registration or a call.
type stepT struct {
	Reg  string `json:"reg,omitempty"` // RegisterService of that service of the universe
	Op   string `json:"op,omitempty"`  // Invoke | NewStream
	Name string `json:"name,omitempty"`
}

func (s stepT) String() string {
	if s.Reg != "" {
		return "register " + s.Reg
	}
	return s.Op + " " + s.Name
}

func historySig(h []stepT) string {
	parts := make([]string, len(h))
	for i, s := range h {
		parts[i] = s.String()
	}
	return strings.Join(parts, "; ")
}

// the universe of the sequences: the richest registry D; its subsets are sets too
const seqUniverse = "D"

func init() {
	sets["DA"] = []svcDef{defA2}
	sets["DB"] = []svcDef{defB2}
}

func seqServices() []string {
	var out []string
	for _, d := range sets[seqUniverse] {
		out = append(out, d.Name)
	}
	return out
}

// setAfter names the set registered after the history.
func setAfter(h []stepT) string {
	has := map[string]bool{}
	for _, s := range h {
		if s.Reg != "" {
			has[s.Reg] = true
		}
	}
	svcs := seqServices()
	switch {
	case has[svcs[0]] && has[svcs[1]]:
		return seqUniverse
	case has[svcs[0]]:
		return "DA"
	case has[svcs[1]]:
		return "DB"
	}
	return "none"
}

// serviceOf: the first segment of a name ("" if there is none)
func serviceOf(name string) string {
	n := strings.TrimPrefix(name, "/")
	if i := strings.IndexByte(n, '/'); i >= 0 {
		return n[:i]
	}
	return n
}

// probedBeforeRegistered: the call names a service that is registered now and
// that an earlier call of the history named when it was not registered yet
// (only used to MEASURE how often the enumeration reaches that situation).
func probedBeforeRegistered(hist []stepT, call stepT) bool {
	svc := serviceOf(call.Name)
	probed, registered := false, false
	for _, s := range hist {
		switch {
		case s.Reg == svc:
			registered = true
		case s.Reg == "" && !registered && serviceOf(s.Name) == svc:
			probed = true
		}
	}
	return probed && registered
}

// seqAlphabet derives the call alphabet from the universe.
//
//	size 0 (reduced): first service: first unary, first stream; second service:
//	         first unary; an unknown service
//	size 1: per service: first unary, first stream, an unknown method; an unknown
//	         service; a malformed name (a service without a method)
//	size 2: every registered full name of the universe, per service an unknown
//	         method, an unknown service, the malformed name, a registered name with
//	         an extra segment
//
// each x {Invoke, NewStream}
func seqAlphabet(size int) []stepT {
	defs := sets[seqUniverse]
	var names []string
	switch size {
	case 0:
		names = []string{"/" + defs[0].Name + "/" + defs[0].Unary[0], "/" + defs[0].Name + "/" + defs[0].Streams[0],
			"/" + defs[1].Name + "/" + defs[1].Unary[0], "/pkg.F/" + defs[0].Unary[0]}
	case 1:
		for _, d := range defs {
			names = append(names, "/"+d.Name+"/"+d.Unary[0], "/"+d.Name+"/"+d.Streams[0], "/"+d.Name+"/x")
		}
		names = append(names, "/pkg.F/"+defs[0].Unary[0], "/"+defs[0].Name)
	default:
		names = append(names, fullNames(defs)...)
		for _, d := range defs {
			names = append(names, "/"+d.Name+"/x")
		}
		names = append(names, "/pkg.F/"+defs[0].Unary[0], "/"+defs[0].Name, "/"+defs[0].Name+"/"+defs[0].Unary[0]+"/x")
	}
	var out []stepT
	for _, n := range names {
		for _, op := range []string{"Invoke", "NewStream"} {
			out = append(out, stepT{Op: op, Name: n})
		}
	}
	return out
}

// seqJobT is one slice of the sequence grammar: the cases whose first step is
// the first-th of (registrations of the services in order, then the alphabet).
type seqJobT struct {
	alpha    []stepT
	size     int // which alphabet (for the evidence)
	maxRegs  int
	maxCalls int
	minCalls int // only the cases with at least that many calls are run (the shorter ones run elsewhere)
	first    int
	seenFP   map[string]bool
}

func (q *seqJobT) firstSteps() []stepT {
	var out []stepT
	if q.maxRegs > 0 {
		for _, s := range seqServices() {
			out = append(out, stepT{Reg: s})
		}
	}
	return append(out, q.alpha...)
}

// enumerate calls emit for every case (history, call) of the slice: every
// sequence of at most maxRegs registrations (distinct services) and at most
// maxCalls calls that ends in a call, shorter histories first along each branch.
func (q *seqJobT) enumerate(emit func(hist []stepT, call stepT)) {
	svcs := seqServices()
	var rec func(hist []stepT, regs map[string]bool, calls int)
	rec = func(hist []stepT, regs map[string]bool, calls int) {
		// here calls < maxCalls: every call symbol ends a case
		if calls+1 >= q.minCalls {
			for _, a := range q.alpha {
				emit(hist, a)
			}
		}
		if calls+1 < q.maxCalls {
			for _, a := range q.alpha {
				rec(append(hist[:len(hist):len(hist)], a), regs, calls+1)
			}
		}
		if len(regs) < q.maxRegs {
			for _, s := range svcs {
				if regs[s] {
					continue
				}
				regs[s] = true
				rec(append(hist[:len(hist):len(hist)], stepT{Reg: s}), regs, calls)
				delete(regs, s)
			}
		}
	}
	f := q.firstSteps()[q.first]
	if f.Reg != "" {
		rec([]stepT{f}, map[string]bool{f.Reg: true}, 0)
		return
	}
	// the first step is a call: the case with the empty history, and what follows it
	if q.minCalls <= 1 {
		emit(nil, f)
	}
	if q.maxCalls > 1 {
		// (the cases after this first call; rec emits the calls that follow it)
		rec([]stepT{f}, map[string]bool{}, 1)
	}
}

// seqCases: the number of cases of the whole grammar (all slices), by formula:
// sum over c=max(1,minCalls)..maxCalls, r=0..maxRegs of |alpha|^c * C(c-1+r, r) * (ordered
// choices of r distinct services)
func seqCases(alpha, services, maxRegs, minCalls, maxCalls int) int64 {
	binom := func(n, k int) int64 {
		r := int64(1)
		for i := 1; i <= k; i++ {
			r = r * int64(n-k+i) / int64(i)
		}
		return r
	}
	total := int64(0)
	pow := int64(1)
	for c := 1; c <= maxCalls; c++ {
		pow *= int64(alpha)
		if c < minCalls {
			continue
		}
		for r := 0; r <= maxRegs && r <= services; r++ {
			ord := int64(1)
			for i := 0; i < r; i++ {
				ord *= int64(services - i)
			}
			total += pow * binom(c-1+r, r) * ord
		}
	}
	return total
}

// execCase runs one case on a fresh real instance; for a case with a history
// the instance is staged: nothing registered, then the history is played on it.
func execCase(c caseT) (o obsT, err error) {
	if len(c.History) == 0 {
		cfg, err := buildCfg(c.Transport, c.Base, c.Set, c.Deco, c.Renderer, false)
		if err == nil && c.Op == "NewStream" && cfg.descs[c.Desc] == nil {
			err = fmt.Errorf("no descriptor %q in the universe of set %s", c.Desc, c.Set)
		}
		if err != nil {
			return o, err
		}
		return run(cfg, c), nil
	}
	cfg, err := buildCfg(c.Transport, c.Base, seqUniverse, c.Deco, c.Renderer, true)
	if err != nil {
		return o, err
	}
	if c.Op == "NewStream" && cfg.descs[c.Desc] == nil {
		return o, fmt.Errorf("no descriptor %q in the universe", c.Desc)
	}
	for _, s := range c.History {
		if s.Reg != "" {
			if err := cfg.register(s.Reg); err != nil {
				// the same registrations succeed as a prelude: a panic here is the library's
				o.Panic = fmt.Sprintf("RegisterService(%s) after %q: %v", s.Reg, historySig(c.History), err)
				return o, nil
			}
			continue
		}
		run(cfg, caseT{Transport: c.Transport, Base: c.Base, Deco: c.Deco, Op: s.Op, Name: s.Name})
	}
	return run(cfg, c), nil
}

// reduce returns a violating sequence case reduced to a 1-minimal history:
// steps of the history are dropped, one at a time, as long as the call still
// violates the same clause (judged against the set the shorter history leaves
// registered). Inputs with the same cause thus collapse to the shortest history
// that shows it; the full case is not lost (the reduced one is itself a member
// of the grammar, which is closed under dropping steps).
func (q *seqJobT) reduce(c caseT, o obsT, clause, detail string) (r result, isNew bool) {
	for changed := true; changed; {
		changed = false
		for i := range c.History {
			c2 := c
			c2.History = append(append([]stepT(nil), c.History[:i]...), c.History[i+1:]...)
			c2.Set = setAfter(c2.History)
			o2, err := execCase(c2)
			if err != nil {
				continue
			}
			if cl2, d2 := check(c2, o2); cl2 == clause {
				c, o, detail, changed = c2, o2, d2, true
				break
			}
		}
	}
	fp := fingerprint(c, clause, o)
	if q.seenFP == nil {
		q.seenFP = map[string]bool{}
	}
	if q.seenFP[fp] {
		return r, false
	}
	q.seenFP[fp] = true
	return result{c, o, clause, detail}, true
}

// selfTestSeqs checks the enumeration and the oracle of the two dimensions on
// synthetic observations (no library code involved); "" when fine.
func selfTestSeqs() string {
	svcs := seqServices()
	if len(svcs) != 2 {
		return "the sequence universe has to have two services"
	}
	for size := 0; size <= 2; size++ {
		alpha := seqAlphabet(size)
		for _, lim := range [][3]int{{2, 3, 0}, {1, 2, 0}, {0, 1, 0}, {2, 1, 0}, {2, 3, 3}, {2, 2, 2}} {
			if size == 2 && lim[1] == 3 {
				continue // counted by formula only (large)
			}
			seen := map[string]bool{}
			n := int64(0)
			q := &seqJobT{alpha: alpha, maxRegs: lim[0], maxCalls: lim[1], minCalls: lim[2]}
			for f := range q.firstSteps() {
				q.first = f
				bad := ""
				q.enumerate(func(hist []stepT, call stepT) {
					n++
					k := historySig(append(append([]stepT(nil), hist...), call))
					if seen[k] {
						bad = "sequence enumerated twice: " + k
					}
					seen[k] = true
					regs, calls := map[string]bool{}, 1
					for _, s := range hist {
						if s.Reg != "" {
							if regs[s.Reg] {
								bad = "service registered twice in " + k
							}
							regs[s.Reg] = true
						} else {
							calls++
						}
					}
					if len(regs) > lim[0] || calls > lim[1] || calls < lim[2] {
						bad = "sequence beyond the bound: " + k
					}
				})
				if bad != "" {
					return bad
				}
			}
			if want := seqCases(len(alpha), len(svcs), lim[0], lim[2], lim[1]); n != want {
				return fmt.Sprintf("alphabet %d, <=%d registrations, <=%d calls: %d cases enumerated, formula says %d", size, lim[0], lim[1], n, want)
			}
			if lim == [3]int{2, 3, 0} {
				// the sequences the dimension is about
				a, b := svcs[0], svcs[1]
				am, bm := "/"+a+"/M", "/"+b+"/M"
				for _, k := range []string{
					"Invoke " + am + "; register " + a + "; Invoke " + am,
					"NewStream /" + a + "/S; register " + a + "; NewStream /" + a + "/S",
					"register " + a + "; Invoke " + bm + "; register " + b + "; Invoke " + bm,
					"register " + b + "; Invoke " + am + "; register " + a + "; Invoke " + am,
					"Invoke /pkg.F/M; register " + a + "; register " + b + "; Invoke " + am + "; Invoke " + bm,
					"register " + a + "; register " + b + "; Invoke " + am,
					"Invoke " + am,
				} {
					if !seen[k] {
						return fmt.Sprintf("alphabet %d: the sequence grammar lacks %q", size, k)
					}
				}
			}
		}
	}
	// the oracle judges against the set registered at the moment
	a := svcs[0]
	hist := []stepT{{Op: "Invoke", Name: "/" + a + "/M"}, {Reg: a}}
	if setAfter(hist) != "DA" || setAfter(hist[:1]) != "none" || setAfter([]stepT{{Reg: svcs[1]}, {Reg: a}}) != seqUniverse {
		return "setAfter is wrong"
	}
	if !probedBeforeRegistered(hist, stepT{Op: "Invoke", Name: "/" + a + "/M"}) || probedBeforeRegistered(hist[1:], stepT{Op: "Invoke", Name: "/" + a + "/M"}) ||
		probedBeforeRegistered(hist, stepT{Op: "Invoke", Name: "/" + svcs[1] + "/M"}) {
		return "probedBeforeRegistered is wrong"
	}
	for _, tr := range []string{"inproc", "http-server", "http-mux"} {
		for _, op := range []string{"Invoke", "NewStream"} {
			reg := a + "/M"
			if op == "NewStream" {
				reg = a + "/S"
			}
			unk := unimplCode(tr)
			late := caseT{Transport: tr, Base: "/", Set: setAfter(hist), Op: op, Name: "/" + reg, History: hist}
			if clause, _ := check(late, obsT{err: errUnimpl, isStat: true, code: unk, Sent: 1}); clause == "" {
				return fmt.Sprintf("oracle accepts %s %s failing as unknown after its service was registered (%s)", op, late.Name, tr)
			}
			if clause, _ := check(late, obsT{Ran: map[string]int64{reg: 1}, Reply: reg, Sent: 1}); clause != "" {
				return fmt.Sprintf("oracle rejects the registered call after a late registration: %s", clause)
			}
			early := caseT{Transport: tr, Base: "/", Set: setAfter(nil), Op: op, Name: "/" + reg}
			if clause, _ := check(early, obsT{err: errUnimpl, isStat: true, code: unk, Sent: 1}); clause != "" {
				return fmt.Sprintf("oracle rejects the clean failure of a call before the registration: %s", clause)
			}
			if clause, _ := check(early, obsT{Ran: map[string]int64{reg: 1}, Reply: reg, Sent: 1}); clause == "" {
				return "oracle accepts a handler running before it was registered"
			}
			if fingerprint(late, "handler-not-run", obsT{}) == fingerprint(early, "handler-not-run", obsT{}) {
				return "the fingerprint ignores the history"
			}
			if tr == "inproc" {
				continue
			}
			// the renderer dimension: what a reply without the library's status header
			// would look like to the client, for an unknown name
			for _, r := range renderers {
				c := caseT{Transport: tr, Base: "/", Set: "D", Renderer: r, Op: op, Name: "/" + a + "/x"}
				if clause, _ := check(c, obsT{Sent: 1, Rendered: 1}); clause != "no-error" {
					return fmt.Sprintf("oracle says %q for an unknown name answered with success (renderer %s)", clause, r)
				}
				if clause, _ := check(c, obsT{err: fmt.Errorf("unexpected EOF"), Sent: 1, Rendered: 1}); clause != "non-status-error" {
					return fmt.Sprintf("oracle says %q for an unknown name answered with a bare error (renderer %s)", clause, r)
				}
				if clause, _ := check(c, obsT{err: errUnimpl, isStat: true, code: codes.InvalidArgument, Sent: 1, Rendered: 1}); clause != "wrong-code" {
					return fmt.Sprintf("oracle says %q for an unknown name answered InvalidArgument (renderer %s)", clause, r)
				}
				if clause, _ := check(c, obsT{err: errUnimpl, isStat: true, code: codes.NotFound, Sent: 1}); clause != "" {
					return fmt.Sprintf("oracle rejects NotFound for an unknown name (renderer %s): %s", r, clause)
				}
				if fingerprint(c, "no-error", obsT{}) == fingerprint(caseT{Transport: tr, Base: "/", Set: "D", Op: op, Name: c.Name}, "no-error", obsT{}) {
					return "the fingerprint ignores the renderer"
				}
			}
		}
	}
	for _, r := range renderers {
		if (&config{}).rendererFn(r) == nil {
			return "renderer " + r + " is not defined"
		}
	}
	return ""
}
