// C12: method names resolve to exactly the registered handler, or fail cleanly.
//
// Bounded-exhaustive: every method-name string of a segment grammar (plus every
// prefix/suffix of the registered full names) x {Invoke, NewStream} x
// registered sets {none, {A}, {A,B}, D} x {in-process, httpgrpc.Server, ServeMux
// filled by httpgrpc.HandleServices} x base paths (identical on client and
// server). Per-method invocation counters say which handler ran.
//
// Escape dimension (tokens.go): the segment grammar spells names only with the
// characters of the registered names. Names are also enumerated at character
// granularity over an alphabet with percent-escapes (of the registered names'
// characters, of '/', '.', '%', and invalid ones), '?', '#', '+' and ' ' against
// a registry with 4-token full names, and every single such edit of the
// pkg.A/pkg.B full names joins the segment grammar's name list. The oracle is
// the same: only the exact string "/service/method" denotes the handler; a name
// that merely decodes (or is cut at '?' / '#') to a registered one is unknown.
// The HTTP carrier hands the server the request-target as it crosses the wire.
//
// Descriptor and decoration dimensions (descs.go): NewStream's *grpc.StreamDesc
// argument (bare client-made / client-made with a registered StreamName / the
// registered descriptor object of the named or of another stream or service / a
// handler-carrying descriptor registered nowhere) and the way the services got
// into the registry (RegisterService directly / through grpchan.WithInterceptor
// with counting interceptors), crossed with names, registry sets and transports.
// Registry set D (two streams in one service, a stream of the same simple name
// in another) joins the sets. The oracle is unchanged: the name alone decides.
package main

import (
	"context"
	"fmt"
	"io"
	"net/http"
	"net/url"
	"os"
	"path"
	"regexp"
	"runtime"
	"runtime/debug"
	"runtime/pprof"
	"sort"
	"strings"
	"sync"
	"sync/atomic"
	"time"

	"github.com/fullstorydev/grpchan"
	"github.com/fullstorydev/grpchan/httpgrpc"
	"github.com/fullstorydev/grpchan/inprocgrpc"
	"google.golang.org/grpc"
	"google.golang.org/grpc/codes"
	"google.golang.org/grpc/status"
	"google.golang.org/protobuf/types/known/wrapperspb"

	"verif/seq/common"
	"verif/vlib"
)

// ---- the registry model -----------------------------------------------------

type svcDef struct {
	Name    string
	Unary   []string
	Streams []string
}

var (
	defA = svcDef{Name: "pkg.A", Unary: []string{"M"}, Streams: []string{"S"}}
	defB = svcDef{Name: "pkg.B", Unary: []string{"M", "M2"}}
	sets = map[string][]svcDef{"none": nil, "A": {defA}, "AB": {defA, defB}}
	// simplest first ("D" is defined in descs.go)
	setOrder = []string{"none", "A", "AB", "D"}
)

// kindOf returns "unary", "stream" or "" for service/method in the set.
func kindOf(set, svc, method string) string {
	for _, d := range sets[set] {
		if d.Name != svc {
			continue
		}
		for _, m := range d.Unary {
			if m == method {
				return "unary"
			}
		}
		for _, m := range d.Streams {
			if m == method {
				return "stream"
			}
		}
	}
	return ""
}

type caseT struct {
	Transport string `json:"transport"` // inproc | http-server | http-mux
	Base      string `json:"base,omitempty"`
	Set       string `json:"set"`
	Op        string `json:"op"` // Invoke | NewStream
	Name      string `json:"name"`
	// cross-mount cases: the client is configured with this base path, which
	// denotes another mount than the server's Base
	ClientBase string `json:"client_base,omitempty"`
	// how the services got into the registry: "" RegisterService directly,
	// "interceptor" through grpchan.WithInterceptor (descs.go)
	Deco string `json:"deco,omitempty"`
	// NewStream: the StreamDesc the client passes (descs.go); "" is the bare
	// client-made one
	Desc string `json:"desc,omitempty"`
}

// ---- the real thing under test ---------------------------------------------

type config struct {
	cc       grpc.ClientConnInterface
	rt       http.RoundTripper // HTTP carriers: straight into the server's handler
	counts   map[string]*int64
	keys     []string
	mu       sync.Mutex
	srvPanic string
	sent     int64 // requests that reached the carrier (HTTP transports)
	// descs.go: what a client may pass to NewStream; the interceptors' counters
	descs   map[string]*grpc.StreamDesc
	descIDs []string
	icounts map[string]int64
	itotal  int64 // runs of any interceptor
	ctrs    []*int64
	before  []int64
}

type recoverH struct {
	h   http.Handler
	cfg *config
}

func (r recoverH) ServeHTTP(w http.ResponseWriter, req *http.Request) {
	defer func() {
		if p := recover(); p != nil {
			r.cfg.mu.Lock()
			r.cfg.srvPanic = fmt.Sprint(p)
			r.cfg.mu.Unlock()
			w.WriteHeader(500)
		}
	}()
	r.h.ServeHTTP(w, req)
}

func build(transport, base, set, deco string) (cfg *config, err error) {
	defer func() {
		if p := recover(); p != nil {
			err = fmt.Errorf("registration panicked (precondition of the mux, not decided here): %v", p)
		}
	}()
	cfg = &config{counts: map[string]*int64{}, icounts: map[string]int64{}}
	var descs []*grpc.ServiceDesc
	streamFn := func(key string) common.StreamFn {
		n := new(int64)
		cfg.counts[key] = n
		cfg.keys = append(cfg.keys, key)
		return func(str grpc.ServerStream) error {
			atomic.AddInt64(n, 1)
			for {
				var in wrapperspb.StringValue
				err := str.RecvMsg(&in)
				if err == io.EOF {
					break
				}
				if err != nil {
					return err
				}
			}
			return str.SendMsg(wrapperspb.String(key))
		}
	}
	for _, d := range sets[set] {
		d := d
		s := &common.Svc{Name: d.Name, Unary: map[string]common.UnaryFn{}, Streams: map[string]common.StreamDef{}}
		for _, m := range d.Unary {
			key := d.Name + "/" + m
			n := new(int64)
			cfg.counts[key] = n
			cfg.keys = append(cfg.keys, key)
			s.Unary[m] = func(ctx context.Context, dec func(interface{}) error) (interface{}, error) {
				atomic.AddInt64(n, 1)
				var in wrapperspb.StringValue
				if err := dec(&in); err != nil {
					return nil, err
				}
				return wrapperspb.String(key), nil
			}
		}
		for _, m := range d.Streams {
			s.Streams[m] = common.StreamDef{ClientStreams: true, ServerStreams: true, Fn: streamFn(d.Name + "/" + m)}
		}
		descs = append(descs, s.Desc())
	}
	cfg.buildDescs(set, descs, func(key, name string) grpc.StreamDesc {
		fn := streamFn(key)
		return grpc.StreamDesc{StreamName: name, ClientStreams: true, ServerStreams: true,
			Handler: func(srv interface{}, stream grpc.ServerStream) error { return fn(stream) }}
	})
	sort.Strings(cfg.keys)
	// the decoration dimension: every service goes through this view of the registry
	via := func(reg grpchan.ServiceRegistry) grpchan.ServiceRegistry {
		switch deco {
		case "":
			return reg
		case "interceptor":
			return grpchan.WithInterceptor(reg, cfg.unaryInt, cfg.streamInt)
		}
		panic("harness: unknown decoration " + deco)
	}

	var h http.Handler
	switch transport {
	case "inproc":
		ch := &inprocgrpc.Channel{}
		for _, d := range descs {
			via(ch).RegisterService(d, common.Impl{})
		}
		cfg.cc = ch
		return cfg, nil
	case "http-server":
		s := httpgrpc.NewServer(httpgrpc.WithBasePath(base))
		for _, d := range descs {
			via(s).RegisterService(d, common.Impl{})
		}
		h = s
	case "http-mux":
		reg := grpchan.HandlerMap{}
		for _, d := range descs {
			via(reg).RegisterService(d, common.Impl{})
		}
		mux := http.NewServeMux()
		httpgrpc.HandleServices(mux.HandleFunc, base, reg, nil, nil)
		h = mux
	default:
		return nil, fmt.Errorf("unknown transport %q", transport)
	}
	cfg.rt = wireRT(recoverH{h: h, cfg: cfg}, &cfg.sent)
	cfg.cc = cfg.client(base)
	return cfg, nil
}

func (cfg *config) client(base string) grpc.ClientConnInterface {
	return &httpgrpc.Channel{Transport: cfg.rt, BaseURL: &url.URL{Scheme: "http", Host: "example.test", Path: base}}
}

type obsT struct {
	Ran map[string]int64 `json:"ran,omitempty"`
	// runs of the interceptors of a decorated registry, by "interceptor <FullMethod>"
	Intercepted map[string]int64 `json:"intercepted,omitempty"`
	Err         string           `json:"err,omitempty"`
	Code        string           `json:"code,omitempty"`
	Reply       string           `json:"reply,omitempty"`
	Panic       string           `json:"panic,omitempty"`
	Sent        int64            `json:"requests_sent"`
	err         error
	isStat      bool
	code        codes.Code
	srvSide     bool
}

func run(cfg *config, c caseT) (o obsT) {
	if cfg.ctrs == nil {
		for _, k := range cfg.keys {
			cfg.ctrs = append(cfg.ctrs, cfg.counts[k])
		}
		cfg.before = make([]int64, len(cfg.ctrs))
	}
	before := cfg.before // one case at a time per configuration
	for i, n := range cfg.ctrs {
		before[i] = atomic.LoadInt64(n)
	}
	itotal := atomic.LoadInt64(&cfg.itotal)
	var ibefore map[string]int64
	if c.Deco != "" {
		ibefore = cfg.interceptorSnapshot()
	}
	cfg.mu.Lock()
	cfg.srvPanic = ""
	cfg.mu.Unlock()
	sentBefore := atomic.LoadInt64(&cfg.sent)
	defer func() { o.Sent = atomic.LoadInt64(&cfg.sent) - sentBefore }()
	ctx, cancel := context.WithCancel(context.Background())
	defer cancel()
	cc := cfg.cc
	if c.ClientBase != "" {
		cc = cfg.client(c.ClientBase)
	}
	func() {
		defer func() {
			if p := recover(); p != nil {
				o.Panic = fmt.Sprint(p)
			}
		}()
		if c.Op == "Invoke" {
			var out wrapperspb.StringValue
			o.err = cc.Invoke(ctx, c.Name, wrapperspb.String("req"), &out)
			if o.err == nil {
				o.Reply = out.Value
			}
			return
		}
		desc := cfg.descs[c.Desc]
		if desc == nil {
			panic("harness: no descriptor " + c.Desc + " in this configuration")
		}
		if desc.Handler == nil {
			d := *desc // client-made: a fresh object per call
			desc = &d
		}
		cs, err := cc.NewStream(ctx, desc, c.Name)
		if err != nil {
			o.err = err
			return
		}
		_ = cs.SendMsg(wrapperspb.String("req")) // the stream's verdict comes from RecvMsg
		_ = cs.CloseSend()
		var out wrapperspb.StringValue
		err = cs.RecvMsg(&out)
		if err == io.EOF {
			return // ended OK without a message: no reply
		}
		if err != nil {
			o.err = err
			return
		}
		o.Reply = out.Value
		var out2 wrapperspb.StringValue
		if err := cs.RecvMsg(&out2); err != io.EOF {
			if err == nil {
				err = fmt.Errorf("second message %q", out2.Value)
			}
			o.err = err
		}
	}()
	cfg.mu.Lock()
	p := cfg.srvPanic
	cfg.mu.Unlock()
	if p != "" && o.Panic == "" {
		o.Panic = p
		o.srvSide = true
	}
	for i, n := range cfg.ctrs {
		if d := atomic.LoadInt64(n) - before[i]; d != 0 {
			if o.Ran == nil {
				o.Ran = map[string]int64{}
			}
			o.Ran[cfg.keys[i]] = d
		}
	}
	if c.Deco != "" || atomic.LoadInt64(&cfg.itotal) != itotal {
		for k, n := range cfg.interceptorSnapshot() {
			if d := n - ibefore[k]; d != 0 {
				if o.Intercepted == nil {
					o.Intercepted = map[string]int64{}
				}
				o.Intercepted[k] = d
			}
		}
	}
	if o.err != nil {
		o.Err = o.err.Error()
		var st *status.Status
		st, o.isStat = status.FromError(o.err)
		if o.isStat {
			o.code = st.Code()
			o.Code = st.Code().String()
		}
	}
	return o
}

// ---- the oracle ------------------------------------------------------------

// wellFormed: ^/[^/]+/[^/]+$ (by hand: it is evaluated millions of times)
var wellFormed wfT

type wfT struct{}

func (wfT) MatchString(s string) bool {
	if len(s) < 4 || s[0] != '/' {
		return false
	}
	i := strings.IndexByte(s[1:], '/')
	if i < 1 {
		return false
	}
	rest := s[i+2:]
	return rest != "" && strings.IndexByte(rest, '/') < 0
}

// normalise: leading slash added, repeated and trailing slashes dropped.
func normalise(name string) string {
	b := make([]byte, 0, len(name)+1)
	for i := 0; i < len(name); i++ {
		if name[i] == '/' {
			continue
		}
		if i == 0 || name[i-1] == '/' {
			b = append(b, '/') // a segment starts
		}
		b = append(b, name[i])
	}
	if len(b) == 0 {
		return "/"
	}
	return string(b)
}

func shape(name string) string {
	return regexp.MustCompile(`[^/]+`).ReplaceAllString(name, "s")
}

// classify says what the reference model allows for the case.
//
//	must  != "": that handler has to run exactly once, the call succeeds
//	may   != "": that handler may run once with success (tolerated: the name is
//	             not canonical but denotes it after slash normalisation, or the
//	             method exists with the other arity); failing cleanly is as good
//	code  != nil: a clean failure has to carry that code
func classify(c caseT) (class, must, may string, code *codes.Code) {
	opKind := "unary"
	if c.Op == "NewStream" {
		opKind = "stream"
	}
	unknown := codes.NotFound
	if c.Transport == "inproc" {
		unknown = codes.Unimplemented
	}
	if c.ClientBase != "" {
		// the request goes to clean(ClientBase + name), the handlers live under
		// clean(Base + service/method): another mount, nothing may be reached
		return "cross-mount", "", "", &unknown
	}
	if wellFormed.MatchString(c.Name) {
		p := strings.Split(c.Name, "/")
		switch k := kindOf(c.Set, p[1], p[2]); {
		case k == opKind:
			return "registered", p[1] + "/" + p[2], "", nil
		case k != "":
			return "other-arity", "", p[1] + "/" + p[2], nil
		default:
			return "unknown", "", "", &unknown
		}
	}
	n := normalise(c.Name)
	if wellFormed.MatchString(n) {
		p := strings.Split(n, "/")
		if kindOf(c.Set, p[1], p[2]) == opKind {
			return "malformed-denoting-registered", "", p[1] + "/" + p[2], nil
		}
	}
	// the same tolerance for the literal dot-segments "." and "..", which the
	// path cleaning that removes doubled slashes removes as well (only literal
	// ones: an escaped dot is not a dot-segment)
	if n := path.Clean("/" + c.Name); n != normalise(c.Name) && wellFormed.MatchString(n) {
		p := strings.Split(n, "/")
		if kindOf(c.Set, p[1], p[2]) == opKind {
			return "dot-segments-denoting-registered", "", p[1] + "/" + p[2], nil
		}
	}
	return "malformed", "", "", nil
}

// check returns "" when the case is fine, else a clause name.
func check(c caseT, o obsT) (clause, detail string) {
	class, must, may, code := classify(c)
	return checkAs(c, o, class, must, may, code)
}

func checkAs(c caseT, o obsT, class, must, may string, code *codes.Code) (clause, detail string) {
	if clause, detail = checkBase(c, o, class, must, may, code); clause != "" {
		return clause, detail
	}
	return checkIntercept(c, o)
}

func checkBase(c caseT, o obsT, class, must, may string, code *codes.Code) (clause, detail string) {
	if o.Panic != "" {
		side := "client"
		if o.srvSide {
			side = "server"
		}
		return "panic", fmt.Sprintf("%s-side panic: %s", side, o.Panic)
	}
	total := int64(0)
	for _, n := range o.Ran {
		total += n
	}
	if must != "" {
		for k, n := range o.Ran {
			if k != must {
				return "wrong-handler", fmt.Sprintf("handler %s ran %d time(s) for %s", k, n, c.Name)
			}
		}
		if o.Ran[must] == 0 {
			return "handler-not-run", fmt.Sprintf("registered %s did not run; err=%v", must, o.err)
		}
		if o.Ran[must] != 1 {
			return "ran-more-than-once", fmt.Sprintf("%s ran %d times", must, o.Ran[must])
		}
		if o.err != nil {
			return "registered-call-failed", fmt.Sprintf("handler ran but the call failed: %v", o.err)
		}
		if o.Reply != must {
			return "wrong-reply", fmt.Sprintf("reply %q, want %q", o.Reply, must)
		}
		return "", ""
	}
	for k, n := range o.Ran {
		if k != may {
			return "handler-ran-for-" + class, fmt.Sprintf("handler %s ran %d time(s) for %q", k, n, c.Name)
		}
	}
	if may != "" && total > 0 {
		if o.Ran[may] != 1 {
			return "ran-more-than-once", fmt.Sprintf("%s ran %d times", may, o.Ran[may])
		}
		if class == "malformed-denoting-registered" || class == "dot-segments-denoting-registered" {
			if o.err != nil {
				return "registered-call-failed", fmt.Sprintf("handler ran but the call failed: %v", o.err)
			}
			if o.Reply != may {
				return "wrong-reply", fmt.Sprintf("reply %q, want %q", o.Reply, may)
			}
		} else if o.err != nil && (!o.isStat || o.code == codes.OK) {
			return "non-status-error", fmt.Sprintf("%T: %v", o.err, o.err)
		}
		return "", ""
	}
	// nothing ran: has to be a clean failure
	if o.err == nil {
		return "no-error", fmt.Sprintf("no handler ran, yet the call reported success (reply %q)", o.Reply)
	}
	if !o.isStat || o.code == codes.OK {
		return "non-status-error", fmt.Sprintf("%T: %v", o.err, o.err)
	}
	if code != nil && o.code != *code {
		if c.Transport != "inproc" && o.Sent == 0 {
			// the client could not put the string on the wire at all and said so
			// with a status error: nothing reached any server
			return "", ""
		}
		return "wrong-code", fmt.Sprintf("code %s, want %s (%v)", o.code, *code, o.err)
	}
	return "", ""
}

func fingerprint(c caseT, clause string, o obsT) string {
	where := c.Transport
	if c.Transport != "inproc" {
		where += "|base=" + c.Base
	}
	if c.ClientBase != "" {
		where += "|client-base=" + c.ClientBase
	}
	if clause == "panic" {
		// the registered set and the spelling of the segments do not matter for a
		// parse panic; the slash shape of the name and the panic text do.
		msg := o.Panic
		if len(msg) > 80 {
			msg = msg[:80]
		}
		if c.Desc != "" {
			// a descriptor other than the bare one is part of the input
			return fmt.Sprintf("C12|%s|%s|desc=%s|shape=%q|panic|%s", where, c.Op, c.Desc, shape(c.Name), msg)
		}
		return fmt.Sprintf("C12|%s|%s|shape=%q|panic|%s", where, c.Op, shape(c.Name), msg)
	}
	set := "set=" + c.Set
	if c.Deco != "" {
		set += "|deco=" + c.Deco
	}
	if c.Desc != "" {
		// the descriptor dimension: the relation of the descriptor to the name and
		// the clause (which carries the class of the name) identify the input; the
		// spelling of the name collapses (the replay object has the exact case)
		rel := descRelation(c.Set, c.Desc, c.Name)
		if rel == "client-named" {
			rel = c.Desc // no Handler: the StreamName is what could matter
		}
		return fmt.Sprintf("C12|%s|%s|%s|desc=%s|%s", where, set, c.Op, rel, clause)
	}
	if strings.HasPrefix(clause, "interceptor-") {
		// the handler / interceptor that ran matters, not the spelling of the name
		h := append(sortedKeys(o.Ran), sortedKeys(o.Intercepted)...)
		return fmt.Sprintf("C12|%s|%s|%s|ran=%s|%s", where, set, c.Op, h[0], clause)
	}
	return fmt.Sprintf("C12|%s|%s|%s|name=%q|%s", where, set, c.Op, c.Name, clause)
}

var errUnimpl = status.Error(codes.Unimplemented, "synthetic")

// unimplCode: the code an unknown name has to fail with on the transport
func unimplCode(transport string) codes.Code {
	if transport == "inproc" {
		return codes.Unimplemented
	}
	return codes.NotFound
}

// ---- the grammar -----------------------------------------------------------

var segAlphabet = []string{"", "pkg.A", "pkg.B", "A", "pkg", "M", "S", "M2", "x"}

func names(maxSegs int) []string { return namesOf(maxSegs, true) }

// namesOf: the segment strings, the prefixes and suffixes of the registered full
// names and (sweep) the single edits of the registered full names; without the
// sweep, every registered full name with one more segment before or after it
// joins instead, so that the shorter list has "extra segments" too.
func namesOf(maxSegs int, sweep bool) []string {
	segs := segAlphabet
	seen := map[string]bool{}
	var out []string
	add := func(s string) {
		if !seen[s] {
			seen[s] = true
			out = append(out, s)
		}
	}
	var rec func(prefix []string)
	rec = func(prefix []string) {
		if len(prefix) > 0 {
			add(strings.Join(prefix, "/"))
		}
		if len(prefix) == maxSegs {
			return
		}
		for _, s := range segs {
			rec(append(append([]string(nil), prefix...), s))
		}
	}
	rec(nil)
	for _, full := range fullNames(sets["D"]) { // a superset of the other sets' names
		for i := 0; i <= len(full); i++ {
			add(full[:i]) // proper prefixes, "" included
			if i > 0 {
				add(full[i:]) // proper suffixes
			}
		}
	}
	// single edits of the registered full names with escapes, URL specials and
	// dot-segments (tokens.go)
	if sweep {
		for _, s := range sweepNames(sets["D"]) {
			add(s)
		}
	} else {
		for _, f := range fullNames(sets["D"]) {
			for _, s := range segAlphabet {
				add(f + "/" + s)
				add("/" + s + f)
			}
		}
	}
	sort.SliceStable(out, func(i, j int) bool {
		a, b := out[i], out[j]
		if x, y := strings.Count(a, "/"), strings.Count(b, "/"); x != y {
			return x < y
		}
		if len(a) != len(b) {
			return len(a) < len(b)
		}
		return a < b
	})
	return out
}

type transportT struct{ kind, base string }

func basePaths(tier string) []string {
	bases := []string{"/", "/foo", "/foo/", "/a/b", "/a/b/", "/é/", "/a+b~c.d/",
		// a literal '%' (the client escapes it, the server sees it decoded)
		"/100%", "/c%d/x", "/x%s/", "/a%2Fb/", "/v%%1", "/v%1"}
	if tier == "thorough" {
		bases = append(bases, "/100%/rpc", "/%", "/%v/", "/a%20b/", "/a?b/", "/a#b/", "/pkg.A/", "/pkg.A/M", "//x//", "/a;b=c/", "/A&B/")
	}
	return bases
}

func transports(tier string) []transportT {
	out := []transportT{{"inproc", ""}}
	for _, b := range basePaths(tier) {
		out = append(out, transportT{"http-server", b}, transportT{"http-mux", b})
	}
	return out
}

// ---- driver ----------------------------------------------------------------

type result struct {
	c      caseT
	o      obsT
	clause string
	detail string
}

var progress int64
var stopProfile = func() {}

// the case each job is running, for the watchdog's report
type slotT struct {
	mu     sync.Mutex
	c      caseT
	active bool
}

func (s *slotT) set(c caseT) {
	s.mu.Lock()
	s.c, s.active = c, true
	s.mu.Unlock()
}

func (s *slotT) clear() {
	s.mu.Lock()
	s.active = false
	s.mu.Unlock()
}

var (
	slotsMu sync.Mutex
	slots   []*slotT
)

func newSlot() *slotT {
	s := &slotT{}
	slotsMu.Lock()
	slots = append(slots, s)
	slotsMu.Unlock()
	return s
}

// what the evidence counts per (op, grammar, decoration, descriptor relation, class, outcome)
type statKey struct {
	op, prefix, rel, class, outcome string
	deco                            bool
}

type statT struct {
	cls, smp string // keys of by_class_and_outcome and of the samples
	n        int
	sample   interface{}
}

func watchdog() {
	last := int64(-1)
	stale := 0
	for {
		time.Sleep(5 * time.Second)
		p := atomic.LoadInt64(&progress)
		if p != last {
			last, stale = p, 0
			continue
		}
		stale++
		if stale >= 6 {
			fmt.Fprintln(os.Stderr, "INCONCLUSIVE: no case completed for 30 s; in flight:")
			slotsMu.Lock()
			for _, s := range slots {
				s.mu.Lock()
				if s.active {
					fmt.Fprintf(os.Stderr, "  %+v\n", s.c)
				}
				s.mu.Unlock()
			}
			slotsMu.Unlock()
			os.Exit(2)
		}
	}
}

func main() {
	debug.SetMemoryLimit(3 << 30)
	rep := vlib.NewReporter("C12")
	go watchdog()
	if pf := os.Getenv("VERIF_C12_CPUPROFILE"); pf != "" { // for tuning the check itself
		if f, err := os.Create(pf); err == nil {
			pprof.StartCPUProfile(f)
			defer pprof.StopCPUProfile()
			stopProfile = pprof.StopCPUProfile
		}
	}

	if p := common.Arg("replay"); p != "" {
		var c caseT
		if err := common.LoadReplay(p, &c); err != nil {
			fmt.Fprintln(os.Stderr, "INCONCLUSIVE:", err)
			os.Exit(2)
		}
		cfg, err := build(c.Transport, c.Base, c.Set, c.Deco)
		if err == nil && c.Op == "NewStream" && cfg.descs[c.Desc] == nil {
			err = fmt.Errorf("no descriptor %q in the universe of set %s", c.Desc, c.Set)
		}
		if err != nil {
			fmt.Fprintln(os.Stderr, "INCONCLUSIVE:", err)
			os.Exit(2)
		}
		newSlot().set(c)
		o := run(cfg, c)
		clause, detail := check(c, o)
		class, must, may, _ := classify(c)
		fmt.Printf("replay: case=%+v class=%s must=%q may=%q descriptor=%s\n  observed: ran=%v intercepted=%v err=%q code=%s reply=%q panic=%q\n  verdict: %s %s\n",
			c, class, must, may, descRelation(c.Set, c.Desc, c.Name), o.Ran, o.Intercepted, o.Err, o.Code, o.Reply, o.Panic, clause, detail)
		if clause != "" {
			fmt.Printf("VIOLATION property=C12 replay=%s\n", p)
			os.Exit(1)
		}
		os.Exit(0)
	}

	var nameList []string
	// token grammar: every string of toks on every transport and base path, and
	// the strings of toksLong that are one token longer on in-process and on both
	// HTTP carriers with three base paths. The longer layer, and the whole quick
	// tier, spell escapes in upper-case hex only.
	var toks, toksLong *tokenSpace
	maxSegs := 4
	if rep.Tier == "thorough" {
		maxSegs = 5
		nameList = names(5) // 0..4 slashes
		toks = newTokenSpace(tokenAlphabet(true), 4)
		toksLong = newTokenSpace(tokenAlphabet(false), 5)
	} else {
		nameList = names(4) // 0..3 slashes
		toks = newTokenSpace(tokenAlphabet(false), 3)
		toksLong = newTokenSpace(tokenAlphabet(false), 4)
	}
	trs := transports(rep.Tier)
	ops := []string{"Invoke", "NewStream"}
	// (toksLong enumerates the shorter strings too; those are run from toks)
	for _, ts := range []*tokenSpace{toksLong} {
		if msg := selfTest(ts); msg != "" {
			fmt.Fprintln(os.Stderr, "INCONCLUSIVE: self-test of the escape dimension failed:", msg)
			os.Exit(2)
		}
	}
	if msg := selfTestDescs(); msg != "" {
		fmt.Fprintln(os.Stderr, "INCONCLUSIVE: self-test of the descriptor / decoration dimensions failed:", msg)
		os.Exit(2)
	}
	// shorter name lists for the parts of the new dimensions that are swept rather
	// than crossed: the core names, and (thorough tier) the quick tier's whole list
	core := namesOf(3, false)
	midList := nameList
	if rep.Tier == "thorough" {
		midList = names(4)
	}

	// one job per (transport, base, set) for the segment grammar, and per
	// (transport, base, op, slice of the index range) for the token grammar:
	// independent real instances; results are gathered and reported in
	// enumeration order, so the run is deterministic.
	type job struct {
		tr   transportT
		set  string
		deco string
		// segment grammar jobs: names x ops with the bare descriptor, or (descs)
		// names x NewStream x every other descriptor of the universe
		names []string
		descs bool
		// token grammar jobs: the strings lo..hi-1 of ts, one op
		ts     *tokenSpace
		op     string
		lo, hi int64
		res    []result // violations only
		more   int      // violations beyond maxResPerJob (not kept)
		n      int
		cls    map[string]int
		nt     int
		near   int // names that are not registered but decode / truncate to a registered one
		smp    map[string]interface{}
		err    error
	}
	const maxResPerJob = 500
	var jobs []*job
	newJob := func(tr transportT, set, deco string, names []string) *job {
		j := &job{tr: tr, set: set, deco: deco, names: names, cls: map[string]int{}, smp: map[string]interface{}{}}
		jobs = append(jobs, j)
		return j
	}
	longOn := map[transportT]bool{{"inproc", ""}: true}
	for _, b := range []string{"/", "/foo/", "/c%d/x"} {
		longOn[transportT{"http-server", b}] = true
		longOn[transportT{"http-mux", b}] = true
	}
	decos := []string{"", "interceptor"}
	richSets := []string{"AB", "D"}
	for _, tr := range trs {
		for _, set := range setOrder {
			if set == "D" && !longOn[tr] {
				newJob(tr, set, "", midList) // (thorough: the quick tier's list)
			} else {
				newJob(tr, set, "", nameList)
			}
		}
	}
	// decoration: the two richest registries registered through WithInterceptor;
	// the whole name list in-process, the quick tier's whole list on the HTTP
	// carriers where the long token strings run, the core names elsewhere
	for _, tr := range trs {
		for _, set := range richSets {
			switch {
			case tr.kind == "inproc":
				newJob(tr, set, "interceptor", nameList)
			case longOn[tr]:
				newJob(tr, set, "interceptor", midList)
			default:
				newJob(tr, set, "interceptor", core)
			}
		}
	}
	// descriptors x decoration: in-process every set and the whole name list; over
	// HTTP, where the descriptor never crosses the wire, the richest set with the
	// core names (thorough: the quick tier's whole list where the long token
	// strings run)
	for _, tr := range trs {
		for _, deco := range decos {
			switch {
			case tr.kind == "inproc":
				for _, set := range setOrder {
					newJob(tr, set, deco, nameList).descs = true
				}
			case longOn[tr] && rep.Tier == "thorough":
				newJob(tr, "D", deco, midList).descs = true
			default:
				newJob(tr, "D", deco, core).descs = true
			}
		}
	}
	const slice = 60000
	addTok := func(tr transportT, ts *tokenSpace, from int64, descs bool) {
		for _, op := range ops {
			if descs && op != "NewStream" {
				continue
			}
			for lo := from; lo < ts.size(); lo += slice {
				j := newJob(tr, "T", "", nil)
				j.ts, j.op, j.lo, j.hi, j.descs = ts, op, lo, lo+slice, descs
				if j.hi > ts.size() {
					j.hi = ts.size()
				}
			}
		}
	}
	for _, tr := range trs {
		addTok(tr, toks, 0, false)
		if longOn[tr] {
			addTok(tr, toksLong, toksLong.offs[toksLong.maxLen], false) // the longest strings only
		}
		if tr.kind == "inproc" {
			// the token strings x every other descriptor of T's universe
			addTok(tr, toks, 0, true)
			addTok(tr, toksLong, toksLong.offs[toksLong.maxLen], true)
		}
	}
	var wg sync.WaitGroup
	workers := runtime.NumCPU()
	if workers < 4 {
		workers = 4
	}
	sem := make(chan struct{}, workers)
	for ji, j := range jobs {
		wg.Add(1)
		go func(ji int, j *job) {
			defer wg.Done()
			sem <- struct{}{}
			defer func() { <-sem }()
			cfg, err := build(j.tr.kind, j.tr.base, j.set, j.deco)
			if err != nil {
				j.err = err
				return
			}
			otherDescs := cfg.descIDs[1:] // [0] is the bare one
			slot := newSlot()
			stats := map[statKey]*statT{}
			defer func() {
				for _, st := range stats {
					j.cls[st.cls] += st.n
					if st.sample != nil {
						j.smp[st.smp] = st.sample
					}
				}
			}()
			one := func(c caseT, prefix string, minSlashes int, nearMiss bool) {
				class, must, may, code := classify(c)
				sk := statKey{op: c.Op, prefix: prefix, class: class, deco: c.Deco != ""}
				if c.Desc != "" {
					sk.rel = descRelation(c.Set, c.Desc, c.Name)
				}
				slot.set(c)
				o := run(cfg, c)
				atomic.AddInt64(&progress, 1)
				j.n++
				sk.outcome = "clean-failure"
				if len(o.Ran) > 0 {
					sk.outcome = "handler-ran"
				}
				if o.Panic != "" {
					sk.outcome = "panic"
				}
				st := stats[sk]
				if st == nil {
					full := prefix
					if sk.deco {
						full += "intercepted:"
					}
					if sk.rel != "" {
						full += "desc=" + sk.rel + ":"
					}
					st = &statT{cls: full + class + "/" + sk.outcome}
					st.smp = c.Op + "/" + j.tr.kind + "/" + st.cls
					stats[sk] = st
				}
				st.n++
				if j.set != "none" {
					j.nt++
				}
				if clause, detail := checkAs(c, o, class, must, may, code); clause != "" {
					if len(j.res) < maxResPerJob {
						j.res = append(j.res, result{c, o, clause, detail})
					} else {
						j.more++
					}
				}
				if st.sample == nil && strings.Count(c.Name, "/") >= minSlashes {
					st.sample = map[string]interface{}{"case": c, "class": class, "observed": o}
				}
				if nearMiss {
					// an unregistered name that decodes / truncates to a registered one
					j.near++
					if k := "near-miss/" + c.Op + "/" + j.tr.kind + "/" + prefix + map[bool]string{true: "intercepted:"}[sk.deco]; j.smp[k] == nil && strings.HasPrefix(c.Name, "/") {
						j.smp[k] = map[string]interface{}{"case": c, "class": class, "near_miss": true, "observed": o}
					}
				}
			}
			defer slot.clear()
			if j.ts != nil {
				for i := j.lo; i < j.hi; i++ {
					c := caseT{Transport: j.tr.kind, Base: j.tr.base, Set: j.set, Op: j.op, Name: j.ts.name(i)}
					if !j.descs {
						one(c, "tokens:", 2, decodesToRegistered(c.Set, c.Op, c.Name))
						continue
					}
					for _, id := range otherDescs {
						c.Desc = id
						one(c, "tokens:", 2, false)
					}
				}
				return
			}
			if j.descs {
				for _, name := range j.names {
					for _, id := range otherDescs {
						one(caseT{Transport: j.tr.kind, Base: j.tr.base, Set: j.set, Deco: j.deco, Op: "NewStream", Name: name, Desc: id}, "", 2, false)
					}
				}
				return
			}
			for _, op := range ops {
				for _, name := range j.names {
					c := caseT{Transport: j.tr.kind, Base: j.tr.base, Set: j.set, Deco: j.deco, Op: op, Name: name}
					one(c, "", 2, decodesToRegistered(c.Set, c.Op, c.Name))
				}
			}
			// cross-mount: same server, the client configured with every base path
			// of the alphabet that denotes another mount; the registered full names
			if j.tr.kind != "inproc" && j.deco == "" && (j.set == "AB" || j.set == "D") {
				for _, cb := range basePaths(rep.Tier) {
					if path.Clean(cb) == path.Clean(j.tr.base) {
						continue
					}
					for _, op := range ops {
						for _, name := range fullNames(sets[j.set]) {
							one(caseT{Transport: j.tr.kind, Base: j.tr.base, Set: j.set, Op: op, Name: name, ClientBase: cb}, "", 0, false)
						}
					}
				}
			}
		}(ji, j)
	}
	wg.Wait()

	evals, nontrivial, near, nearTok, tokEvals, truncated, tokJobs := 0, 0, 0, 0, 0, 0, 0
	descEvals, descHandlerEvals, decoEvals := 0, 0, 0
	configs := map[string]bool{}
	classes := map[string]int{}
	var samples []interface{}
	allSmp := map[string]interface{}{}
	for _, j := range jobs {
		if j.err != nil {
			fmt.Fprintf(os.Stderr, "INCONCLUSIVE: %s base=%q set=%s: %v\n", j.tr.kind, j.tr.base, j.set, j.err)
			os.Exit(2)
		}
		evals += j.n
		nontrivial += j.nt
		configs[fmt.Sprint(j.tr, "|", j.set, "|", j.deco)] = true
		if j.descs {
			descEvals += j.n
			ids := descIDs(j.set)[1:]
			h := 0
			for _, id := range ids {
				if carriesHandler(id) {
					h++
				}
			}
			descHandlerEvals += j.n / len(ids) * h
		}
		if j.deco != "" {
			decoEvals += j.n
		}
		near += j.near
		truncated += j.more
		if j.ts != nil {
			tokEvals += j.n
			nearTok += j.near
			tokJobs++
		}
		for k, v := range j.cls {
			classes[k] += v
		}
		for k, v := range j.smp {
			if (j.set == "AB" || j.set == "T" || (j.set == "D" && j.descs)) && j.tr.base != "/" && allSmp[k] == nil {
				allSmp[k] = v
			}
		}
		for _, r := range j.res {
			rep.Violation(fingerprint(r.c, r.clause, r.o), fmt.Sprintf("%s %s %q on %s base=%q set=%s%s: %s: %s", r.c.Op, "name", r.c.Name, r.c.Transport, r.c.Base+map[bool]string{true: "\" client-base=\"" + r.c.ClientBase}[r.c.ClientBase != ""], r.c.Set,
				map[bool]string{true: " registered through WithInterceptor"}[r.c.Deco != ""]+map[bool]string{true: " descriptor=" + r.c.Desc + " (" + descRelation(r.c.Set, r.c.Desc, r.c.Name) + ")"}[r.c.Desc != ""], r.clause, r.detail), r.c)
		}
	}
	if truncated > 0 {
		fmt.Printf("note: %d further violating cases not listed (at most %d are kept per job)\n", truncated, maxResPerJob)
	}
	var smpKeys []string
	for k := range allSmp {
		smpKeys = append(smpKeys, k)
	}
	sort.Strings(smpKeys)
	for i, k := range smpKeys {
		// a handful: every third (class, outcome, transport, op) representative,
		// and the first near-miss of the escape dimension per (op, transport, grammar)
		if strings.HasPrefix(k, "near-miss/") {
			samples = append(samples, allSmp[k])
		} else if strings.Contains(k, "desc=") || strings.Contains(k, "intercepted:") {
			// the descriptor / decoration dimensions: the cases where a handler ran
			// with a handler-carrying descriptor, and one unknown name per relation
			if !strings.Contains(k, "desc=client-named") && !strings.Contains(k, "tokens:") &&
				(strings.HasSuffix(k, ":registered/handler-ran") || (strings.HasSuffix(k, ":unknown/clean-failure") && strings.HasPrefix(k, "NewStream/inproc/"))) {
				samples = append(samples, allSmp[k])
			}
		} else if i%3 == 0 {
			samples = append(samples, allSmp[k])
		}
	}
	// calibration: the harness reaches registered methods in both grammars, and
	// both grammars do contain unregistered names that decode / truncate to a
	// registered one (the escape dimension is populated, for both ops)
	if rep.Violations == 0 && rep.KnownHits == 0 && (classes["registered/handler-ran"] == 0 || classes["tokens:registered/handler-ran"] == 0) {
		fmt.Fprintln(os.Stderr, "INCONCLUSIVE: no registered method was ever reached; the harness is broken")
		os.Exit(2)
	}
	// the descriptor and decoration dimensions are populated: every relation of a
	// descriptor to the name occurred, with names that have to run their handler
	// and with unknown names, plain and through WithInterceptor
	// (whatever the outcome: this is about the grammar, not about the tree)
	populated := map[string]int{}
	for k, v := range classes {
		populated[k[:strings.LastIndexByte(k, '/')]] += v
	}
	for _, k := range []string{
		"desc=own:registered", "desc=other-registered:registered", "desc=unregistered:registered", "desc=client-named:registered",
		"desc=other-registered:unknown", "desc=unregistered:unknown", "desc=client-named:unknown",
		"desc=other-registered:other-arity", "desc=unregistered:malformed",
	} {
		for _, pre := range []string{"", "intercepted:", "tokens:"} {
			if populated[pre+k] == 0 && !(pre == "tokens:" && k == "desc=other-registered:registered") { // T has a single stream
				fmt.Fprintf(os.Stderr, "INCONCLUSIVE: the descriptor / decoration dimension is not populated: no case of %s%s\n", pre, k)
				os.Exit(2)
			}
		}
	}
	if populated["intercepted:registered"] == 0 || populated["intercepted:unknown"] == 0 {
		fmt.Fprintln(os.Stderr, "INCONCLUSIVE: the decoration dimension is not populated")
		os.Exit(2)
	}
	// and on a tree without violations the harness does reach the handlers through
	// every kind of descriptor and through the interceptors
	if rep.Violations == 0 && rep.KnownHits == 0 {
		for _, k := range []string{"desc=own:registered/handler-ran", "desc=other-registered:registered/handler-ran", "desc=unregistered:registered/handler-ran", "intercepted:registered/handler-ran", "intercepted:desc=own:registered/handler-ran", "tokens:desc=own:registered/handler-ran"} {
			if classes[k] == 0 {
				fmt.Fprintf(os.Stderr, "INCONCLUSIVE: no case of %s; the harness is broken\n", k)
				os.Exit(2)
			}
		}
	}
	if nearTok == 0 || near == nearTok {
		fmt.Fprintln(os.Stderr, "INCONCLUSIVE: the grammars contain no unregistered name that decodes to a registered one; the escape dimension is empty")
		os.Exit(2)
	}
	midDesc := "the whole name list of (1)"
	if rep.Tier == "thorough" {
		midDesc = fmt.Sprintf("the quick tier's whole name list (1..4 segments, %d names)", len(midList))
	}
	alpha := toks.alpha
	longSize := toksLong.size() - toksLong.offs[toksLong.maxLen]
	tokRule := fmt.Sprintf("every string of 0..%d tokens over the %d-token alphabet %q", toks.maxLen, len(alpha), alpha)
	tokRule += fmt.Sprintf(" on every transport and base path, and every string of exactly %d tokens over the %d-token alphabet %q on in-process and on both HTTP carriers with base paths /, /foo/, /c%%d/x", toksLong.maxLen, len(toksLong.alpha), toksLong.alpha)
	stopProfile()
	os.Exit(rep.Finish("exploration", map[string]interface{}{
		"evaluations":         evals,
		"distinct_nontrivial": nontrivial,
		"rule": "(1) segment grammar: every string of 1.." + fmt.Sprint(maxSegs) + " segments from {\"\",pkg.A,pkg.B,A,pkg,M,S,M2,x} joined by '/', plus every prefix and suffix of the six full names of the richest registry D, " +
			"plus the single-edit sweep around these six full names (each character replaced by its percent-escape, upper- and lower-case hex, with and without the leading slash; each of %2F %2f %2E %2e %25 %20 %3F %23 %zz % ? # + space . .. ./ ../ x/../ /. /.. %2E%2E/ /%2E inserted at each position; every character escaped, with and without the slashes, and double-escaped), " +
			"x {Invoke, NewStream} x registered sets {none, A={pkg.A(M unary,S stream)}, AB={pkg.A,pkg.B(M,M2 unary)}, D={pkg.A(M unary; S,S2 streams),pkg.B(M,M2 unary; S stream)}} (thorough tier: D with " + midDesc + " on the HTTP carriers other than those with base paths /, /foo/, /c%d/x) x {in-process, httpgrpc.NewServer(WithBasePath), http.ServeMux+HandleServices} x base paths (incl. ones with a literal '%'), same base path on Channel.BaseURL and server; plus cross-mount cases: for sets AB and D and every ordered pair of base paths denoting different mounts, the registered full names x {Invoke, NewStream} from a client on the other base path must reach nothing (NotFound). " +
			"(2) token grammar (character granularity, escapes): registry {s(m unary, t stream)}, whose full names are 4 tokens long; " + tokRule + ", x {Invoke, NewStream}; the alphabet is derived from the registry: '/', every character of the registered names, '.', the percent-escape of each of these in upper-case hex (and, where the alphabet above lists them, lower-case hex), %25, the invalid escapes %zz and a bare %, and ? # + space. " +
			"(3) decoration dimension: how the services got into the registry: RegisterService directly (everything above) or through grpchan.WithInterceptor with counting unary and stream interceptors (per-FullMethod counters); sets AB and D x {Invoke, NewStream} x every transport and base path, with the whole name list of (1) in-process, with " + midDesc + " on both HTTP carriers with base paths /, /foo/, /c%d/x and with the core names elsewhere (core names: every string of 1..3 segments, the prefixes and suffixes of D's full names, each full name of D with one more segment before or after it: " + fmt.Sprint(len(core)) + " names). Added oracle: in a decorated registry the interceptor runs, with the registered full name, exactly as often as the handler (the registered handler is the intercepting wrapper), and not at all for names that run no handler. " +
			"(4) descriptor dimension: what the client passes to NewStream as *grpc.StreamDesc; (1) and (2) use the bare client-made one (StreamName x, no Handler). The other descriptors, derived from the registry universe (D for the segment grammar " + fmt.Sprint(descIDs("D")[1:]) + ", T for the token grammar " + fmt.Sprint(descIDs("T")[1:]) + "): client:<n> client-made without Handler with StreamName n in {empty, each stream's simple name, a unary method's simple name}; raw:<svc>/<stream> the very element of the ServiceDesc.Streams slice handed to RegisterService, for every stream of the universe (for a set that registers the stream it is the registered descriptor: the named method's own, or another method's / another service's; for a set that does not, and for the raw descriptor of a service registered through WithInterceptor, its Handler is registered nowhere); twin: same service and stream name as a registered one, another handler, registered nowhere; foreign: two descriptors of a service registered nowhere, one with a registered stream's simple name, one with an unknown one. Every handler has its own counter. Crossed with: in-process: every set x {plain, WithInterceptor} x the whole name list of (1), and the whole token grammar of (2) (plain); HTTP (where the descriptor never crosses the wire): every carrier and base path x set D x {plain, WithInterceptor} x the core names (thorough tier: x " + midDesc + " on the carriers with base paths /, /foo/, /c%d/x). Oracle unchanged: the name alone decides, whatever the descriptor. by_class_and_outcome prefixes: desc=<relation of the descriptor to the name: client-named | own | other-registered | unregistered>:, intercepted: for a decorated registry. " +
			"Oracle in all: a handler runs only for the exact string /<registered service>/<registered method> (names that merely percent-decode to one, or are cut to one at ? or #, are unknown: NotFound / Unimplemented, zero handler runs). " +
			"A case is non-trivial when the lookup ran against a non-empty registry (set != none), i.e. the name was actually matched against registered services/methods; each case is distinct by (transport, base, set, decoration, op, descriptor, name). by_class_and_outcome gives the measured split (token grammar classes are prefixed tokens:); near_miss_cases counts the cases whose name is not registered but becomes a registered full name of the right arity when its escapes are decoded once or it is cut at the first ? or #.",
		"by_class_and_outcome":   classes,
		"names":                  len(nameList),
		"token_alphabet":         alpha,
		"token_alphabet_long":    toksLong.alpha,
		"token_strings":          toks.size(),
		"token_strings_long":     longSize,
		"token_evaluations":      tokEvals,
		"near_miss_cases":        near,
		"near_miss_cases_tokens": nearTok,
		"configurations":         len(configs),
		"descriptors":            map[string]interface{}{"D": descIDs("D"), "T": descIDs("T")},
		"descriptor_evaluations": descEvals,
		"descriptor_evaluations_with_handler_carrying_descriptor": descHandlerEvals,
		"decorated_registry_evaluations":                          decoEvals,
		"core_names":                                              len(core),
		"mid_names":                                               len(midList),
		"jobs":                                                    len(jobs),
		"violations_not_listed":                                   truncated,
		"samples":                                                 samples,
		"exhaustive":                                              true,
	}, []string{
		"HTTP side runs on an httptest recorder without a network (net/http's own connection handling is not exercised), but the server is handed only what crosses the wire: the request-target the client's URL serialises to, parsed again as net/http's server does; http.ServeMux is the one selected by the harness module's go line",
		"base paths that http.ServeMux itself refuses at registration are outside the grammar",
		"a non-canonical name (missing leading slash, doubled or trailing slashes) that denotes a registered method after slash normalisation may either run exactly that handler or fail with a status error; grpc-go itself accepts a missing leading slash",
		"the same tolerance for literal dot-segments: a name that path cleaning (which the HTTP client applies together with the slash normalisation) turns into a registered name, e.g. /pkg.A/./M or /x/../pkg.A/M, may run exactly that handler or fail with a status error (class dot-segments-denoting-registered); escaped dots (%2E) are not dot-segments and must not be resolved",
		"a registered method called with the other arity (unary name via NewStream or vice versa) may run that handler or fail with a status error; no other handler may run",
		"an unknown name that the HTTP client refuses before sending anything (no request reached the carrier) may carry any non-OK status code instead of NotFound",
		"the descriptor dimension is completely crossed with names, sets and decoration in-process, where the descriptor reaches the code that picks the handler; over HTTP the descriptor cannot cross the wire, so there it is swept over the richest set D with a shorter name list on every carrier and base path; the decoration dimension is crossed with the token grammar nowhere",
		"every descriptor of the dimension has ClientStreams and ServerStreams set, like the bare one (the flags legitimately steer the client side of the stream)",
		"the token grammar runs against its own minimal registry {s: m, t}, not crossed with the registry sets of the segment grammar; the single-edit sweep covers the escape dimension for the pkg.A/pkg.B registries on every configuration, but only one edit at a time",
	}))
}
