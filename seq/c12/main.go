// C12: method names resolve to exactly the registered handler, or fail cleanly.
//
// Bounded-exhaustive: every method-name string of a segment grammar (plus every
// prefix/suffix of the registered full names) x {Invoke, NewStream} x
// registered sets {none, {A}, {A,B}, D} x {in-process, httpgrpc.Server, ServeMux
// filled by httpgrpc.HandleServices} x base paths (identical on client and
// server). Per-method invocation counters say which handler ran.
//
// Escape dimension (tokens.go): the segment grammar spells names only with the
// characters of the registered names. Names are also enumerated at character
// granularity over an alphabet with percent-escapes (of the registered names'
// characters, of '/', '.', '%', and invalid ones), '?', '#', '+' and ' ' against
// a registry with 4-token full names, and every single such edit of the
// pkg.A/pkg.B full names joins the segment grammar's name list. The oracle is
// the same: only the exact string "/service/method" denotes the handler; a name
// that merely decodes (or is cut at '?' / '#') to a registered one is unknown.
// The HTTP carrier hands the server the request-target as it crosses the wire.
//
// Descriptor and decoration dimensions (descs.go): NewStream's *grpc.StreamDesc
// argument (bare client-made / client-made with a registered StreamName / the
// registered descriptor object of the named or of another stream or service / a
// handler-carrying descriptor registered nowhere) and the way the services got
// into the registry (RegisterService directly / through grpchan.WithInterceptor
// with counting interceptors), crossed with names, registry sets and transports.
// Registry set D (two streams in one service, a stream of the same simple name
// in another) joins the sets. The oracle is unchanged: the name alone decides.
//
// Server-option and registration-sequence dimensions (seqs.go): the ErrorRenderer
// option of httpgrpc.NewServer / HandleServices (none / default / writes nothing
// / always 200 with a body / its own 4xx) and the interceptors as a server
// option, crossed with names, sets, carriers and base paths; and registration as
// part of the run instead of a one-off prelude: every interleaving of up to 2
// registrations and 3 calls on one long-lived channel / server / mux, each call
// judged against the set registered at that moment.
package main

import (
	"context"
	"fmt"
	"io"
	"net/http"
	"net/url"
	"os"
	"path"
	"regexp"
	"runtime"
	"runtime/debug"
	"runtime/pprof"
	"sort"
	"strings"
	"sync"
	"sync/atomic"
	"time"

	"github.com/fullstorydev/grpchan"
	"github.com/fullstorydev/grpchan/httpgrpc"
	"github.com/fullstorydev/grpchan/inprocgrpc"
	"google.golang.org/grpc"
	"google.golang.org/grpc/codes"
	"google.golang.org/grpc/status"
	"google.golang.org/protobuf/types/known/wrapperspb"

	"verif/seq/common"
	"verif/vlib"
)

// ---- the registry model -----------------------------------------------------

type svcDef struct {
	Name    string
	Unary   []string
	Streams []string
}

var (
	defA = svcDef{Name: "pkg.A", Unary: []string{"M"}, Streams: []string{"S"}}
	defB = svcDef{Name: "pkg.B", Unary: []string{"M", "M2"}}
	sets = map[string][]svcDef{"none": nil, "A": {defA}, "AB": {defA, defB}}
	// simplest first ("D" is defined in descs.go)
	setOrder = []string{"none", "A", "AB", "D"}
)

// kindOf returns "unary", "stream" or "" for service/method in the set.
func kindOf(set, svc, method string) string {
	for _, d := range sets[set] {
		if d.Name != svc {
			continue
		}
		for _, m := range d.Unary {
			if m == method {
				return "unary"
			}
		}
		for _, m := range d.Streams {
			if m == method {
				return "stream"
			}
		}
	}
	return ""
}

type caseT struct {
	Transport string `json:"transport"` // inproc | http-server | http-mux
	Base      string `json:"base,omitempty"`
	Set       string `json:"set"`
	Op        string `json:"op"` // Invoke | NewStream
	Name      string `json:"name"`
	// cross-mount cases: the client is configured with this base path, which
	// denotes another mount than the server's Base
	ClientBase string `json:"client_base,omitempty"`
	// how the services got into the registry: "" RegisterService directly,
	// "interceptor" through grpchan.WithInterceptor (descs.go)
	Deco string `json:"deco,omitempty"`
	// NewStream: the StreamDesc the client passes (descs.go); "" is the bare
	// client-made one
	Desc string `json:"desc,omitempty"`
	// server options (seqs.go): the ErrorRenderer option handed to httpgrpc.NewServer
	// / HandleServices; "" is no option at all
	Renderer string `json:"renderer,omitempty"`
	// registration sequences (seqs.go): what happened before this call on the same
	// long-lived channel / server / mux, registrations and earlier calls in order.
	// Set is then the set registered at the moment of this call.
	History []stepT `json:"history,omitempty"`
	// the channel the call is made on (wrap.go): "" the bare channel; else the layers
	// of grpchan.InterceptClientConn around it, outermost first ("pass" / "redirect").
	// With a redirecting layer the stub calls Name and that layer hands Onward onward.
	Wrap   string `json:"wrap,omitempty"`
	Onward string `json:"onward,omitempty"`
}

// ---- the real thing under test ---------------------------------------------

type config struct {
	cc       grpc.ClientConnInterface
	rt       http.RoundTripper // HTTP carriers: straight into the server's handler
	counts   map[string]*int64
	keys     []string
	mu       sync.Mutex
	srvPanic string
	sent     int64 // requests that reached the carrier (HTTP transports)
	// descs.go: what a client may pass to NewStream; the interceptors' counters
	descs   map[string]*grpc.StreamDesc
	descIDs []string
	icounts map[string]int64
	itotal  int64 // runs of any interceptor
	ctrs    []*int64
	before  []int64
	// seqs.go: registers one service of the universe on the long-lived object;
	// runs of the ErrorRenderer option
	register func(svc string) error
	rendered int64
	// wrap.go: the wrapped views of cc; runs of the client interceptors
	wrapped map[string]grpc.ClientConnInterface
	cint    int64
}

type recoverH struct {
	h   http.Handler
	cfg *config
}

func (r recoverH) ServeHTTP(w http.ResponseWriter, req *http.Request) {
	defer func() {
		if p := recover(); p != nil {
			r.cfg.mu.Lock()
			r.cfg.srvPanic = fmt.Sprint(p)
			r.cfg.mu.Unlock()
			w.WriteHeader(500)
		}
	}()
	r.h.ServeHTTP(w, req)
}

func build(transport, base, set, deco string) (*config, error) {
	return buildCfg(transport, base, set, deco, "", false)
}

// buildCfg makes one real instance. Not staged: every service of the set is
// registered before the first call (HandleServices: one HandlerMap, one call of
// the helper). Staged (seqs.go): the descriptors of the set are made but nothing
// is registered; cfg.register(service) does that at any later time on the same
// long-lived channel / server / mux.
func buildCfg(transport, base, set, deco, renderer string, staged bool) (cfg *config, err error) {
	defer func() {
		if p := recover(); p != nil {
			err = fmt.Errorf("registration panicked (precondition of the mux, not decided here): %v", p)
		}
	}()
	cfg = &config{counts: map[string]*int64{}, icounts: map[string]int64{}}
	var descs []*grpc.ServiceDesc
	streamFn := func(key string) common.StreamFn {
		n := new(int64)
		cfg.counts[key] = n
		cfg.keys = append(cfg.keys, key)
		return func(str grpc.ServerStream) error {
			atomic.AddInt64(n, 1)
			for {
				var in wrapperspb.StringValue
				err := str.RecvMsg(&in)
				if err == io.EOF {
					break
				}
				if err != nil {
					return err
				}
			}
			return str.SendMsg(wrapperspb.String(key))
		}
	}
	for _, d := range sets[set] {
		d := d
		s := &common.Svc{Name: d.Name, Unary: map[string]common.UnaryFn{}, Streams: map[string]common.StreamDef{}}
		for _, m := range d.Unary {
			key := d.Name + "/" + m
			n := new(int64)
			cfg.counts[key] = n
			cfg.keys = append(cfg.keys, key)
			s.Unary[m] = func(ctx context.Context, dec func(interface{}) error) (interface{}, error) {
				atomic.AddInt64(n, 1)
				var in wrapperspb.StringValue
				if err := dec(&in); err != nil {
					return nil, err
				}
				return wrapperspb.String(key), nil
			}
		}
		for _, m := range d.Streams {
			s.Streams[m] = common.StreamDef{ClientStreams: true, ServerStreams: true, Fn: streamFn(d.Name + "/" + m)}
		}
		descs = append(descs, s.Desc())
	}
	cfg.buildDescs(set, descs, !staged, func(key, name string) grpc.StreamDesc {
		fn := streamFn(key)
		return grpc.StreamDesc{StreamName: name, ClientStreams: true, ServerStreams: true,
			Handler: func(srv interface{}, stream grpc.ServerStream) error { return fn(stream) }}
	})
	sort.Strings(cfg.keys)
	// the decoration dimension: every service goes through this view of the registry
	via := func(reg grpchan.ServiceRegistry) grpchan.ServiceRegistry {
		switch deco {
		case "", "option":
			return reg
		case "interceptor":
			return grpchan.WithInterceptor(reg, cfg.unaryInt, cfg.streamInt)
		}
		panic("harness: unknown decoration " + deco)
	}
	// "option": the interceptors are a server option instead (seqs.go)
	var optUnary grpc.UnaryServerInterceptor
	var optStream grpc.StreamServerInterceptor
	if deco == "option" {
		optUnary, optStream = cfg.unaryInt, cfg.streamInt
	}
	// the ErrorRenderer option (seqs.go)
	var hopts []httpgrpc.HandlerOption
	if renderer != "" {
		if transport == "inproc" {
			return nil, fmt.Errorf("the in-process channel has no ErrorRenderer option")
		}
		fn := cfg.rendererFn(renderer)
		if fn == nil {
			return nil, fmt.Errorf("unknown renderer %q", renderer)
		}
		hopts = append(hopts, httpgrpc.ErrorRenderer(fn))
	}
	byName := map[string]*grpc.ServiceDesc{}
	for _, d := range descs {
		byName[d.ServiceName] = d
	}
	var regOne func(d *grpc.ServiceDesc)
	finish := func() {}

	var h http.Handler
	switch transport {
	case "inproc":
		ch := &inprocgrpc.Channel{}
		if deco == "option" {
			ch.WithServerUnaryInterceptor(optUnary).WithServerStreamInterceptor(optStream)
		}
		regOne = func(d *grpc.ServiceDesc) { via(ch).RegisterService(d, common.Impl{}) }
		cfg.cc = ch
	case "http-server":
		sopts := []httpgrpc.ServerOption{httpgrpc.WithBasePath(base)}
		if deco == "option" {
			sopts = append(sopts, httpgrpc.WithServerUnaryInterceptor(optUnary), httpgrpc.WithServerStreamInterceptor(optStream))
		}
		for _, o := range hopts {
			sopts = append(sopts, o)
		}
		s := httpgrpc.NewServer(sopts...)
		regOne = func(d *grpc.ServiceDesc) { via(s).RegisterService(d, common.Impl{}) }
		h = s
	case "http-mux":
		mux := http.NewServeMux()
		if staged {
			// the bulk-registration helper once per registration, each with a
			// HandlerMap of its own, on the one long-lived mux
			regOne = func(d *grpc.ServiceDesc) {
				reg := grpchan.HandlerMap{}
				via(reg).RegisterService(d, common.Impl{})
				httpgrpc.HandleServices(mux.HandleFunc, base, reg, optUnary, optStream, hopts...)
			}
		} else {
			reg := grpchan.HandlerMap{}
			regOne = func(d *grpc.ServiceDesc) { via(reg).RegisterService(d, common.Impl{}) }
			finish = func() { httpgrpc.HandleServices(mux.HandleFunc, base, reg, optUnary, optStream, hopts...) }
		}
		h = mux
	default:
		return nil, fmt.Errorf("unknown transport %q", transport)
	}
	cfg.register = func(svc string) (err error) {
		defer func() {
			if p := recover(); p != nil {
				err = fmt.Errorf("%v", p)
			}
		}()
		d := byName[svc]
		if d == nil {
			panic("harness: no service " + svc + " in the universe " + set)
		}
		regOne(d)
		return nil
	}
	if !staged {
		for _, d := range descs {
			regOne(d)
		}
		finish()
	}
	if h != nil {
		cfg.rt = wireRT(recoverH{h: h, cfg: cfg}, &cfg.sent)
		cfg.cc = cfg.client(base)
	}
	return cfg, nil
}

func (cfg *config) client(base string) grpc.ClientConnInterface {
	return &httpgrpc.Channel{Transport: cfg.rt, BaseURL: &url.URL{Scheme: "http", Host: "example.test", Path: base}}
}

type obsT struct {
	Ran map[string]int64 `json:"ran,omitempty"`
	// runs of the interceptors of a decorated registry, by "interceptor <FullMethod>"
	Intercepted map[string]int64 `json:"intercepted,omitempty"`
	Err         string           `json:"err,omitempty"`
	Code        string           `json:"code,omitempty"`
	Reply       string           `json:"reply,omitempty"`
	Panic       string           `json:"panic,omitempty"`
	Sent        int64            `json:"requests_sent"`
	// runs of the ErrorRenderer option during the call
	Rendered int64 `json:"renderer_runs,omitempty"`
	// runs of the client interceptors of a wrapped channel during the call
	ClientInt int64 `json:"client_interceptor_runs,omitempty"`
	err       error
	isStat   bool
	code     codes.Code
	srvSide  bool
}

func run(cfg *config, c caseT) (o obsT) {
	if cfg.ctrs == nil {
		for _, k := range cfg.keys {
			cfg.ctrs = append(cfg.ctrs, cfg.counts[k])
		}
		cfg.before = make([]int64, len(cfg.ctrs))
	}
	before := cfg.before // one case at a time per configuration
	for i, n := range cfg.ctrs {
		before[i] = atomic.LoadInt64(n)
	}
	itotal := atomic.LoadInt64(&cfg.itotal)
	var ibefore map[string]int64
	if c.Deco != "" {
		ibefore = cfg.interceptorSnapshot()
	}
	cfg.mu.Lock()
	cfg.srvPanic = ""
	cfg.mu.Unlock()
	sentBefore := atomic.LoadInt64(&cfg.sent)
	renderedBefore := atomic.LoadInt64(&cfg.rendered)
	cintBefore := atomic.LoadInt64(&cfg.cint)
	defer func() {
		o.ClientInt = atomic.LoadInt64(&cfg.cint) - cintBefore
		o.Sent = atomic.LoadInt64(&cfg.sent) - sentBefore
		o.Rendered = atomic.LoadInt64(&cfg.rendered) - renderedBefore
	}()
	ctx, cancel := context.WithCancel(context.Background())
	defer cancel()
	cc := cfg.cc
	if c.ClientBase != "" {
		cc = cfg.client(c.ClientBase)
	}
	if c.Wrap != "" {
		key := c.Wrap + "|" + c.ClientBase
		if cfg.wrapped[key] == nil {
			if cfg.wrapped == nil {
				cfg.wrapped = map[string]grpc.ClientConnInterface{}
			}
			cfg.wrapped[key] = cfg.wrappedCC(cc, c.Wrap)
		}
		cc = cfg.wrapped[key]
		ctx = context.WithValue(ctx, onwardKey{}, c.Onward)
	}
	func() {
		defer func() {
			if p := recover(); p != nil {
				o.Panic = fmt.Sprint(p)
			}
		}()
		if c.Op == "Invoke" {
			var out wrapperspb.StringValue
			o.err = cc.Invoke(ctx, c.Name, wrapperspb.String("req"), &out)
			if o.err == nil {
				o.Reply = out.Value
			}
			return
		}
		desc := cfg.descs[c.Desc]
		if desc == nil {
			panic("harness: no descriptor " + c.Desc + " in this configuration")
		}
		if desc.Handler == nil {
			d := *desc // client-made: a fresh object per call
			desc = &d
		}
		cs, err := cc.NewStream(ctx, desc, c.Name)
		if err != nil {
			o.err = err
			return
		}
		_ = cs.SendMsg(wrapperspb.String("req")) // the stream's verdict comes from RecvMsg
		_ = cs.CloseSend()
		var out wrapperspb.StringValue
		err = cs.RecvMsg(&out)
		if err == io.EOF {
			return // ended OK without a message: no reply
		}
		if err != nil {
			o.err = err
			return
		}
		o.Reply = out.Value
		var out2 wrapperspb.StringValue
		if err := cs.RecvMsg(&out2); err != io.EOF {
			if err == nil {
				err = fmt.Errorf("second message %q", out2.Value)
			}
			o.err = err
		}
	}()
	cfg.mu.Lock()
	p := cfg.srvPanic
	cfg.mu.Unlock()
	if p != "" && o.Panic == "" {
		o.Panic = p
		o.srvSide = true
	}
	for i, n := range cfg.ctrs {
		if d := atomic.LoadInt64(n) - before[i]; d != 0 {
			if o.Ran == nil {
				o.Ran = map[string]int64{}
			}
			o.Ran[cfg.keys[i]] = d
		}
	}
	if c.Deco != "" || atomic.LoadInt64(&cfg.itotal) != itotal {
		for k, n := range cfg.interceptorSnapshot() {
			if d := n - ibefore[k]; d != 0 {
				if o.Intercepted == nil {
					o.Intercepted = map[string]int64{}
				}
				o.Intercepted[k] = d
			}
		}
	}
	if o.err != nil {
		o.Err = o.err.Error()
		var st *status.Status
		st, o.isStat = status.FromError(o.err)
		if o.isStat {
			o.code = st.Code()
			o.Code = st.Code().String()
		}
	}
	return o
}

// ---- the oracle ------------------------------------------------------------

// wellFormed: ^/[^/]+/[^/]+$ (by hand: it is evaluated millions of times)
var wellFormed wfT

type wfT struct{}

func (wfT) MatchString(s string) bool {
	if len(s) < 4 || s[0] != '/' {
		return false
	}
	i := strings.IndexByte(s[1:], '/')
	if i < 1 {
		return false
	}
	rest := s[i+2:]
	return rest != "" && strings.IndexByte(rest, '/') < 0
}

// normalise: leading slash added, repeated and trailing slashes dropped.
func normalise(name string) string {
	b := make([]byte, 0, len(name)+1)
	for i := 0; i < len(name); i++ {
		if name[i] == '/' {
			continue
		}
		if i == 0 || name[i-1] == '/' {
			b = append(b, '/') // a segment starts
		}
		b = append(b, name[i])
	}
	if len(b) == 0 {
		return "/"
	}
	return string(b)
}

func shape(name string) string {
	return regexp.MustCompile(`[^/]+`).ReplaceAllString(name, "s")
}

// classify says what the reference model allows for the case.
//
//	must  != "": that handler has to run exactly once, the call succeeds
//	may   != "": that handler may run once with success (tolerated: the name is
//	             not canonical but denotes it after slash normalisation, or the
//	             method exists with the other arity); failing cleanly is as good
//	code  != nil: a clean failure has to carry that code
func classify(c caseT) (class, must, may string, code *codes.Code) {
	if c.Wrap != "" {
		// the name finally handed to the bare channel decides (wrap.go)
		c.Name, c.Wrap, c.Onward = c.effName(), "", ""
	}
	opKind := "unary"
	if c.Op == "NewStream" {
		opKind = "stream"
	}
	unknown := codes.NotFound
	if c.Transport == "inproc" {
		unknown = codes.Unimplemented
	}
	if c.ClientBase != "" {
		// the request goes to clean(ClientBase + name), the handlers live under
		// clean(Base + service/method): another mount, nothing may be reached
		return "cross-mount", "", "", &unknown
	}
	if wellFormed.MatchString(c.Name) {
		p := strings.Split(c.Name, "/")
		switch k := kindOf(c.Set, p[1], p[2]); {
		case k == opKind:
			return "registered", p[1] + "/" + p[2], "", nil
		case k != "":
			return "other-arity", "", p[1] + "/" + p[2], nil
		default:
			return "unknown", "", "", &unknown
		}
	}
	n := normalise(c.Name)
	if wellFormed.MatchString(n) {
		p := strings.Split(n, "/")
		if kindOf(c.Set, p[1], p[2]) == opKind {
			return "malformed-denoting-registered", "", p[1] + "/" + p[2], nil
		}
	}
	// the same tolerance for the literal dot-segments "." and "..", which the
	// path cleaning that removes doubled slashes removes as well (only literal
	// ones: an escaped dot is not a dot-segment)
	if n := path.Clean("/" + c.Name); n != normalise(c.Name) && wellFormed.MatchString(n) {
		p := strings.Split(n, "/")
		if kindOf(c.Set, p[1], p[2]) == opKind {
			return "dot-segments-denoting-registered", "", p[1] + "/" + p[2], nil
		}
	}
	return "malformed", "", "", nil
}

// check returns "" when the case is fine, else a clause name.
func check(c caseT, o obsT) (clause, detail string) {
	class, must, may, code := classify(c)
	return checkAs(c, o, class, must, may, code)
}

func checkAs(c caseT, o obsT, class, must, may string, code *codes.Code) (clause, detail string) {
	if clause, detail = checkBase(c, o, class, must, may, code); clause != "" {
		return clause, detail
	}
	return checkIntercept(c, o)
}

func checkBase(c caseT, o obsT, class, must, may string, code *codes.Code) (clause, detail string) {
	c.Name = c.effName()
	if o.Panic != "" {
		side := "client"
		if o.srvSide {
			side = "server"
		}
		return "panic", fmt.Sprintf("%s-side panic: %s", side, o.Panic)
	}
	total := int64(0)
	for _, n := range o.Ran {
		total += n
	}
	if must != "" {
		for k, n := range o.Ran {
			if k != must {
				return "wrong-handler", fmt.Sprintf("handler %s ran %d time(s) for %s", k, n, c.Name)
			}
		}
		if o.Ran[must] == 0 {
			return "handler-not-run", fmt.Sprintf("registered %s did not run; err=%v", must, o.err)
		}
		if o.Ran[must] != 1 {
			return "ran-more-than-once", fmt.Sprintf("%s ran %d times", must, o.Ran[must])
		}
		if o.err != nil {
			return "registered-call-failed", fmt.Sprintf("handler ran but the call failed: %v", o.err)
		}
		if o.Reply != must {
			return "wrong-reply", fmt.Sprintf("reply %q, want %q", o.Reply, must)
		}
		return "", ""
	}
	for k, n := range o.Ran {
		if k != may {
			return "handler-ran-for-" + class, fmt.Sprintf("handler %s ran %d time(s) for %q", k, n, c.Name)
		}
	}
	if may != "" && total > 0 {
		if o.Ran[may] != 1 {
			return "ran-more-than-once", fmt.Sprintf("%s ran %d times", may, o.Ran[may])
		}
		if class == "malformed-denoting-registered" || class == "dot-segments-denoting-registered" {
			if o.err != nil {
				return "registered-call-failed", fmt.Sprintf("handler ran but the call failed: %v", o.err)
			}
			if o.Reply != may {
				return "wrong-reply", fmt.Sprintf("reply %q, want %q", o.Reply, may)
			}
		} else if o.err != nil && (!o.isStat || o.code == codes.OK) {
			return "non-status-error", fmt.Sprintf("%T: %v", o.err, o.err)
		}
		return "", ""
	}
	// nothing ran: has to be a clean failure
	if o.err == nil {
		return "no-error", fmt.Sprintf("no handler ran, yet the call reported success (reply %q)", o.Reply)
	}
	if !o.isStat || o.code == codes.OK {
		return "non-status-error", fmt.Sprintf("%T: %v", o.err, o.err)
	}
	if code != nil && o.code != *code {
		if c.Transport != "inproc" && o.Sent == 0 {
			// the client could not put the string on the wire at all and said so
			// with a status error: nothing reached any server
			return "", ""
		}
		return "wrong-code", fmt.Sprintf("code %s, want %s (%v)", o.code, *code, o.err)
	}
	return "", ""
}

func fingerprint(c caseT, clause string, o obsT) string {
	fp := fingerprintOfCall(c, clause, o)
	if len(c.History) > 0 {
		// a registration sequence: what went before on the same long-lived object
		fp += "|after=" + historySig(c.History)
	}
	return fp
}

func fingerprintOfCall(c caseT, clause string, o obsT) string {
	where := c.Transport
	if c.Transport != "inproc" {
		where += "|base=" + c.Base
	}
	if c.Renderer != "" {
		where += "|renderer=" + c.Renderer
	}
	if c.ClientBase != "" {
		where += "|client-base=" + c.ClientBase
	}
	if c.Wrap != "" {
		where += "|wrap=" + c.Wrap
	}
	if redirects(c.Wrap) {
		// the classes of the called and of the onward name identify the input; their
		// spelling, the registered set, the HTTP carrier and the base path collapse
		// (the replay object has the exact case)
		where = "inproc|wrap=" + c.Wrap
		if c.Transport != "inproc" {
			where = "http|wrap=" + c.Wrap
		}
		if clause == "panic" {
			msg := o.Panic
			if len(msg) > 80 {
				msg = msg[:80]
			}
			return fmt.Sprintf("C12|%s|%s|called-shape=%q|onward-shape=%q|panic|%s", where, c.Op, shape(c.Name), shape(c.Onward), msg)
		}
		oc, _, _, _ := classify(c)
		return fmt.Sprintf("C12|%s|%s|called=%s|onward=%s|%s", where, c.Op, calledClass(c), oc, clause)
	}
	if clause == "panic" {
		// the registered set and the spelling of the segments do not matter for a
		// parse panic; the slash shape of the name and the panic text do.
		msg := o.Panic
		if len(msg) > 80 {
			msg = msg[:80]
		}
		if c.Desc != "" {
			// a descriptor other than the bare one is part of the input
			return fmt.Sprintf("C12|%s|%s|desc=%s|shape=%q|panic|%s", where, c.Op, c.Desc, shape(c.Name), msg)
		}
		return fmt.Sprintf("C12|%s|%s|shape=%q|panic|%s", where, c.Op, shape(c.Name), msg)
	}
	set := "set=" + c.Set
	if c.Deco != "" {
		set += "|deco=" + c.Deco
	}
	if c.Desc != "" {
		// the descriptor dimension: the relation of the descriptor to the name and
		// the clause (which carries the class of the name) identify the input; the
		// spelling of the name collapses (the replay object has the exact case)
		rel := descRelation(c.Set, c.Desc, c.Name)
		if rel == "client-named" {
			rel = c.Desc // no Handler: the StreamName is what could matter
		}
		return fmt.Sprintf("C12|%s|%s|%s|desc=%s|%s", where, set, c.Op, rel, clause)
	}
	if strings.HasPrefix(clause, "interceptor-") {
		// the handler / interceptor that ran matters, not the spelling of the name
		h := append(sortedKeys(o.Ran), sortedKeys(o.Intercepted)...)
		return fmt.Sprintf("C12|%s|%s|%s|ran=%s|%s", where, set, c.Op, h[0], clause)
	}
	return fmt.Sprintf("C12|%s|%s|%s|name=%q|%s", where, set, c.Op, c.Name, clause)
}

var errUnimpl = status.Error(codes.Unimplemented, "synthetic")

// unimplCode: the code an unknown name has to fail with on the transport
func unimplCode(transport string) codes.Code {
	if transport == "inproc" {
		return codes.Unimplemented
	}
	return codes.NotFound
}

// ---- the grammar -----------------------------------------------------------

var segAlphabet = []string{"", "pkg.A", "pkg.B", "A", "pkg", "M", "S", "M2", "x"}

func names(maxSegs int) []string { return namesOf(maxSegs, true) }

// namesOf: the segment strings, the prefixes and suffixes of the registered full
// names and (sweep) the single edits of the registered full names; without the
// sweep, every registered full name with one more segment before or after it
// joins instead, so that the shorter list has "extra segments" too.
func namesOf(maxSegs int, sweep bool) []string {
	segs := segAlphabet
	seen := map[string]bool{}
	var out []string
	add := func(s string) {
		if !seen[s] {
			seen[s] = true
			out = append(out, s)
		}
	}
	var rec func(prefix []string)
	rec = func(prefix []string) {
		if len(prefix) > 0 {
			add(strings.Join(prefix, "/"))
		}
		if len(prefix) == maxSegs {
			return
		}
		for _, s := range segs {
			rec(append(append([]string(nil), prefix...), s))
		}
	}
	rec(nil)
	for _, full := range fullNames(sets["D"]) { // a superset of the other sets' names
		for i := 0; i <= len(full); i++ {
			add(full[:i]) // proper prefixes, "" included
			if i > 0 {
				add(full[i:]) // proper suffixes
			}
		}
	}
	// single edits of the registered full names with escapes, URL specials and
	// dot-segments (tokens.go)
	if sweep {
		for _, s := range sweepNames(sets["D"]) {
			add(s)
		}
	} else {
		for _, f := range fullNames(sets["D"]) {
			for _, s := range segAlphabet {
				add(f + "/" + s)
				add("/" + s + f)
			}
		}
	}
	sort.SliceStable(out, func(i, j int) bool {
		a, b := out[i], out[j]
		if x, y := strings.Count(a, "/"), strings.Count(b, "/"); x != y {
			return x < y
		}
		if len(a) != len(b) {
			return len(a) < len(b)
		}
		return a < b
	})
	return out
}

type transportT struct{ kind, base string }

func basePaths(tier string) []string {
	bases := []string{"/", "/foo", "/foo/", "/a/b", "/a/b/", "/é/", "/a+b~c.d/",
		// a literal '%' (the client escapes it, the server sees it decoded)
		"/100%", "/c%d/x", "/x%s/", "/a%2Fb/", "/v%%1", "/v%1"}
	if tier == "thorough" {
		bases = append(bases, "/100%/rpc", "/%", "/%v/", "/a%20b/", "/a?b/", "/a#b/", "/pkg.A/", "/pkg.A/M", "//x//", "/a;b=c/", "/A&B/")
	}
	return bases
}

func transports(tier string) []transportT {
	out := []transportT{{"inproc", ""}}
	for _, b := range basePaths(tier) {
		out = append(out, transportT{"http-server", b}, transportT{"http-mux", b})
	}
	return out
}

// ---- driver ----------------------------------------------------------------

type result struct {
	c      caseT
	o      obsT
	clause string
	detail string
}

var progress int64
var stopProfile = func() {}

// the case each job is running, for the watchdog's report
type slotT struct {
	mu     sync.Mutex
	c      caseT
	active bool
}

func (s *slotT) set(c caseT) {
	s.mu.Lock()
	s.c, s.active = c, true
	s.mu.Unlock()
}

func (s *slotT) clear() {
	s.mu.Lock()
	s.active = false
	s.mu.Unlock()
}

var (
	slotsMu sync.Mutex
	slots   []*slotT
)

func newSlot() *slotT {
	s := &slotT{}
	slotsMu.Lock()
	slots = append(slots, s)
	slotsMu.Unlock()
	return s
}

// what the evidence counts per (op, grammar, decoration, descriptor relation, class, outcome)
type statKey struct {
	op, prefix, rel, class, outcome string
	deco                            string
}

// the by_class_and_outcome prefix of a decoration
var decoPrefix = map[string]string{"": "", "interceptor": "intercepted:", "option": "option-intercepted:"}

type statT struct {
	cls, smp string // keys of by_class_and_outcome and of the samples
	n        int
	sample   interface{}
}

func watchdog() {
	last := int64(-1)
	stale := 0
	for {
		time.Sleep(5 * time.Second)
		p := atomic.LoadInt64(&progress)
		if p != last {
			last, stale = p, 0
			continue
		}
		stale++
		if stale >= 6 {
			fmt.Fprintln(os.Stderr, "INCONCLUSIVE: no case completed for 30 s; in flight:")
			slotsMu.Lock()
			for _, s := range slots {
				s.mu.Lock()
				if s.active {
					fmt.Fprintf(os.Stderr, "  %+v\n", s.c)
				}
				s.mu.Unlock()
			}
			slotsMu.Unlock()
			os.Exit(2)
		}
	}
}

func main() {
	debug.SetMemoryLimit(3 << 30)
	debug.SetGCPercent(400) // the live heap is tiny; the cases allocate a lot
	rep := vlib.NewReporter("C12")
	go watchdog()
	if pf := os.Getenv("VERIF_C12_CPUPROFILE"); pf != "" { // for tuning the check itself
		if f, err := os.Create(pf); err == nil {
			pprof.StartCPUProfile(f)
			defer pprof.StopCPUProfile()
			stopProfile = pprof.StopCPUProfile
		}
	}

	if p := common.Arg("replay"); p != "" {
		var c caseT
		if err := common.LoadReplay(p, &c); err != nil {
			fmt.Fprintln(os.Stderr, "INCONCLUSIVE:", err)
			os.Exit(2)
		}
		if len(c.History) > 0 {
			// judged against what is registered at the moment of the call
			c.Set = setAfter(c.History)
		}
		newSlot().set(c)
		o, err := execCase(c)
		if err != nil {
			fmt.Fprintln(os.Stderr, "INCONCLUSIVE:", err)
			os.Exit(2)
		}
		clause, detail := check(c, o)
		class, must, may, _ := classify(c)
		fmt.Printf("replay: case=%+v class=%s must=%q may=%q descriptor=%s\n  observed: ran=%v intercepted=%v renderer_runs=%d err=%q code=%s reply=%q panic=%q\n  verdict: %s %s\n",
			c, class, must, may, descRelation(c.Set, c.Desc, c.Name), o.Ran, o.Intercepted, o.Rendered, o.Err, o.Code, o.Reply, o.Panic, clause, detail)
		if clause != "" {
			fmt.Printf("VIOLATION property=C12 replay=%s\n", p)
			os.Exit(1)
		}
		os.Exit(0)
	}

	var nameList []string
	// token grammar: every string of toks on every transport and base path, and
	// the strings of toksLong that are one token longer on in-process and on both
	// HTTP carriers with three base paths. The longer layer, and the whole quick
	// tier, spell escapes in upper-case hex only.
	var toks, toksLong *tokenSpace
	maxSegs := 4
	if rep.Tier == "thorough" {
		maxSegs = 5
		nameList = names(5) // 0..4 slashes
		toks = newTokenSpace(tokenAlphabet(true), 4)
		toksLong = newTokenSpace(tokenAlphabet(false), 5)
	} else {
		nameList = names(4) // 0..3 slashes
		toks = newTokenSpace(tokenAlphabet(false), 3)
		toksLong = newTokenSpace(tokenAlphabet(false), 4)
	}
	trs := transports(rep.Tier)
	ops := []string{"Invoke", "NewStream"}
	// (toksLong enumerates the shorter strings too; those are run from toks)
	for _, ts := range []*tokenSpace{toksLong} {
		if msg := selfTest(ts); msg != "" {
			fmt.Fprintln(os.Stderr, "INCONCLUSIVE: self-test of the escape dimension failed:", msg)
			os.Exit(2)
		}
	}
	if msg := selfTestDescs(); msg != "" {
		fmt.Fprintln(os.Stderr, "INCONCLUSIVE: self-test of the descriptor / decoration dimensions failed:", msg)
		os.Exit(2)
	}
	if msg := selfTestWrap(); msg != "" {
		fmt.Fprintln(os.Stderr, "INCONCLUSIVE: self-test of the channel dimension failed:", msg)
		os.Exit(2)
	}
	if msg := selfTestSeqs(); msg != "" {
		fmt.Fprintln(os.Stderr, "INCONCLUSIVE: self-test of the server-option / registration-sequence dimensions failed:", msg)
		os.Exit(2)
	}
	// shorter name lists for the parts of the new dimensions that are swept rather
	// than crossed: the core names, and (thorough tier) the quick tier's whole list
	core := namesOf(3, false)
	midList := nameList
	if rep.Tier == "thorough" {
		midList = names(4)
	}

	// one job per (transport, base, set) for the segment grammar, and per
	// (transport, base, op, slice of the index range) for the token grammar:
	// independent real instances; results are gathered and reported in
	// enumeration order, so the run is deterministic.
	type job struct {
		tr   transportT
		set  string
		deco string
		// segment grammar jobs: names x ops with the bare descriptor, or (descs)
		// names x NewStream x every other descriptor of the universe
		names []string
		descs bool
		// token grammar jobs: the strings lo..hi-1 of ts, one op
		ts     *tokenSpace
		op     string
		lo, hi int64
		// the ErrorRenderer option of the instance (seqs.go)
		renderer string
		// channel-dimension jobs (wrap.go): the layers around the channel; with a
		// redirecting layer, called x names (names are the onward names)
		wrap   string
		called []string
		// registration-sequence jobs (seqs.go): every case builds its own instance
		seq    *seqJobT
		dur    time.Duration // for tuning the check itself (VERIF_C12_TIMING)
		seqNew int           // cases whose call names a service that an earlier call named before it was registered
		res    []result      // violations only
		more   int           // violations beyond maxResPerJob (not kept)
		n      int
		cls    map[string]int
		nt     int
		near   int // names that are not registered but decode / truncate to a registered one
		smp    map[string]interface{}
		err    error
	}
	const maxResPerJob = 500
	var jobs []*job
	newJob := func(tr transportT, set, deco string, names []string) *job {
		j := &job{tr: tr, set: set, deco: deco, names: names, cls: map[string]int{}, smp: map[string]interface{}{}}
		jobs = append(jobs, j)
		return j
	}
	longOn := map[transportT]bool{{"inproc", ""}: true}
	for _, b := range []string{"/", "/foo/", "/c%d/x"} {
		longOn[transportT{"http-server", b}] = true
		longOn[transportT{"http-mux", b}] = true
	}
	decos := []string{"", "interceptor"}
	richSets := []string{"AB", "D"}
	for _, tr := range trs {
		for _, set := range setOrder {
			if set == "D" && !longOn[tr] {
				newJob(tr, set, "", midList) // (thorough: the quick tier's list)
			} else {
				newJob(tr, set, "", nameList)
			}
		}
	}
	// decoration: the two richest registries registered through WithInterceptor;
	// the whole name list in-process, the quick tier's whole list on the HTTP
	// carriers where the long token strings run, the core names elsewhere
	for _, tr := range trs {
		for _, set := range richSets {
			switch {
			case tr.kind == "inproc":
				newJob(tr, set, "interceptor", nameList)
			case longOn[tr]:
				newJob(tr, set, "interceptor", midList)
			default:
				newJob(tr, set, "interceptor", core)
			}
		}
	}
	// descriptors x decoration: in-process every set and the whole name list; over
	// HTTP, where the descriptor never crosses the wire, the richest set with the
	// core names (thorough: the quick tier's whole list where the long token
	// strings run)
	for _, tr := range trs {
		for _, deco := range decos {
			switch {
			case tr.kind == "inproc":
				for _, set := range setOrder {
					newJob(tr, set, deco, nameList).descs = true
				}
			case longOn[tr] && rep.Tier == "thorough":
				newJob(tr, "D", deco, midList).descs = true
			default:
				newJob(tr, "D", deco, core).descs = true
			}
		}
	}
	const slice = 60000
	addTok := func(tr transportT, ts *tokenSpace, from int64, descs bool, renderer ...string) {
		for _, op := range ops {
			if descs && op != "NewStream" {
				continue
			}
			for lo := from; lo < ts.size(); lo += slice {
				j := newJob(tr, "T", "", nil)
				j.ts, j.op, j.lo, j.hi, j.descs = ts, op, lo, lo+slice, descs
				if len(renderer) > 0 {
					j.renderer = renderer[0]
				}
				if j.hi > ts.size() {
					j.hi = ts.size()
				}
			}
		}
	}
	for _, tr := range trs {
		addTok(tr, toks, 0, false)
		if longOn[tr] {
			addTok(tr, toksLong, toksLong.offs[toksLong.maxLen], false) // the longest strings only
		}
		if tr.kind == "inproc" {
			// the token strings x every other descriptor of T's universe
			addTok(tr, toks, 0, true)
			addTok(tr, toksLong, toksLong.offs[toksLong.maxLen], true)
		}
	}
	// server options (seqs.go). The ErrorRenderer option: every HTTP carrier and
	// base path x every renderer x the sets none, AB, D (thorough: every set) x
	// the core names (set D with the quick tier's whole list on the root base
	// path; thorough: where the long token strings run), and (thorough) the token
	// grammar where the long token strings run
	rendererSets := []string{"none", "AB", "D"}
	var toksRenderer *tokenSpace
	if rep.Tier == "thorough" {
		rendererSets = setOrder
		toksRenderer = newTokenSpace(tokenAlphabet(false), 4) // the quick tier's long layer and below
	}
	for _, tr := range trs {
		if tr.kind == "inproc" {
			continue
		}
		for _, r := range renderers {
			for _, set := range rendererSets {
				if set == "D" && (tr.base == "/" || (rep.Tier == "thorough" && longOn[tr])) {
					newJob(tr, set, "", midList).renderer = r
				} else {
					newJob(tr, set, "", core).renderer = r
				}
			}
			if tr.base == "/" && rep.Tier == "thorough" {
				addTok(tr, toksRenderer, 0, false, r)
			}
		}
	}
	// the interceptors as a server option: the two richest registries, the whole
	// name list in-process, the core names on the HTTP carriers
	for _, tr := range trs {
		for _, set := range richSets {
			if tr.kind == "inproc" {
				newJob(tr, set, "option", nameList)
			} else {
				newJob(tr, set, "option", core)
			}
		}
	}
	// registration sequences (seqs.go): one job per (instance kind, first step)
	var seqExpected int64
	seqGrammars := map[string]int{} // grammar -> number of instances (base paths) it runs on
	addSeq := func(tr transportT, deco, renderer string, size, maxRegs, minCalls, maxCalls int) {
		q := seqJobT{alpha: seqAlphabet(size), size: size, maxRegs: maxRegs, minCalls: minCalls, maxCalls: maxCalls}
		for f := range q.firstSteps() {
			qf := q
			qf.first = f
			j := newJob(tr, "seq", deco, nil)
			j.renderer, j.seq = renderer, &qf
		}
		seqExpected += seqCases(len(q.alpha), len(seqServices()), maxRegs, minCalls, maxCalls)
		seqGrammars[fmt.Sprintf("%s decoration=%q renderer=%q: alphabet %d (%d call symbols), <=%d registrations, %d..%d calls, %d cases per instance", tr.kind, deco, renderer, size, len(q.alpha), maxRegs, minCalls, maxCalls,
			seqCases(len(q.alpha), len(seqServices()), maxRegs, minCalls, maxCalls))]++
	}
	// which alphabet where: the biggest in-process and on the root base path
	// (thorough: alphabet 1 on the other base paths where the long token strings
	// run), alphabet 0 elsewhere; crossed with the ErrorRenderer option on the root
	// base path (thorough: also where the long token strings run)
	seqBig, seqRenderer := 1, 0
	if rep.Tier == "thorough" {
		seqBig, seqRenderer = 2, 1
	}
	for _, tr := range trs {
		root := tr.base == "/"
		switch {
		case tr.kind == "inproc":
			for _, deco := range []string{"", "interceptor", "option"} {
				addSeq(tr, deco, "", seqBig, 2, 1, 3)
			}
			if rep.Tier == "thorough" {
				addSeq(tr, "", "", 1, 2, 4, 4) // one more call over the quick tier's alphabet
			}
			continue
		case root:
			addSeq(tr, "", "", seqBig, 2, 1, 3)
		case rep.Tier == "thorough" && longOn[tr]:
			addSeq(tr, "", "", 1, 2, 1, 3)
		default:
			addSeq(tr, "", "", 0, 2, 1, 3)
		}
		for _, r := range renderers {
			if root {
				addSeq(tr, "", r, seqRenderer, 2, 1, 3)
			} else if rep.Tier == "thorough" && longOn[tr] {
				addSeq(tr, "", r, 0, 2, 1, 3)
			}
		}
	}
	// the channel dimension (wrap.go): every transport, base path and set x every
	// wrapping; pass-through layers with the whole name list in-process and the core
	// names over HTTP; redirecting layers with called names x onward names, the
	// onward names being the core names in-process (thorough: the quick tier's whole
	// list) and, for the single redirecting layer and sets AB and D, on the root base
	// path (thorough: every wrapping and set where the long token strings run), and
	// the called names themselves elsewhere
	called := calledNames()
	wrapOnward := map[string]int{}
	for _, tr := range trs {
		for _, set := range setOrder {
			for _, w := range wraps {
				var j *job
				switch {
				case !redirects(w) && tr.kind == "inproc":
					j = newJob(tr, set, "", nameList)
				case !redirects(w):
					j = newJob(tr, set, "", core)
				case tr.kind == "inproc":
					j = newJob(tr, set, "", core)
					if rep.Tier == "thorough" {
						j.names = midList
					}
				case rep.Tier == "thorough" && longOn[tr], tr.base == "/" && w == "redirect" && (set == "AB" || set == "D"):
					j = newJob(tr, set, "", core)
				default:
					j = newJob(tr, set, "", called)
				}
				j.wrap = w
				if redirects(w) {
					j.called = called
					wrapOnward[fmt.Sprintf("%s wrap=%s: %d called x %d onward names", tr.kind, w, len(called), len(j.names))]++
				} else {
					wrapOnward[fmt.Sprintf("%s wrap=%s: %d names", tr.kind, w, len(j.names))]++
				}
			}
		}
	}
	var wg sync.WaitGroup
	workers := runtime.NumCPU()
	if workers < 4 {
		workers = 4
	}
	sem := make(chan struct{}, workers)
	for ji, j := range jobs {
		wg.Add(1)
		go func(ji int, j *job) {
			defer wg.Done()
			sem <- struct{}{}
			defer func() { <-sem }()
			t0 := time.Now()
			defer func() { j.dur = time.Since(t0) }()
			var cfg *config
			var otherDescs []string
			if j.seq == nil {
				var err error
				cfg, err = buildCfg(j.tr.kind, j.tr.base, j.set, j.deco, j.renderer, false)
				if err != nil {
					j.err = err
					return
				}
				otherDescs = cfg.descIDs[1:] // [0] is the bare one
			}
			slot := newSlot()
			stats := map[statKey]*statT{}
			defer func() {
				for _, st := range stats {
					j.cls[st.cls] += st.n
					if st.sample != nil {
						j.smp[st.smp] = st.sample
					}
				}
			}()
			one := func(c caseT, prefix string, minSlashes int, nearMiss bool) (o obsT) {
				class, must, may, code := classify(c)
				sk := statKey{op: c.Op, prefix: prefix, class: class, deco: c.Deco}
				if c.Desc != "" {
					sk.rel = descRelation(c.Set, c.Desc, c.Name)
				}
				slot.set(c)
				if j.seq != nil {
					// a fresh long-lived object per case: the history is played on it first
					var err error
					if o, err = execCase(c); err != nil && j.err == nil {
						j.err = err
					}
				} else {
					o = run(cfg, c)
				}
				atomic.AddInt64(&progress, 1)
				j.n++
				sk.outcome = "clean-failure"
				if len(o.Ran) > 0 {
					sk.outcome = "handler-ran"
				}
				if o.Panic != "" {
					sk.outcome = "panic"
				}
				st := stats[sk]
				if st == nil {
					full := prefix + decoPrefix[sk.deco]
					if sk.rel != "" {
						full += "desc=" + sk.rel + ":"
					}
					st = &statT{cls: full + class + "/" + sk.outcome}
					st.smp = c.Op + "/" + j.tr.kind + "/" + st.cls
					stats[sk] = st
				}
				st.n++
				if c.Set != "none" {
					j.nt++
				}
				if clause, detail := checkAs(c, o, class, must, may, code); clause != "" {
					if j.seq != nil {
						// reduced to a minimal history; the same reduced case only once
						if r, isNew := j.seq.reduce(c, o, clause, detail); !isNew {
						} else if len(j.res) < maxResPerJob {
							j.res = append(j.res, r)
						} else {
							j.more++
						}
					} else if len(j.res) < maxResPerJob {
						j.res = append(j.res, result{c, o, clause, detail})
					} else {
						j.more++
					}
				}
				if st.sample == nil && strings.Count(c.Name, "/") >= minSlashes {
					st.sample = map[string]interface{}{"case": c, "class": class, "observed": o}
				}
				if nearMiss {
					// an unregistered name that decodes / truncates to a registered one
					j.near++
					if k := "near-miss/" + c.Op + "/" + j.tr.kind + "/" + prefix + decoPrefix[sk.deco]; j.smp[k] == nil && strings.HasPrefix(c.Name, "/") {
						j.smp[k] = map[string]interface{}{"case": c, "class": class, "near_miss": true, "observed": o}
					}
				}
				return o
			}
			defer slot.clear()
			if j.seq != nil {
				j.seq.enumerate(func(hist []stepT, call stepT) {
					c := caseT{Transport: j.tr.kind, Base: j.tr.base, Set: setAfter(hist), Deco: j.deco, Renderer: j.renderer, Op: call.Op, Name: call.Name,
						History: append([]stepT(nil), hist...)}
					o := one(c, "seq:", 0, false)
					if probedBeforeRegistered(hist, call) {
						// the call names a service that was probed before it was registered
						j.seqNew++
						if k := "late-registration/" + c.Op + "/" + j.tr.kind + "/" + decoPrefix[j.deco]; j.smp[k] == nil && len(o.Ran) > 0 && len(hist) >= 3 {
							j.smp[k] = map[string]interface{}{"case": c, "class": "registered", "probed_before_registered": true, "observed": o}
						}
					}
				})
				return
			}
			rprefix := ""
			if j.renderer != "" {
				rprefix = "renderer:"
			}
			if j.ts != nil {
				for i := j.lo; i < j.hi; i++ {
					c := caseT{Transport: j.tr.kind, Base: j.tr.base, Set: j.set, Renderer: j.renderer, Op: j.op, Name: j.ts.name(i)}
					if !j.descs {
						one(c, rprefix+"tokens:", 2, decodesToRegistered(c.Set, c.Op, c.Name))
						continue
					}
					for _, id := range otherDescs {
						c.Desc = id
						one(c, "tokens:", 2, false)
					}
				}
				return
			}
			if j.wrap != "" {
				for _, op := range ops {
					if !redirects(j.wrap) {
						for _, name := range j.names {
							c := caseT{Transport: j.tr.kind, Base: j.tr.base, Set: j.set, Op: op, Name: name, Wrap: j.wrap}
							one(c, wrapPrefix(c), 2, false)
						}
						continue
					}
					for _, cn := range j.called {
						for _, on := range j.names {
							c := caseT{Transport: j.tr.kind, Base: j.tr.base, Set: j.set, Op: op, Name: cn, Onward: on, Wrap: j.wrap}
							o := one(c, wrapPrefix(c), 0, false)
							if want := int64(strings.Count(j.wrap, ",") + 1); o.ClientInt != want && o.Panic == "" && j.err == nil {
								j.err = fmt.Errorf("the client interceptors ran %d time(s) for %+v, the channel has %d layer(s): the harness does not drive the dimension", o.ClientInt, c, want)
							}
						}
					}
				}
				return
			}
			if j.descs {
				for _, name := range j.names {
					for _, id := range otherDescs {
						one(caseT{Transport: j.tr.kind, Base: j.tr.base, Set: j.set, Deco: j.deco, Op: "NewStream", Name: name, Desc: id}, "", 2, false)
					}
				}
				return
			}
			for _, op := range ops {
				for _, name := range j.names {
					c := caseT{Transport: j.tr.kind, Base: j.tr.base, Set: j.set, Deco: j.deco, Renderer: j.renderer, Op: op, Name: name}
					one(c, rprefix, 2, decodesToRegistered(c.Set, c.Op, c.Name))
				}
			}
			// cross-mount: same server, the client configured with every base path
			// of the alphabet that denotes another mount; the registered full names
			if j.tr.kind != "inproc" && j.deco == "" && j.renderer == "" && (j.set == "AB" || j.set == "D") {
				for _, cb := range basePaths(rep.Tier) {
					if path.Clean(cb) == path.Clean(j.tr.base) {
						continue
					}
					for _, op := range ops {
						for _, name := range fullNames(sets[j.set]) {
							one(caseT{Transport: j.tr.kind, Base: j.tr.base, Set: j.set, Op: op, Name: name, ClientBase: cb}, "", 0, false)
						}
					}
				}
			}
		}(ji, j)
	}
	wg.Wait()
	if os.Getenv("VERIF_C12_TIMING") != "" {
		kinds := map[string]time.Duration{}
		kindN := map[string]int{}
		for _, j := range jobs {
			k := "plain"
			switch {
			case j.seq != nil:
				k = "seq/" + j.tr.kind + "/r=" + j.renderer + "/d=" + j.deco
			case j.renderer != "":
				k = "renderer"
			case j.deco == "option":
				k = "option"
			}
			kinds[k] += j.dur
			kindN[k] += j.n
		}
		for k, d := range kinds {
			fmt.Fprintf(os.Stderr, "timing %-40s %8.1fs cpu-ish %9d evals\n", k, d.Seconds(), kindN[k])
		}
	}

	evals, nontrivial, near, nearTok, tokEvals, truncated, tokJobs := 0, 0, 0, 0, 0, 0, 0
	descEvals, descHandlerEvals, decoEvals := 0, 0, 0
	rendererEvals, optionEvals, seqEvals, seqLate := 0, 0, 0, 0
	wrapEvals, redirectEvals := 0, 0
	configs := map[string]bool{}
	classes := map[string]int{}
	var samples []interface{}
	allSmp := map[string]interface{}{}
	for _, j := range jobs {
		if j.err != nil {
			fmt.Fprintf(os.Stderr, "INCONCLUSIVE: %s base=%q set=%s: %v\n", j.tr.kind, j.tr.base, j.set, j.err)
			os.Exit(2)
		}
		evals += j.n
		nontrivial += j.nt
		configs[fmt.Sprint(j.tr, "|", j.set, "|", j.deco, "|", j.renderer, "|", j.wrap)] = true
		if j.renderer != "" {
			rendererEvals += j.n
		}
		if j.deco == "option" {
			optionEvals += j.n
		}
		if j.seq != nil {
			seqEvals += j.n
			seqLate += j.seqNew
		}
		if j.descs {
			descEvals += j.n
			ids := descIDs(j.set)[1:]
			h := 0
			for _, id := range ids {
				if carriesHandler(id) {
					h++
				}
			}
			descHandlerEvals += j.n / len(ids) * h
		}
		if j.deco != "" {
			decoEvals += j.n
		}
		if j.wrap != "" {
			wrapEvals += j.n
			if redirects(j.wrap) {
				redirectEvals += j.n
			}
		}
		near += j.near
		truncated += j.more
		if j.ts != nil {
			tokEvals += j.n
			nearTok += j.near
			tokJobs++
		}
		for k, v := range j.cls {
			classes[k] += v
		}
		for k, v := range j.smp {
			if (j.set == "AB" || j.set == "T" || (j.set == "D" && j.descs) || j.seq != nil) && j.tr.base != "/" && allSmp[k] == nil {
				allSmp[k] = v
			}
		}
		for _, r := range j.res {
			rep.Violation(fingerprint(r.c, r.clause, r.o), fmt.Sprintf("%s %s %q on %s base=%q set=%s%s: %s: %s", r.c.Op, "name", r.c.Name, r.c.Transport, r.c.Base+map[bool]string{true: "\" client-base=\"" + r.c.ClientBase}[r.c.ClientBase != ""], r.c.Set,
				map[string]string{"interceptor": " registered through WithInterceptor", "option": " with the server interceptor options"}[r.c.Deco]+map[bool]string{true: " descriptor=" + r.c.Desc + " (" + descRelation(r.c.Set, r.c.Desc, r.c.Name) + ")"}[r.c.Desc != ""]+
					map[bool]string{true: " ErrorRenderer option=" + r.c.Renderer}[r.c.Renderer != ""]+map[bool]string{true: " after [" + historySig(r.c.History) + "] on the same instance"}[len(r.c.History) > 0]+wrapNote(r.c), r.clause, r.detail), r.c)
		}
	}
	if truncated > 0 {
		fmt.Printf("note: %d further violating cases not listed (at most %d are kept per job)\n", truncated, maxResPerJob)
	}
	var smpKeys []string
	for k := range allSmp {
		smpKeys = append(smpKeys, k)
	}
	sort.Strings(smpKeys)
	for i, k := range smpKeys {
		// a handful: every third (class, outcome, transport, op) representative,
		// and the first near-miss of the escape dimension per (op, transport, grammar)
		if strings.HasPrefix(k, "late-registration/") {
			samples = append(samples, allSmp[k])
		} else if strings.Contains(k, "wrap=") {
			// the channel dimension: a single redirecting layer, a registered name sent
			// to an unknown one and the reverse
			if strings.HasSuffix(k, "/wrap=redirect:called=registered:unknown/clean-failure") || strings.HasSuffix(k, "/wrap=redirect:called=unknown:registered/handler-ran") {
				samples = append(samples, allSmp[k])
			}
		} else if strings.Contains(k, "renderer:") || strings.Contains(k, "seq:") || strings.Contains(k, "option-intercepted:") {
			// the server-option and registration-sequence dimensions: an unknown name
			// with a renderer, per op and carrier (a sequence case: in-process)
			if (strings.HasSuffix(k, "/renderer:unknown/clean-failure") || (strings.HasSuffix(k, "/seq:unknown/clean-failure") && strings.Contains(k, "/inproc/"))) && !strings.HasPrefix(k, "near-miss/") {
				samples = append(samples, allSmp[k])
			}
		} else if strings.HasPrefix(k, "near-miss/") {
			samples = append(samples, allSmp[k])
		} else if strings.Contains(k, "desc=") || strings.Contains(k, "intercepted:") {
			// the descriptor / decoration dimensions: the cases where a handler ran
			// with a handler-carrying descriptor, and one unknown name per relation
			if !strings.Contains(k, "desc=client-named") && !strings.Contains(k, "tokens:") &&
				(strings.HasSuffix(k, ":registered/handler-ran") || (strings.HasSuffix(k, ":unknown/clean-failure") && strings.HasPrefix(k, "NewStream/inproc/"))) {
				samples = append(samples, allSmp[k])
			}
		} else if i%3 == 0 {
			samples = append(samples, allSmp[k])
		}
	}
	// calibration: the harness reaches registered methods in both grammars, and
	// both grammars do contain unregistered names that decode / truncate to a
	// registered one (the escape dimension is populated, for both ops)
	if rep.Violations == 0 && rep.KnownHits == 0 && (classes["registered/handler-ran"] == 0 || classes["tokens:registered/handler-ran"] == 0) {
		fmt.Fprintln(os.Stderr, "INCONCLUSIVE: no registered method was ever reached; the harness is broken")
		os.Exit(2)
	}
	// the descriptor and decoration dimensions are populated: every relation of a
	// descriptor to the name occurred, with names that have to run their handler
	// and with unknown names, plain and through WithInterceptor
	// (whatever the outcome: this is about the grammar, not about the tree)
	populated := map[string]int{}
	for k, v := range classes {
		populated[k[:strings.LastIndexByte(k, '/')]] += v
	}
	for _, k := range []string{
		"desc=own:registered", "desc=other-registered:registered", "desc=unregistered:registered", "desc=client-named:registered",
		"desc=other-registered:unknown", "desc=unregistered:unknown", "desc=client-named:unknown",
		"desc=other-registered:other-arity", "desc=unregistered:malformed",
	} {
		for _, pre := range []string{"", "intercepted:", "tokens:"} {
			if populated[pre+k] == 0 && !(pre == "tokens:" && k == "desc=other-registered:registered") { // T has a single stream
				fmt.Fprintf(os.Stderr, "INCONCLUSIVE: the descriptor / decoration dimension is not populated: no case of %s%s\n", pre, k)
				os.Exit(2)
			}
		}
	}
	if populated["intercepted:registered"] == 0 || populated["intercepted:unknown"] == 0 {
		fmt.Fprintln(os.Stderr, "INCONCLUSIVE: the decoration dimension is not populated")
		os.Exit(2)
	}
	// and on a tree without violations the harness does reach the handlers through
	// every kind of descriptor and through the interceptors
	if rep.Violations == 0 && rep.KnownHits == 0 {
		for _, k := range []string{"desc=own:registered/handler-ran", "desc=other-registered:registered/handler-ran", "desc=unregistered:registered/handler-ran", "intercepted:registered/handler-ran", "intercepted:desc=own:registered/handler-ran", "tokens:desc=own:registered/handler-ran"} {
			if classes[k] == 0 {
				fmt.Fprintf(os.Stderr, "INCONCLUSIVE: no case of %s; the harness is broken\n", k)
				os.Exit(2)
			}
		}
	}
	// the server-option and the registration-sequence dimensions are populated
	// (about the grammar), and on a tree without violations the handlers are reached
	// there, also by calls to a service that was probed before it was registered
	if int64(seqEvals) != seqExpected {
		fmt.Fprintf(os.Stderr, "INCONCLUSIVE: %d sequence cases were run, the grammar has %d\n", seqEvals, seqExpected)
		os.Exit(2)
	}
	if rep.Tier == "thorough" && populated["renderer:tokens:unknown"] == 0 {
		fmt.Fprintln(os.Stderr, "INCONCLUSIVE: the token grammar is not crossed with the ErrorRenderer option")
		os.Exit(2)
	}
	for _, k := range []string{"renderer:registered", "renderer:unknown", "renderer:malformed", "option-intercepted:registered", "option-intercepted:unknown", "seq:registered", "seq:unknown", "seq:malformed"} {
		if populated[k] == 0 {
			fmt.Fprintf(os.Stderr, "INCONCLUSIVE: the server-option / registration-sequence dimension is not populated: no case of %s\n", k)
			os.Exit(2)
		}
	}
	// the channel dimension is populated: every wrapping with names that have to run
	// their handler and with unknown ones; redirections from a registered name to an
	// unknown / malformed / another registered one and from unknown / malformed names
	// to a registered one
	for _, w := range wraps {
		ks := []string{"wrap=" + w + ":registered", "wrap=" + w + ":unknown", "wrap=" + w + ":malformed"}
		if redirects(w) {
			ks = nil
			for _, k := range []string{"called=registered:unknown", "called=registered:malformed", "called=registered:registered", "called=unknown:registered", "called=malformed:registered", "called=other-arity:registered", "called=unknown:unknown"} {
				ks = append(ks, "wrap="+w+":"+k)
			}
		}
		for _, k := range ks {
			if populated[k] == 0 {
				fmt.Fprintf(os.Stderr, "INCONCLUSIVE: the channel dimension is not populated: no case of %s\n", k)
				os.Exit(2)
			}
			if rep.Violations == 0 && rep.KnownHits == 0 && strings.HasSuffix(k, ":registered") && classes[k+"/handler-ran"] == 0 {
				fmt.Fprintf(os.Stderr, "INCONCLUSIVE: no case of %s/handler-ran; the harness is broken\n", k)
				os.Exit(2)
			}
		}
	}
	if seqLate == 0 {
		fmt.Fprintln(os.Stderr, "INCONCLUSIVE: no sequence case calls a service that was probed before it was registered")
		os.Exit(2)
	}
	if rep.Violations == 0 && rep.KnownHits == 0 {
		for _, k := range []string{"renderer:registered/handler-ran", "option-intercepted:registered/handler-ran", "seq:registered/handler-ran", "seq:intercepted:registered/handler-ran", "seq:option-intercepted:registered/handler-ran"} {
			if classes[k] == 0 {
				fmt.Fprintf(os.Stderr, "INCONCLUSIVE: no case of %s; the harness is broken\n", k)
				os.Exit(2)
			}
		}
	}
	if nearTok == 0 || near == nearTok {
		fmt.Fprintln(os.Stderr, "INCONCLUSIVE: the grammars contain no unregistered name that decodes to a registered one; the escape dimension is empty")
		os.Exit(2)
	}
	midDesc := "the whole name list of (1)"
	if rep.Tier == "thorough" {
		midDesc = fmt.Sprintf("the quick tier's whole name list (1..4 segments, %d names)", len(midList))
	}
	alpha := toks.alpha
	longSize := toksLong.size() - toksLong.offs[toksLong.maxLen]
	tokRule := fmt.Sprintf("every string of 0..%d tokens over the %d-token alphabet %q", toks.maxLen, len(alpha), alpha)
	tokRule += fmt.Sprintf(" on every transport and base path, and every string of exactly %d tokens over the %d-token alphabet %q on in-process and on both HTTP carriers with base paths /, /foo/, /c%%d/x", toksLong.maxLen, len(toksLong.alpha), toksLong.alpha)
	stopProfile()
	os.Exit(rep.Finish("exploration", map[string]interface{}{
		"evaluations":         evals,
		"distinct_nontrivial": nontrivial,
		"rule": "(1) segment grammar: every string of 1.." + fmt.Sprint(maxSegs) + " segments from {\"\",pkg.A,pkg.B,A,pkg,M,S,M2,x} joined by '/', plus every prefix and suffix of the six full names of the richest registry D, " +
			"plus the single-edit sweep around these six full names (each character replaced by its percent-escape, upper- and lower-case hex, with and without the leading slash; each of %2F %2f %2E %2e %25 %20 %3F %23 %zz % ? # + space . .. ./ ../ x/../ /. /.. %2E%2E/ /%2E inserted at each position; every character escaped, with and without the slashes, and double-escaped), " +
			"x {Invoke, NewStream} x registered sets {none, A={pkg.A(M unary,S stream)}, AB={pkg.A,pkg.B(M,M2 unary)}, D={pkg.A(M unary; S,S2 streams),pkg.B(M,M2 unary; S stream)}} (thorough tier: D with " + midDesc + " on the HTTP carriers other than those with base paths /, /foo/, /c%d/x) x {in-process, httpgrpc.NewServer(WithBasePath), http.ServeMux+HandleServices} x base paths (incl. ones with a literal '%'), same base path on Channel.BaseURL and server; plus cross-mount cases: for sets AB and D and every ordered pair of base paths denoting different mounts, the registered full names x {Invoke, NewStream} from a client on the other base path must reach nothing (NotFound). " +
			"(2) token grammar (character granularity, escapes): registry {s(m unary, t stream)}, whose full names are 4 tokens long; " + tokRule + ", x {Invoke, NewStream}; the alphabet is derived from the registry: '/', every character of the registered names, '.', the percent-escape of each of these in upper-case hex (and, where the alphabet above lists them, lower-case hex), %25, the invalid escapes %zz and a bare %, and ? # + space. " +
			"(3) decoration dimension: how the services got into the registry: RegisterService directly (everything above) or through grpchan.WithInterceptor with counting unary and stream interceptors (per-FullMethod counters); sets AB and D x {Invoke, NewStream} x every transport and base path, with the whole name list of (1) in-process, with " + midDesc + " on both HTTP carriers with base paths /, /foo/, /c%d/x and with the core names elsewhere (core names: every string of 1..3 segments, the prefixes and suffixes of D's full names, each full name of D with one more segment before or after it: " + fmt.Sprint(len(core)) + " names). Added oracle: in a decorated registry the interceptor runs, with the registered full name, exactly as often as the handler (the registered handler is the intercepting wrapper), and not at all for names that run no handler. " +
			"(4) descriptor dimension: what the client passes to NewStream as *grpc.StreamDesc; (1) and (2) use the bare client-made one (StreamName x, no Handler). The other descriptors, derived from the registry universe (D for the segment grammar " + fmt.Sprint(descIDs("D")[1:]) + ", T for the token grammar " + fmt.Sprint(descIDs("T")[1:]) + "): client:<n> client-made without Handler with StreamName n in {empty, each stream's simple name, a unary method's simple name}; raw:<svc>/<stream> the very element of the ServiceDesc.Streams slice handed to RegisterService, for every stream of the universe (for a set that registers the stream it is the registered descriptor: the named method's own, or another method's / another service's; for a set that does not, and for the raw descriptor of a service registered through WithInterceptor, its Handler is registered nowhere); twin: same service and stream name as a registered one, another handler, registered nowhere; foreign: two descriptors of a service registered nowhere, one with a registered stream's simple name, one with an unknown one. Every handler has its own counter. Crossed with: in-process: every set x {plain, WithInterceptor} x the whole name list of (1), and the whole token grammar of (2) (plain); HTTP (where the descriptor never crosses the wire): every carrier and base path x set D x {plain, WithInterceptor} x the core names (thorough tier: x " + midDesc + " on the carriers with base paths /, /foo/, /c%d/x). Oracle unchanged: the name alone decides, whatever the descriptor. by_class_and_outcome prefixes: desc=<relation of the descriptor to the name: client-named | own | other-registered | unregistered>:, intercepted: for a decorated registry. " +
			"(5) server-option dimension (seqs.go). (a) the ErrorRenderer handler option, as httpgrpc.NewServer's option and as HandleServices' option: (1)-(4) use none; the other values " + fmt.Sprint(renderers) + ": default = httpgrpc.DefaultErrorRenderer passed explicitly, noop = writes nothing, ok-body = answers every failure 200 with a JSON body, own-4xx = answers every failure 422 with a text body (each counts its runs). Crossed with: both HTTP carriers x every base path x sets " + fmt.Sprint(rendererSets) + " x {Invoke, NewStream} x the core names (set D: " + midDesc + " on the root base path" + map[bool]string{true: " and on /foo/, /c%d/x; plus every string of 0..4 tokens of (2)'s upper-case-hex alphabet on the root base path"}[rep.Tier == "thorough"] + "). Oracle unchanged: whatever the renderer, an unknown or malformed name gives a status error (NotFound for unknown) and runs no handler, a registered name runs its handler and succeeds. (b) the interceptors as a server option (decoration \"option\": inprocgrpc.Channel.WithServer*Interceptor, httpgrpc.WithServer*Interceptor, HandleServices' interceptor arguments) instead of grpchan.WithInterceptor: sets AB and D x {Invoke, NewStream} x every transport and base path, the whole name list of (1) in-process, the core names over HTTP; oracle of (3). by_class_and_outcome prefixes renderer: and option-intercepted:. " +
			"(6) registration-sequence dimension (seqs.go): (1)-(5) register every service before the first call. Here a case is (history, call) on ONE long-lived instance built with nothing registered: the history is any interleaving of registrations (the services of D, each at most once, in any order; in-process Channel.RegisterService, Server.RegisterService, or HandleServices on the same ServeMux once per registration with a HandlerMap holding that service) and earlier calls; every sequence of at most 2 registrations and at most 3 calls" + map[bool]string{true: " (in-process, plain: 4 calls over alphabet 1)"}[rep.Tier == "thorough"] + " that ends in a call is a case (so every interleaving, probes of not-yet-registered names included; trailing registrations change nothing observable). Each case runs on a fresh instance; the last call is judged, against the set registered AT THAT MOMENT (none, {pkg.A}, {pkg.B}, D), by the oracle of (1). Call alphabets derived from D, each name x {Invoke, NewStream}: alphabet 0 = {/pkg.A/M, /pkg.A/S, /pkg.B/M, /pkg.F/M}; alphabet 1 = per service its first unary, first stream and an unknown method, plus /pkg.F/M and the malformed /pkg.A; alphabet 2 = the six full names of D, per service an unknown method, /pkg.F/M, /pkg.A, /pkg.A/M/x. Which alphabet where: sequence_grammars (in-process also with both decorations; the root base path with the biggest alphabet and, with a smaller one, crossed with every renderer of (5)" + map[bool]string{true: "; /foo/ and /c%d/x with alphabet 1 and, with alphabet 0, crossed with every renderer"}[rep.Tier == "thorough"] + "; every other base path with alphabet 0). A violating case is reduced to a 1-minimal history before it is reported (steps dropped while the same clause is still violated; the reduced case is a member of the grammar). by_class_and_outcome prefix seq:; sequence_cases_probed_before_registered counts the cases whose call names a registered service that an earlier call of the history named before it was registered. " +
			"(7) channel dimension (wrap.go): the channel the call is made on. (1)-(6) call the bare inprocgrpc.Channel / httpgrpc.Channel. Here the same channel is wrapped by grpchan.InterceptClientConn with a unary and a stream client interceptor, in the layerings " + fmt.Sprint(wraps) + " (outermost first): a pass layer hands the invoker / streamer the method name it was given, a redirect layer hands it ANOTHER name. A redirecting case is (called name, onward name): called names " + fmt.Sprintf("%q", called) + " (D's full names, per service an unknown method, an unknown service, malformed ones), onward names from the grammar of (1). Crossed with every transport, base path, set and {Invoke, NewStream}, bare descriptor, plain registry: pass-only wrapping x the whole name list of (1) in-process and the core names over HTTP; redirecting wrappings x called names x onward names, the onward names being the core names in-process" + map[bool]string{true: " (thorough: the quick tier's whole list)"}[rep.Tier == "thorough"] + map[bool]string{true: " and where the long token strings run", false: " and, for the single redirecting layer and sets AB and D, on the root base path"}[rep.Tier == "thorough"] + ", the called names themselves elsewhere (wrapped_channel_grammars: grammar -> number of (transport, base, set) instances). Oracle: that of (1) applied to the name finally handed to the bare channel (the onward name when a layer redirects): exactly the handler it denotes runs once and the call succeeds, or nothing runs and the call fails with a status error (NotFound / Unimplemented for unknown); what the stub called decides nothing. The harness also demands that every layer's interceptor ran once per call (else INCONCLUSIVE). by_class_and_outcome prefixes wrap=<layers>: and, with a redirecting layer, called=<class of the called name>: before the class of the onward name. " +
			"Oracle in all: a handler runs only for the exact string /<registered service>/<registered method> (names that merely percent-decode to one, or are cut to one at ? or #, are unknown: NotFound / Unimplemented, zero handler runs). " +
			"A case is non-trivial when the lookup ran against a non-empty registry (set != none), i.e. the name was actually matched against registered services/methods; each case is distinct by (transport, base, set, decoration, op, descriptor, name). by_class_and_outcome gives the measured split (token grammar classes are prefixed tokens:); near_miss_cases counts the cases whose name is not registered but becomes a registered full name of the right arity when its escapes are decoded once or it is cut at the first ? or #.",
		"by_class_and_outcome":   classes,
		"names":                  len(nameList),
		"token_alphabet":         alpha,
		"token_alphabet_long":    toksLong.alpha,
		"token_strings":          toks.size(),
		"token_strings_long":     longSize,
		"token_evaluations":      tokEvals,
		"near_miss_cases":        near,
		"near_miss_cases_tokens": nearTok,
		"configurations":         len(configs),
		"descriptors":            map[string]interface{}{"D": descIDs("D"), "T": descIDs("T")},
		"descriptor_evaluations": descEvals,
		"descriptor_evaluations_with_handler_carrying_descriptor": descHandlerEvals,
		"decorated_registry_evaluations":                          decoEvals,
		"renderers":                                               renderers,
		"renderer_option_evaluations":                             rendererEvals,
		"interceptor_option_evaluations":                          optionEvals,
		"sequence_cases":                                          seqEvals,
		"sequence_cases_probed_before_registered":                 seqLate,
		"sequence_grammars":                                       seqGrammars,
		"wrapped_channel_evaluations":                             wrapEvals,
		"wrapped_channel_redirecting_evaluations":                 redirectEvals,
		"wrapped_channel_grammars":                                wrapOnward,
		"called_names":                                            called,
		"core_names":                                              len(core),
		"mid_names":                                               len(midList),
		"jobs":                                                    len(jobs),
		"violations_not_listed":                                   truncated,
		"samples":                                                 samples,
		"exhaustive":                                              true,
	}, []string{
		"HTTP side runs on an httptest recorder without a network (net/http's own connection handling is not exercised), but the server is handed only what crosses the wire: the request-target the client's URL serialises to, parsed again as net/http's server does; http.ServeMux is the one selected by the harness module's go line",
		"base paths that http.ServeMux itself refuses at registration are outside the grammar",
		"a non-canonical name (missing leading slash, doubled or trailing slashes) that denotes a registered method after slash normalisation may either run exactly that handler or fail with a status error; grpc-go itself accepts a missing leading slash",
		"the same tolerance for literal dot-segments: a name that path cleaning (which the HTTP client applies together with the slash normalisation) turns into a registered name, e.g. /pkg.A/./M or /x/../pkg.A/M, may run exactly that handler or fail with a status error (class dot-segments-denoting-registered); escaped dots (%2E) are not dot-segments and must not be resolved",
		"a registered method called with the other arity (unary name via NewStream or vice versa) may run that handler or fail with a status error; no other handler may run",
		"an unknown name that the HTTP client refuses before sending anything (no request reached the carrier) may carry any non-OK status code instead of NotFound",
		"the descriptor dimension is completely crossed with names, sets and decoration in-process, where the descriptor reaches the code that picks the handler; over HTTP the descriptor cannot cross the wire, so there it is swept over the richest set D with a shorter name list on every carrier and base path; the decoration dimension is crossed with the token grammar nowhere",
		"every descriptor of the dimension has ClientStreams and ServerStreams set, like the bare one (the flags legitimately steer the client side of the stream)",
		"the ErrorRenderer option is crossed with every base path, carrier and op but with the core names only (the whole list for set D on the root base path), with sets none/AB/D in the quick tier, and with the token grammar in the thorough tier only; it is not crossed with the descriptor and decoration dimensions; the handlers of the check never fail, so a renderer only ever runs if the library routes a name failure through it",
		"registration sequences: at most 2 registrations (the two services of D, each once; registering a service twice is refused by the library) and 3 calls; the bigger call alphabets run in-process and on the root base path (thorough: alphabet 1 also on /foo/ and /c%d/x), the 8-symbol alphabet on every other base path; bare client-made StreamDesc only; unregistering does not exist in the library; concurrent registration and calls are not explored (sequential histories)",
		"the channel dimension: at most two layers of InterceptClientConn, at most one of them redirecting, interceptors given for both arities (a nil interceptor makes InterceptClientConn hand the call straight through, which is the bare channel); the bare client-made StreamDesc and directly registered services only; not crossed with the token grammar, the ErrorRenderer option, cross-mount clients or registration sequences; the interceptors hand on the context, request, reply, options and *grpc.ClientConn unchanged and change the method name only",
		"the token grammar runs against its own minimal registry {s: m, t}, not crossed with the registry sets of the segment grammar; the single-edit sweep covers the escape dimension for the pkg.A/pkg.B registries on every configuration, but only one edit at a time",
	}))
}
