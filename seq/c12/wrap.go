// Channel dimension (wrap.go): the CHANNEL the call is made on. Everything else
// in this check calls the bare channel (inprocgrpc.Channel / httpgrpc.Channel).
// Here the same channels are wrapped by grpchan.InterceptClientConn, in one or
// two layers, with client interceptors that
//
//	pass      hand the invoker / streamer the method name they were given
//	redirect  hand the invoker / streamer ANOTHER method name (routing, aliasing):
//	          any name of the grammar - registered, unregistered, malformed
//
// A case is then (called name, onward name): the stub calls the wrapped channel
// with the called name, the redirecting layer hands the onward name onward. The
// oracle is the property's, applied to the name that is finally handed to the
// bare channel: exactly the handler that name denotes runs, or the call fails
// cleanly with the transport's code; the called name decides nothing.
package main

import (
	"context"
	"fmt"
	"strings"
	"sync/atomic"

	"github.com/fullstorydev/grpchan"
	"google.golang.org/grpc"
)

// the layers of a wrapped channel, outermost first
var wraps = []string{"pass", "redirect", "redirect,pass", "pass,redirect"}

func redirects(wrap string) bool { return strings.Contains(wrap, "redirect") }

// the name the case's call hands to the bare channel
func (c caseT) effName() string {
	if redirects(c.Wrap) {
		return c.Onward
	}
	return c.Name
}

type onwardKey struct{}

// wrappedCC: cc wrapped as the case says. The onward name travels in the
// context, so one wrapped channel serves every case of a configuration.
func (cfg *config) wrappedCC(cc grpc.ClientConnInterface, wrap string) grpc.ClientConnInterface {
	layers := strings.Split(wrap, ",")
	for i := len(layers) - 1; i >= 0; i-- {
		var redirect bool
		switch layers[i] {
		case "pass":
		case "redirect":
			redirect = true
		default:
			panic("harness: unknown layer " + layers[i])
		}
		onward := func(ctx context.Context, method string) string {
			atomic.AddInt64(&cfg.cint, 1)
			if redirect {
				return ctx.Value(onwardKey{}).(string)
			}
			return method
		}
		cc = grpchan.InterceptClientConn(cc,
			func(ctx context.Context, method string, req, reply interface{}, gcc *grpc.ClientConn, invoker grpc.UnaryInvoker, opts ...grpc.CallOption) error {
				return invoker(ctx, onward(ctx, method), req, reply, gcc, opts...)
			},
			func(ctx context.Context, desc *grpc.StreamDesc, gcc *grpc.ClientConn, method string, streamer grpc.Streamer, opts ...grpc.CallOption) (grpc.ClientStream, error) {
				return streamer(ctx, desc, gcc, onward(ctx, method), opts...)
			})
	}
	return cc
}

// calledNames: what the stub calls the wrapped channel with when a layer
// redirects; derived from the universe D: its full names, per service an unknown
// method, an unknown service, malformed names.
func calledNames() []string {
	defs := sets["D"]
	out := append([]string(nil), fullNames(defs)...)
	for _, d := range defs {
		out = append(out, "/"+d.Name+"/x")
	}
	f := "/" + defs[0].Name + "/" + defs[0].Unary[0]
	return append(out, "/pkg.F/"+defs[0].Unary[0], "/"+defs[0].Name, f+"/x", f[1:], "")
}

// the class of the called name, for the evidence and the fingerprints
func calledClass(c caseT) string {
	cl, _, _, _ := classify(caseT{Transport: c.Transport, Set: c.Set, Op: c.Op, Name: c.Name})
	return cl
}

func wrapPrefix(c caseT) string {
	if !redirects(c.Wrap) {
		return "wrap=" + c.Wrap + ":"
	}
	return "wrap=" + c.Wrap + ":called=" + calledClass(c) + ":"
}

func wrapNote(c caseT) string {
	if c.Wrap == "" {
		return ""
	}
	s := " on the channel wrapped by grpchan.InterceptClientConn (layers, outermost first: " + c.Wrap + ")"
	if redirects(c.Wrap) {
		s += fmt.Sprintf("; the redirecting interceptor hands %q onward", c.Onward)
	}
	return s
}

// the oracle of the dimension is classify of the onward name; check that on the
// grammar itself: whatever is called, the verdict model follows the onward name
func selfTestWrap() string {
	called := calledNames()
	for _, set := range setOrder {
		for _, op := range []string{"Invoke", "NewStream"} {
			for _, on := range called {
				wc, wm, wy, wcode := classify(caseT{Transport: "inproc", Set: set, Op: op, Name: on})
				for _, cn := range called {
					for _, w := range wraps {
						c := caseT{Transport: "inproc", Set: set, Op: op, Name: cn, Onward: on, Wrap: w}
						if !redirects(w) {
							c.Name, c.Onward = on, ""
						}
						gc, gm, gy, gcode := classify(c)
						if gc != wc || gm != wm || gy != wy || (gcode == nil) != (wcode == nil) || (gcode != nil && *gcode != *wcode) {
							return fmt.Sprintf("%+v is judged %s/%q/%q, the onward name alone %s/%q/%q", c, gc, gm, gy, wc, wm, wy)
						}
					}
				}
			}
		}
	}
	n := 0
	for _, cn := range called {
		if kindOf("D", strings.Split(cn+"//", "/")[1], strings.Split(cn+"//", "/")[2]) != "" && wellFormed.MatchString(cn) {
			n++
		}
	}
	if n != len(fullNames(sets["D"])) || n == len(called) {
		return "the called names do not hold the registered full names and others"
	}
	return ""
}
