// The escape dimension of C12: method-name strings at character granularity.
//
// The segment grammar of main.go only ever spells a name with the characters of
// the registered names and '/'. Everything that URL construction treats
// specially was therefore fixed to "absent": percent-escapes (a name that merely
// percent-DECODES to a registered one is another, unregistered, name), '?' and
// '#' (which end the path of a URL), '+' and ' ' (form-encoding aliases), and the
// dot-segments "." / ".." (removed by path cleaning).
//
// Two additions, both derived by rule from the registered names:
//
//  1. token grammar: a tiny registry T = {s: unary m, stream t}, whose full names
//     "/s/m", "/s/t" are 4 tokens long, and EVERY string of 0..L tokens over the
//     alphabet tokenAlphabet() (each character of the registered names, each
//     such character percent-escaped, the escapes of '/', '.', '%', two invalid
//     escapes, '?', '#', '+', ' '), for Invoke and NewStream, on every transport
//     and base path of the check.
//  2. single-edit sweep around the registered full names of the pkg.A/pkg.B
//     registry (sweepNames): every character replaced by its escape, every
//     special token inserted at every position; these names join the segment
//     grammar's list and so run on every transport, base path and registry set.
package main

import (
	"fmt"
	"net/http"
	"net/http/httptest"
	"net/url"
	"strings"
	"sync/atomic"

	"verif/seq/common"
)

var defT = svcDef{Name: "s", Unary: []string{"m"}, Streams: []string{"t"}}

func init() { sets["T"] = []svcDef{defT} }

func fullNames(defs []svcDef) []string {
	var out []string
	for _, d := range defs {
		for _, m := range d.Unary {
			out = append(out, "/"+d.Name+"/"+m)
		}
		for _, m := range d.Streams {
			out = append(out, "/"+d.Name+"/"+m)
		}
	}
	return out
}

// escapes of one byte: upper-case hex, and the lower-case spelling if it differs
func escapesOf(c byte, lower bool) []string {
	up := fmt.Sprintf("%%%02X", c)
	out := []string{up}
	if lo := fmt.Sprintf("%%%02x", c); lower && lo != up {
		out = append(out, lo)
	}
	return out
}

// the characters URL/path construction treats specially, apart from '/' and '%'
var urlSpecials = []string{"?", "#", "+", " "}

// invalid escapes: non-hex digits, and a '%' with nothing after it
var invalidEscapes = []string{"%zz", "%"}

// tokenAlphabet derives the alphabet from the registered names of T.
//
//	plain:    '/', every other character of the registered full names, '.'
//	escapes:  %XX of every plain character (lower-case hex spelling too where it
//	          differs, if lowerHex), %25
//	invalid:  %zz, %
//	specials: ? # + space
func tokenAlphabet(lowerHex bool) []string {
	plain := []string{"/"}
	seen := map[byte]bool{'/': true}
	for _, f := range fullNames(sets["T"]) {
		for i := 0; i < len(f); i++ {
			if !seen[f[i]] {
				seen[f[i]] = true
				plain = append(plain, string(f[i]))
			}
		}
	}
	if !seen['.'] {
		plain = append(plain, ".")
	}
	out := append([]string(nil), plain...)
	for _, p := range plain {
		out = append(out, escapesOf(p[0], lowerHex)...)
	}
	out = append(out, "%25")
	out = append(out, invalidEscapes...)
	out = append(out, urlSpecials...)
	return out
}

// tokenSpace enumerates every string of 0..maxLen tokens; index 0 is "".
type tokenSpace struct {
	alpha  []string
	maxLen int
	offs   []int64 // offs[n] = number of strings shorter than n tokens
}

func newTokenSpace(alpha []string, maxLen int) *tokenSpace {
	ts := &tokenSpace{alpha: alpha, maxLen: maxLen}
	total, pow := int64(0), int64(1)
	for n := 0; n <= maxLen+1; n++ {
		ts.offs = append(ts.offs, total)
		total += pow
		pow *= int64(len(alpha))
	}
	return ts
}

func (ts *tokenSpace) size() int64 { return ts.offs[ts.maxLen+1] }

// name returns the idx-th string: shorter first, then in alphabet order.
func (ts *tokenSpace) name(idx int64) string {
	n := 0
	for n < ts.maxLen && idx >= ts.offs[n+1] {
		n++
	}
	idx -= ts.offs[n]
	k := int64(len(ts.alpha))
	toks := make([]string, n)
	for i := n - 1; i >= 0; i-- {
		toks[i] = ts.alpha[idx%k]
		idx /= k
	}
	return strings.Join(toks, "")
}

// sweepNames: single edits of the registered full names of defs.
func sweepNames(defs []svcDef) []string {
	inserts := []string{"%2F", "%2f", "%2E", "%2e", "%25", "%20", "%3F", "%23"}
	inserts = append(inserts, invalidEscapes...)
	inserts = append(inserts, urlSpecials...)
	// dot-segments, alone and as whole segments
	inserts = append(inserts, ".", "..", "./", "../", "x/../", "/.", "/..", "%2E%2E/", "/%2E")
	seen := map[string]bool{}
	var out []string
	add := func(s string) {
		if !seen[s] {
			seen[s] = true
			out = append(out, s)
		}
	}
	for _, f := range fullNames(defs) {
		for i := 0; i < len(f); i++ {
			for _, e := range escapesOf(f[i], true) {
				add(f[:i] + e + f[i+1:]) // one character escaped
				if i >= 1 {
					add(f[1:i] + e + f[i+1:]) // and the leading slash missing
				}
			}
		}
		for i := 0; i <= len(f); i++ {
			for _, t := range inserts {
				add(f[:i] + t + f[i:])
			}
		}
		// every character escaped: slashes kept, slashes escaped too, and twice
		var keep, all strings.Builder
		for i := 0; i < len(f); i++ {
			e := escapesOf(f[i], false)[0]
			all.WriteString(e)
			if f[i] == '/' {
				keep.WriteByte('/')
			} else {
				keep.WriteString(e)
			}
		}
		add(keep.String())
		add(all.String())
		add(strings.ReplaceAll(keep.String(), "%", "%25"))
	}
	return out
}

// decodesToRegistered: the name is not a registered full name of the set with
// the arity of op, but becomes one when its valid percent-escapes are decoded
// once and everything from the first '?' or '#' on is dropped - the ways URL
// handling can turn one method string into another. Only used to MEASURE how
// many such near-misses the grammar contains; the oracle does not use it.
func decodesToRegistered(set, op, name string) bool {
	opKind := "unary"
	if op == "NewStream" {
		opKind = "stream"
	}
	is := func(n string) bool {
		if !wellFormed.MatchString(n) {
			return false
		}
		p := strings.Split(n, "/")
		return kindOf(set, p[1], p[2]) == opKind
	}
	if is(name) {
		return false
	}
	cut := name
	if i := strings.IndexAny(cut, "?#"); i >= 0 {
		cut = cut[:i]
	}
	if is(cut) {
		return true
	}
	if d, err := url.PathUnescape(cut); err == nil && is(d) {
		return true
	}
	if d, err := url.PathUnescape(name); err == nil && is(d) {
		return true
	}
	return false
}

// wireRT serves each request on a recorder, like common.HandlerRT, but hands the
// server only what crosses the wire: the request-target string the client's URL
// serialises to is parsed again the way net/http's server parses a request line
// (a target it cannot parse is answered 400, as net/http does). A client that
// puts a method string on the wire which reads back as another path is thus
// seen as the server would see it.
func wireRT(h http.Handler, sent *int64) http.RoundTripper {
	return common.RT(func(r *http.Request) (*http.Response, error) {
		atomic.AddInt64(sent, 1)
		rec := httptest.NewRecorder()
		target := r.URL.RequestURI()
		u, err := url.ParseRequestURI(target)
		if err != nil || strings.ContainsAny(target, " \t\r\n") {
			rec.WriteHeader(http.StatusBadRequest)
			resp := rec.Result()
			resp.Request = r
			return resp, nil
		}
		r2 := r.Clone(r.Context())
		if r2.Body == nil {
			r2.Body = http.NoBody
		}
		r2.URL = u
		r2.RequestURI = target
		if r2.Host == "" {
			r2.Host = r.URL.Host
		}
		r2.RemoteAddr = "192.0.2.1:1234"
		h.ServeHTTP(rec, r2)
		resp := rec.Result()
		resp.Request = r
		return resp, nil
	})
}

// selfTest checks the enumeration and the oracle of the escape dimension on
// synthetic observations (no library code involved); "" when fine.
func selfTest(ts *tokenSpace) string {
	// the enumeration: no string twice (checked up to 3 tokens), and the strings
	// the dimension is about are in it
	seen := map[string]bool{}
	for i := int64(0); i < ts.size() && i < ts.offs[4]; i++ {
		n := ts.name(i)
		if seen[n] {
			return fmt.Sprintf("token string %q enumerated twice", n)
		}
		seen[n] = true
	}
	want := map[string]bool{"": false, "/s/m": false, "/s/t": false, "/s/%6D": false, "/s/%6d": false, "/%73/m": false, "/s%2Fm": false,
		"%2Fs/m": false, "s/%6D": false, "/s/%zz": false, "/s/%": false, "/s/?": false, "/s/#": false, "/s/+": false, "/s/ ": false, "/s/%25": false, "/s%2Em": false, "/./.": false}
	hasLower := false
	for _, a := range ts.alpha {
		hasLower = hasLower || a == "%6d"
	}
	if !hasLower {
		delete(want, "/s/%6d")
	}
	if ts.maxLen >= 5 {
		for _, n := range []string{"/s/m?", "/s/m#", "/s/m%2F", "/s/m%zz", "/s/m%", "s/./m", "./s/m", "/s/m ", "/s/m+"} {
			want[n] = false
		}
	}
	for i := int64(0); i < ts.size(); i++ {
		if n := ts.name(i); len(n) <= 8 {
			if _, ok := want[n]; ok {
				want[n] = true
			}
		}
	}
	for n, ok := range want {
		if !ok {
			return fmt.Sprintf("token grammar lacks %q", n)
		}
	}
	// the oracle: a registered handler answering for a name that only decodes to
	// it has to be a violation, on every carrier and for both ops; the same name
	// failing cleanly has to be accepted; the registered name has to be demanded
	for _, tr := range []string{"inproc", "http-server", "http-mux"} {
		for _, op := range []string{"Invoke", "NewStream"} {
			reg := "s/m"
			if op == "NewStream" {
				reg = "s/t"
			}
			for _, name := range []string{"/s/%6D", "/s/%74", "/%73/" + reg[2:], "/s%2F" + reg[2:], "/" + reg + "?", "/" + reg + "#x", "/" + reg + "%2F", "/" + reg + "+", "/" + reg + " "} {
				c := caseT{Transport: tr, Base: "/", Set: "T", Op: op, Name: name}
				ran := obsT{Ran: map[string]int64{reg: 1}, Reply: reg, Sent: 1}
				if clause, _ := check(c, ran); clause == "" {
					return fmt.Sprintf("oracle accepts handler %s running for %s %q on %s", reg, op, name, tr)
				}
				okNoErr := obsT{Sent: 1}
				if clause, _ := check(c, okNoErr); clause == "" {
					return fmt.Sprintf("oracle accepts success without a handler for %s %q on %s", op, name, tr)
				}
			}
			c := caseT{Transport: tr, Base: "/", Set: "T", Op: op, Name: "/" + reg}
			if clause, _ := check(c, obsT{Ran: map[string]int64{reg: 1}, Reply: reg, Sent: 1}); clause != "" {
				return fmt.Sprintf("oracle rejects the registered call %q: %s", c.Name, clause)
			}
			if clause, _ := check(c, obsT{Sent: 1}); clause == "" {
				return fmt.Sprintf("oracle accepts the registered call %q not running its handler", c.Name)
			}
		}
	}
	return ""
}
