// The descriptor and the decoration dimensions of C12.
//
// NewStream takes, next to the method name, a *grpc.StreamDesc made by the
// caller. The name alone has to decide which handler runs; the grammar of
// main.go fixed that argument to one value (a client-made descriptor without a
// Handler), and fixed the way the services got into the registry to a plain
// RegisterService. Both are dimensions here, derived by rule from the registry:
//
//  1. what the client passes as StreamDesc (descIDs): the bare client-made
//     descriptor; client-made ones (no Handler) whose StreamName is "", each
//     stream's simple name, a unary method's simple name; the very descriptor
//     object of every stream of the descriptor universe (the richest registry of
//     the grammar, set D; generated stubs pass &X_ServiceDesc.Streams[i]) - for a
//     registry set that registers that stream this is the registered descriptor
//     (the named method's own, or another method's / another service's), for a
//     set that does not it is a handler-carrying descriptor registered nowhere;
//     a twin of the first stream (same service and stream name, another handler,
//     registered nowhere); two descriptors of a service that is registered
//     nowhere, one with the simple name of a registered stream, one with a name
//     registered nowhere. Every handler has its own invocation counter.
//  2. how the services got into the registry (Deco): RegisterService directly, or
//     through grpchan.WithInterceptor with counting interceptors. The handler
//     registered for a name is then the intercepting wrapper: the interceptor has
//     to run, with the registered full name, exactly when the handler runs.
//
// The oracle is the one of main.go (classify ignores the descriptor).
package main

import (
	"context"
	"fmt"
	"sort"
	"strings"
	"sync/atomic"

	"google.golang.org/grpc"
)

var (
	// the richest registry of the segment grammar: two streams in one service, a
	// stream of the same simple name in another service
	defA2 = svcDef{Name: "pkg.A", Unary: []string{"M"}, Streams: []string{"S", "S2"}}
	defB2 = svcDef{Name: "pkg.B", Unary: []string{"M", "M2"}, Streams: []string{"S"}}
)

func init() { sets["D"] = []svcDef{defA2, defB2} }

// universeT describes where the descriptors a client may pass come from.
type universeT struct {
	defs          []svcDef
	foreignSvc    string // a service registered in no set
	foreignStream string // a stream name registered in no set
}

func universeOf(set string) universeT {
	if set == "T" {
		return universeT{defs: sets["T"], foreignSvc: "f", foreignStream: "z"}
	}
	return universeT{defs: sets["D"], foreignSvc: "pkg.F", foreignStream: "Z"}
}

const emptyName = "(empty)"

// descIDs lists the descriptors of the dimension for configurations of the
// set, simplest first. "" is the bare client-made descriptor.
func descIDs(set string) []string {
	u := universeOf(set)
	ids := []string{"", "client:" + emptyName}
	seen := map[string]bool{}
	var firstStream, firstUnary string
	for _, d := range u.defs {
		for _, m := range d.Streams {
			if firstStream == "" {
				firstStream = d.Name + "/" + m
			}
			if !seen[m] {
				seen[m] = true
				ids = append(ids, "client:"+m)
			}
		}
	}
	for _, d := range u.defs {
		for _, m := range d.Unary {
			if firstUnary == "" && !seen[m] {
				firstUnary = m
				ids = append(ids, "client:"+m)
			}
		}
	}
	for _, d := range u.defs {
		for _, m := range d.Streams {
			ids = append(ids, "raw:"+d.Name+"/"+m)
		}
	}
	if firstStream != "" {
		ids = append(ids, "twin:"+firstStream)
		ids = append(ids, "foreign:"+u.foreignSvc+"/"+firstStream[strings.IndexByte(firstStream, '/')+1:])
	}
	ids = append(ids, "foreign:"+u.foreignSvc+"/"+u.foreignStream)
	return ids
}

// descRelation says how the descriptor relates to the name within the set:
//
//	bare              client-made, StreamName "x", no Handler
//	client-named      client-made, no Handler, StreamName from the registry's names
//	own               the registered descriptor of exactly the named stream
//	other-registered  the registered descriptor of another stream (of this or of
//	                  another service) than the name denotes, or the name denotes none
//	unregistered      carries a Handler that is registered nowhere in the set
func descRelation(set, id, name string) string {
	switch {
	case id == "":
		return "bare"
	case strings.HasPrefix(id, "client:"):
		return "client-named"
	case strings.HasPrefix(id, "raw:"):
		key := strings.TrimPrefix(id, "raw:")
		i := strings.IndexByte(key, '/')
		if kindOf(set, key[:i], key[i+1:]) != "stream" {
			return "unregistered"
		}
		if name == "/"+key {
			return "own"
		}
		return "other-registered"
	}
	return "unregistered"
}

// carriesHandler: the descriptor has a Handler (anything but the client-made ones).
func carriesHandler(id string) bool { return id != "" && !strings.HasPrefix(id, "client:") }

// buildDescs fills cfg.descs: registered streams are represented by the very
// element of the ServiceDesc.Streams slice that was handed to RegisterService.
func (cfg *config) buildDescs(set string, raw []*grpc.ServiceDesc, all bool, mk func(key, name string) grpc.StreamDesc) {
	cfg.descs = map[string]*grpc.StreamDesc{}
	ids := descIDs(set)
	if !all {
		ids = ids[:1] // the bare one only (registration sequences, seqs.go)
	}
	for _, id := range ids {
		switch {
		case id == "":
			cfg.descs[id] = &grpc.StreamDesc{StreamName: "x", ClientStreams: true, ServerStreams: true}
		case strings.HasPrefix(id, "client:"):
			n := strings.TrimPrefix(id, "client:")
			if n == emptyName {
				n = ""
			}
			cfg.descs[id] = &grpc.StreamDesc{StreamName: n, ClientStreams: true, ServerStreams: true}
		case strings.HasPrefix(id, "raw:"):
			key := strings.TrimPrefix(id, "raw:")
			i := strings.IndexByte(key, '/')
			for _, sd := range raw {
				if sd.ServiceName != key[:i] {
					continue
				}
				for k := range sd.Streams {
					if sd.Streams[k].StreamName == key[i+1:] {
						cfg.descs[id] = &sd.Streams[k]
					}
				}
			}
			if cfg.descs[id] == nil { // not registered in this set
				d := mk("unregistered:"+key, key[i+1:])
				cfg.descs[id] = &d
			}
		default: // twin:svc/stream, foreign:svc/stream
			d := mk(id, id[strings.IndexByte(id, '/')+1:])
			cfg.descs[id] = &d
		}
		cfg.descIDs = append(cfg.descIDs, id)
	}
}

// the counting interceptors of a decorated registry
func (cfg *config) intercepted(fullMethod string) {
	atomic.AddInt64(&cfg.itotal, 1)
	cfg.mu.Lock()
	cfg.icounts["interceptor "+fullMethod]++
	cfg.mu.Unlock()
}

func (cfg *config) unaryInt(ctx context.Context, req interface{}, info *grpc.UnaryServerInfo, handler grpc.UnaryHandler) (interface{}, error) {
	cfg.intercepted(info.FullMethod)
	return handler(ctx, req)
}

func (cfg *config) streamInt(srv interface{}, ss grpc.ServerStream, info *grpc.StreamServerInfo, handler grpc.StreamHandler) error {
	cfg.intercepted(info.FullMethod)
	return handler(srv, ss)
}

func (cfg *config) interceptorSnapshot() map[string]int64 {
	cfg.mu.Lock()
	defer cfg.mu.Unlock()
	m := make(map[string]int64, len(cfg.icounts))
	for k, v := range cfg.icounts {
		m[k] = v
	}
	return m
}

// checkIntercept: in a registry decorated by WithInterceptor the handler
// registered for a name is the intercepting wrapper, so the interceptor runs,
// with the registered full name, exactly as often as the handler.
func checkIntercept(c caseT, o obsT) (clause, detail string) {
	if c.Deco == "" {
		for _, k := range sortedKeys(o.Intercepted) {
			return "interceptor-on-plain-registry", fmt.Sprintf("%s ran %d time(s) although nothing was registered through an interceptor", k, o.Intercepted[k])
		}
		return "", ""
	}
	for _, k := range sortedKeys(o.Ran) {
		if n, i := o.Ran[k], o.Intercepted["interceptor /"+k]; n != i {
			return "interceptor-bypassed", fmt.Sprintf("handler %s ran %d time(s) for %q, the interceptor it was registered through ran %d time(s) for /%s", k, n, c.Name, i, k)
		}
	}
	for _, k := range sortedKeys(o.Intercepted) {
		if n, h := o.Intercepted[k], o.Ran[strings.TrimPrefix(k, "interceptor /")]; n != h {
			return "interceptor-without-its-handler", fmt.Sprintf("%s ran %d time(s) for %q, the handler registered under that name %d time(s)", k, n, c.Name, h)
		}
	}
	return "", ""
}

func sortedKeys(m map[string]int64) []string {
	k := make([]string, 0, len(m))
	for s := range m {
		k = append(k, s)
	}
	sort.Strings(k)
	return k
}

// selfTestDescs checks the two dimensions' enumeration and oracle on synthetic
// observations (no library code involved); "" when fine.
func selfTestDescs() string {
	// normalise against its definition (split at '/', drop empty segments)
	for _, n := range append(namesOf(3, false), "", "/", "//", "a", "a//b/", "//a///b//c//") {
		var segs []string
		for _, s := range strings.Split(n, "/") {
			if s != "" {
				segs = append(segs, s)
			}
		}
		if want := "/" + strings.Join(segs, "/"); normalise(n) != want {
			return fmt.Sprintf("normalise(%q) = %q, want %q", n, normalise(n), want)
		}
	}
	for _, set := range []string{"D", "T"} {
		ids := descIDs(set)
		seen := map[string]bool{}
		kinds := map[string]bool{}
		for _, id := range ids {
			if seen[id] {
				return fmt.Sprintf("descriptor %q listed twice for set %s", id, set)
			}
			seen[id] = true
			kinds[strings.SplitN(id, ":", 2)[0]] = true
		}
		for _, k := range []string{"", "client", "raw", "twin", "foreign"} {
			if !kinds[k] {
				return fmt.Sprintf("descriptor universe of set %s lacks kind %q", set, k)
			}
		}
	}
	rel := map[string]bool{}
	for _, id := range descIDs("D") {
		for _, set := range []string{"none", "A", "AB", "D"} {
			for _, n := range []string{"/pkg.A/S", "/pkg.A/S2", "/pkg.A/x"} {
				rel[descRelation(set, id, n)] = true
			}
		}
	}
	for _, r := range []string{"bare", "client-named", "own", "other-registered", "unregistered"} {
		if !rel[r] {
			return fmt.Sprintf("no descriptor of the universe is ever in relation %q", r)
		}
	}
	if descRelation("A", "raw:pkg.A/S2", "/pkg.A/S2") != "unregistered" || descRelation("D", "raw:pkg.A/S2", "/pkg.A/S2") != "own" || descRelation("D", "raw:pkg.B/S", "/pkg.A/S") != "other-registered" {
		return "descRelation is wrong"
	}
	// the oracle: whatever descriptor is passed, only the handler registered
	// under the name may run
	for _, tr := range []string{"inproc", "http-server", "http-mux"} {
		for _, id := range descIDs("D") {
			c := caseT{Transport: tr, Base: "/", Set: "D", Op: "NewStream", Desc: id}
			for _, name := range []string{"/pkg.A/S", "/pkg.A/x", "/pkg.A/S/x", "/pkg.A/", "/pkg.F/S", "/pkg.A/M"} {
				c.Name = name
				for _, h := range []string{"pkg.A/S2", "pkg.B/S", "twin:pkg.A/S", "foreign:pkg.F/S", "unregistered:pkg.A/S2"} {
					if clause, _ := check(c, obsT{Ran: map[string]int64{h: 1}, Reply: h, Sent: 1}); clause == "" {
						return fmt.Sprintf("oracle accepts handler %s running for NewStream %q with descriptor %q on %s", h, name, id, tr)
					}
				}
			}
			c.Name = "/pkg.A/S"
			if clause, _ := check(c, obsT{Ran: map[string]int64{"pkg.A/S": 1}, Reply: "pkg.A/S", Sent: 1}); clause != "" {
				return fmt.Sprintf("oracle rejects the registered call with descriptor %q: %s", id, clause)
			}
			c.Name = "/pkg.A/x"
			if clause, _ := check(c, obsT{Ran: map[string]int64{"pkg.A/S": 1}, Reply: "pkg.A/S", Sent: 1}); clause == "" {
				return fmt.Sprintf("oracle accepts pkg.A/S running for an unknown method with descriptor %q", id)
			}
			// decorated registry
			c.Name, c.Deco = "/pkg.A/S", "interceptor"
			ok := obsT{Ran: map[string]int64{"pkg.A/S": 1}, Intercepted: map[string]int64{"interceptor /pkg.A/S": 1}, Reply: "pkg.A/S", Sent: 1}
			if clause, _ := check(c, ok); clause != "" {
				return fmt.Sprintf("oracle rejects the intercepted registered call with descriptor %q: %s", id, clause)
			}
			bypass := obsT{Ran: map[string]int64{"pkg.A/S": 1}, Reply: "pkg.A/S", Sent: 1}
			if clause, _ := check(c, bypass); clause != "interceptor-bypassed" {
				return fmt.Sprintf("oracle says %q for a handler that ran without its interceptor (descriptor %q)", clause, id)
			}
			wrong := obsT{Ran: map[string]int64{"pkg.A/S": 1}, Intercepted: map[string]int64{"interceptor /pkg.A/S2": 1}, Reply: "pkg.A/S", Sent: 1}
			if clause, _ := check(c, wrong); clause == "" {
				return fmt.Sprintf("oracle accepts another method's interceptor (descriptor %q)", id)
			}
			c.Name = "/pkg.A/x"
			if clause, _ := check(c, obsT{Intercepted: map[string]int64{"interceptor /pkg.A/S": 1}, err: errUnimpl, isStat: true, code: unimplCode(tr), Sent: 1}); clause == "" {
				return fmt.Sprintf("oracle accepts an interceptor running for an unknown method (descriptor %q)", id)
			}
			if clause, _ := check(c, obsT{err: errUnimpl, isStat: true, code: unimplCode(tr), Sent: 1}); clause != "" {
				return fmt.Sprintf("oracle rejects a clean failure for an unknown method (descriptor %q): %s", id, clause)
			}
		}
	}
	return ""
}
