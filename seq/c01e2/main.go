// C01, content part (engine E2): every message is delivered exactly once, in
// order and intact — over the input dimension, under the ordinary schedule.
//
// Bounded-exhaustive grammar: message shape (shapes.go) x representation
// (generated / *dynamic.Message, sender and receiver) x RPC kind x number of
// messages per direction 0..3 (unary: exactly one each way; streams with a
// single request / response: exactly one) x handler outcome (nil / error after
// its script) x transport {inprocgrpc.Channel, httpgrpc.Channel over
// common.HandlerRT on httpgrpc.NewServer: real framing of httpgrpc/io.go,
// half-duplex}; plus two RPCs running concurrently on one channel (all pairs of
// kinds), made to overlap by two rendezvous points inside the handlers; plus the
// dimension "the HTTP response is cut" (cut.go): the real server's reply to every
// (shape, representation, kind, response count, handler outcome) is recorded and
// replayed to the real client ending after every byte offset, cleanly and with a
// read error.
//
// Plus the dimension "cloner configuration" (cloners.go): the in-process channel
// with nothing configured / CodecCloner(proto codec) / CloneFunc(f) / CopyFunc(f)
// (f a correct user function of the checker), crossed with what the receiver
// passes as destination: a junk-filled message, a fresh one, or ONE object for
// all receives of the RPC (it still holds the previous message of the stream);
// the destination modes are also run with nothing configured on both transports.
//
// Oracle (harness.go, onRecv / finishChecks): at every receive return the
// message obtained is proto.Equal to the message the peer sent at that position
// and the peer had handed it to the library by then; receive destinations are
// pre-filled with junk and must end equal to the sent message; when client and
// handler both end successfully each side has obtained everything the other
// sent; a valid script with a succeeding handler completes successfully, as it
// does on the standard transport. The same oracle is first applied to grpc-go
// over bufconn on the same grammar: a disagreement there is a checker error
// (exit 2), never a verdict.
package main

import (
	"fmt"
	"os"
	"runtime/debug"
	"sort"
	"time"

	"verif/seq/common"
	"verif/vlib"
)

const hangGuard = 60 * time.Second

func inconclusive(msg string) {
	fmt.Fprintln(os.Stderr, "INCONCLUSIVE:", msg)
	os.Exit(2)
}

func guarded(k kase) outcome {
	return guardedFn(k.key(), func() outcome { return runCase(k) })
}

func guardedFn(name string, fn func() outcome) outcome {
	ch := make(chan outcome, 1)
	go func() { ch <- fn() }()
	t := time.NewTimer(hangGuard)
	defer t.Stop()
	select {
	case o := <-ch:
		return o
	case <-t.C:
		inconclusive(fmt.Sprintf("case %s did not finish within %v (termination is property C05, not decided here)", name, hangGuard))
	}
	panic("unreachable")
}

var kinds = []string{"unary", "client-stream", "server-stream", "bidi"}

func kindIdx(k string) int {
	for i, x := range kinds {
		if x == k {
			return i
		}
	}
	return -1
}

// counts: every (n, m) of the kind with the free counts in 0..max
func counts(kind string, max int) []rpcSpec {
	var out []rpcSpec
	switch kind {
	case "unary":
		out = append(out, rpcSpec{kind, 1, 1})
	case "client-stream":
		for n := 0; n <= max; n++ {
			out = append(out, rpcSpec{kind, n, 1})
		}
	case "server-stream":
		for m := 0; m <= max; m++ {
			out = append(out, rpcSpec{kind, 1, m})
		}
	case "bidi":
		for n := 0; n <= max; n++ {
			for m := 0; m <= max; m++ {
				out = append(out, rpcSpec{kind, n, m})
			}
		}
	}
	return out
}

type repPair struct{ send, recv string }

func reps(s *shape) []repPair {
	out := []repPair{{"gen", "gen"}}
	if s.Dyn >= 1 {
		out = append(out, repPair{"dyn", "dyn"})
	}
	if s.Dyn >= 2 {
		out = append(out, repPair{"dyn", "gen"}, repPair{"gen", "dyn"})
	}
	return out
}

// shapes used for the concurrent pairs in the quick tier
var quickPairShapes = map[string]bool{"zero-len": true, "payload-1": true, "payload-64k+1": true, "msg-shrinking": true, "msg-full": true}

func enumerate(transports []string, thorough bool) []kase {
	var out []kase
	for _, s := range shapes {
		if s.Tier == "thorough" && !thorough {
			continue
		}
		for _, rp := range reps(s) {
			for _, kind := range kinds {
				for _, sp := range counts(kind, 3) {
					for _, herr := range []bool{false, true} {
						for _, tr := range transports {
							out = append(out, kase{Engine: "E2", Transport: tr, Shape: s.Name, SendRep: rp.send, RecvRep: rp.recv, HandlerErr: herr, RPC: sp})
						}
					}
				}
			}
			// the cloner configuration of the in-process channel x what the receiver passes as
			// destination (junk-filled / fresh / one object reused for all receives of the RPC);
			// the destination modes also with nothing configured, on every transport
			for _, cl := range cloners {
				for _, dm := range []string{"", "fresh", "reuse"} {
					if cl == "" && dm == "" {
						continue // above
					}
					for _, kind := range kinds {
						for _, sp := range counts(kind, 3) {
							if !thorough && (sp.N == 2 || sp.M == 2) {
								continue
							}
							for _, herr := range []bool{false, true} {
								if herr && dm != "" {
									continue
								}
								for _, tr := range transports {
									if cl != "" && tr != "inproc" {
										continue
									}
									out = append(out, kase{Engine: "E2", Transport: tr, Shape: s.Name, SendRep: rp.send, RecvRep: rp.recv, HandlerErr: herr, RPC: sp, Cloner: cl, Dest: dm})
								}
							}
						}
					}
				}
			}
			// a sender that reuses one message object for all its sends, with a lagging receiver
			if !isHuge(s) {
				for _, sp := range []rpcSpec{{"client-stream", 3, 1}, {"server-stream", 1, 3}, {"bidi", 3, 3}} {
					for _, tr := range transports {
						out = append(out, kase{Engine: "E2", Transport: tr, Shape: s.Name, SendRep: rp.send, RecvRep: rp.recv, RPC: sp, Reuse: true})
					}
				}
			}
			// a garbage collection (with finalizers) while the client is in its last call on the stream
			if (s.Name == "payload-1" || s.Name == "msg-full") && rp.send == "gen" && rp.recv == "gen" {
				for _, kind := range kinds {
					c := counts(kind, 2)
					for _, tr := range transports {
						out = append(out, kase{Engine: "E2", Transport: tr, Shape: s.Name, SendRep: "gen", RecvRep: "gen", RPC: c[len(c)-1], GC: true})
					}
				}
			}
			// two concurrent RPCs on one channel, every unordered pair of kinds, full scripts
			if !thorough && !(quickPairShapes[s.Name] && rp.send == rp.recv) {
				continue
			}
			if isHuge(s) {
				continue
			}
			max := 2
			if thorough {
				max = 3
			}
			full := func(kind string) rpcSpec { c := counts(kind, max); return c[len(c)-1] }
			for i, ka := range kinds {
				for _, kb := range kinds[i:] {
					for _, tr := range transports {
						b := full(kb)
						out = append(out, kase{Engine: "E2", Transport: tr, Shape: s.Name, SendRep: rp.send, RecvRep: rp.recv, RPC: full(ka), RPC2: &b})
					}
				}
			}
		}
	}
	sort.SliceStable(out, func(i, j int) bool { return lessCase(out[i], out[j]) })
	return out
}

func main() {
	debug.SetMemoryLimit(3 << 30)
	rep := vlib.NewReporter("C01")
	thorough := rep.Tier == "thorough"

	if p := common.Arg("replay"); p != "" {
		var k kase
		if err := common.LoadReplay(p, &k); err != nil {
			inconclusive("cannot load replay: " + err.Error())
		}
		if clonerIdx(k.Cloner) < 0 || (k.Cloner != "" && k.Transport != "inproc") || (k.Dest != "" && k.Dest != "fresh" && k.Dest != "reuse") || (k.Dest != "" && k.Cut != nil) {
			inconclusive("replay file does not describe a case of the C01 content part (cloner / dest)")
		}
		if k.Engine != "E2" || shapeByName[k.Shape] == nil || kindIdx(k.RPC.Kind) < 0 || (k.Transport != "inproc" && k.Transport != "http") {
			inconclusive("replay file does not describe a case of the C01 content part")
		}
		if k.Cut != nil {
			if k.Transport != "http" || k.RPC2 != nil || endingIdx(k.Cut.Ending) < 0 {
				inconclusive("replay file does not describe a cut case of the C01 content part")
			}
			if k.Cut.Reply == nil {
				// a large recording is not embedded: record it anew (single-field shapes, one encoding)
				base := k
				base.Cut = nil
				var rec *reply
				if o := guardedFn(base.key()+" (recording)", func() outcome { var o outcome; rec, o = record(base); return o }); o.Internal != "" || rec == nil || len(rec.Body) != k.Cut.Len {
					inconclusive("cannot record the reply the replay file refers to again (the live run no longer yields one reply of that length)")
				}
				c := *k.Cut
				c.Reply = rec
				k.Cut = &c
			}
			k.Cut.Where = k.Cut.Reply.where(k.RPC.Kind, k.Cut.Off)
		}
		o := guarded(k)
		if o.Internal != "" {
			inconclusive(o.Internal)
		}
		fmt.Printf("replay: %s\n  observed: %s\n", k.key(), o.Observed)
		for _, f := range o.Findings {
			fmt.Printf("  %s|%s: %s\n", classKey(k, f), shapeByName[k.Shape].Group, f.What)
		}
		if len(o.Findings) > 0 {
			fmt.Printf("VIOLATION property=C01 replay=%s\n", p)
			os.Exit(1)
		}
		os.Exit(0)
	}

	// --- the oracle is validated against the standard transport first
	refCases := 0
	for _, k := range enumerate([]string{"grpc"}, thorough) {
		refCases++
		o := guarded(k)
		if o.Internal != "" {
			inconclusive("reference run: " + o.Internal)
		}
		if len(o.Findings) > 0 {
			inconclusive(fmt.Sprintf("the oracle disagrees with grpc-go over bufconn on %s: %s: %s (observed: %s)", k.key(), o.Findings[0].Clause, o.Findings[0].What, o.Observed))
		}
	}

	// --- the two transports of the library
	evals, frames := 0, 0
	distinct := map[string]bool{}
	perClass := map[string]int{}
	var samples []interface{}
	sampled := map[string]bool{}
	var hits []hit
	for _, k := range enumerate([]string{"inproc", "http"}, thorough) {
		evals++
		o := guarded(k)
		if o.Internal != "" {
			inconclusive(o.Internal)
		}
		frames += o.Frames
		if o.Frames > 0 || len(o.Findings) > 0 {
			distinct[k.key()] = true
			c := k.Transport + "|" + k.RPC.Kind
			if k.RPC2 != nil {
				c = k.Transport + "|concurrent"
			}
			perClass[c]++
			if k.Cloner != "" || k.Dest != "" {
				perClass[trLabel(k)+"|dest="+map[string]string{"": "junk", "fresh": "fresh", "reuse": "reuse"}[k.Dest]]++
			}
		}
		sk := k.Transport + "|" + k.RPC.Kind
		if k.RPC2 != nil {
			sk += "+" + k.RPC2.Kind
		}
		if !sampled[sk] && len(samples) < 10 && k.Shape == "msg-full" && k.RPC.N+k.RPC.M >= 2 && (k.RPC2 == nil || k.RPC2.Kind == "bidi") {
			sampled[sk] = true
			samples = append(samples, map[string]interface{}{"case": k, "observed": o.Observed})
		}
		for _, f := range o.Findings {
			hits = append(hits, hit{k, f})
		}
	}
	// --- the HTTP response is cut (cut.go)
	t0 := time.Now()
	cs := sweepCuts(thorough, func(h hit) { hits = append(hits, h) })
	if os.Getenv("C01E2_TIMING") != "" {
		fmt.Fprintf(os.Stderr, "cut sweep: %v, %d bases, %d evals\n", time.Since(t0), cs.bases, cs.evals)
	}
	evals += cs.evals + cs.controls
	frames += cs.frames
	perClass["http|reply-cut"] = cs.distinct
	samples = append(samples, cs.samples...)

	for _, r := range group(hits) {
		what := fmt.Sprintf("[%s] %s", r.first.k.key(), r.first.f.What)
		if r.n > 1 {
			what += fmt.Sprintf(" [%d findings of the grammar fall in this class; the replay is the simplest case]", r.n)
		}
		rep.Violation(r.fp, what, forReplay(r.first.k))
	}

	classes := map[string]interface{}{}
	for c, n := range perClass {
		classes[c] = n
	}
	nShapes := 0
	for _, s := range shapes {
		if s.Tier != "thorough" || thorough {
			nShapes++
		}
	}
	os.Exit(rep.Finish("exploration", map[string]interface{}{
		"evaluations":         evals,
		"distinct_nontrivial": len(distinct) + cs.distinct,
		"rule": "every (shape, sender/receiver representation, RPC kind, request count, response count, handler outcome, transport) of the grammar, and every unordered pair of kinds run concurrently on one channel, " +
			"and, for the in-process channel, every cloner configuration (none / CodecCloner / CloneFunc / CopyFunc) x receive destination (junk-filled / fresh / one reused object) [the destination modes with no cloner configured on both transports; quick tier: counts 0, 1, 3] " +
			"is run through the real channel and server. A case is non-trivial when at least one message was obtained by a receiver through the transport and compared with the message sent at that position " +
			"(in-process: frame through the per-RPC Go channel and the cloner; HTTP: unary body or length-prefixed frame of io.go), or a clause failed; distinct by all case parameters. " +
			"Reply-cut dimension (HTTP): for every (shape, representation pair, kind, response count 0..3, handler outcome) with one request the real server's reply is recorded once and replayed to the real client cut after every offset of the sweep " +
			"(every byte offset for replies up to cut.all_offsets_up_to_bytes, cut.all_offsets_up_to_bytes_failing_handler when the handler fails; for longer replies every offset within 8 bytes of an end of the body, a frame start / payload start / end, the start or value start of a top-level field of a message, or a power of two >= 512) " +
			"under every ending the reply can have (eof only without Content-Length; unexpected-eof; reset), plus the complete body followed by a read error for replies without Content-Length. " +
			"A cut case is non-trivial when the reply is one whose body carries the messages (HTTP 200 without X-GRPC-Status) and the real client had read every byte of the cut body when it returned (measured in the body reader), or a clause failed; distinct by base case, offset and ending.",
		"samples":                 samples,
		"exhaustive":              true,
		"shapes":                  nShapes,
		"messages_compared":       frames,
		"nontrivial_by_class":     classes,
		"reference_cases_on_grpc": refCases,
		"reference_disagreements": 0,
		"cut": map[string]interface{}{
			"base_cases": cs.bases, "base_cases_without_a_single_reply": cs.basesSkipped, "evaluations": cs.evals, "intact_reply_controls": cs.controls,
			"bases_with_every_offset": cs.allOffsetBases, "bases_with_offset_windows": cs.windowBases, "all_offsets_up_to_bytes": sweepAllBelow(thorough, false), "all_offsets_up_to_bytes_failing_handler": sweepAllBelow(thorough, true), "longest_reply_cut_at_every_offset": cs.maxAll,
			"nontrivial": cs.distinct, "nontrivial_by_place": cs.byWhere, "nontrivial_by_ending": cs.byEnding,
		},
		"engine": "E2",
		"part":   "content (input dimension) under the ordinary schedule; interleavings are the E1 part",
	}, []string{
		"HTTP runs through common.HandlerRT (httptest recorder): the response is complete when RoundTrip returns, so streams are half-duplex and net/http's connection handling is not exercised",
		"only the ordinary Go schedule is seen here; the two concurrent RPCs are forced to overlap by two rendezvous points in the handlers (before the first request is decoded / received, and before the first response is sent)",
		"equality is proto.Equal; a dynamic message is judged on its deterministic wire form parsed into the generated type",
		"the oracle passed on grpc-go v1.57.1 over bufconn for the whole grammar before the library was run (receive limits raised to 64 MiB)",
		"reply-cut dimension: the reply is replayed by a RoundTripper of the checker (recorded status line and headers, Content-Length kept) after it has taken the whole request; no handler runs during a replay. " +
			"The recorded bytes are those of this run (the encoding of map fields varies between runs, the set of offsets does not). A reply with Content-Length never ends cleanly before that many bytes, as on any HTTP transport (net/http reports io.ErrUnexpectedEOF); " +
			"before any cut the intact recording is replayed and must give the client what the live run gave it. The dimension is swept around base cases with one request and is not crossed with the concurrent-pair, gc and reuse cases. " +
			"Only C01 is judged: messages obtained equal the messages sent position by position, and success only with everything obtained; which error is reported is not looked at",
	}))
}
