package main

// The dimension "the HTTP response is cut" (HTTP transport only).
//
// For every base case (shape x representation x kind x response count x handler
// outcome, one request) the genuine reply of the real server is recorded once
// (status code, headers, body) and then replayed to the real client through a
// RoundTripper whose body ends after off bytes, for every offset of the sweep
// and every ending:
//
//	eof             the body ends cleanly (io.EOF)
//	unexpected-eof  the body read fails with io.ErrUnexpectedEOF
//	reset           the body read fails with a connection-reset *net.OpError
//
// Status line and headers are those of the recording, Content-Length included.
// A reply that carries Content-Length cannot end cleanly before that many bytes
// on any HTTP transport (net/http's body reader turns the short body into
// io.ErrUnexpectedEOF, and http.Response.ContentLength promises the bytes), so
// the ending "eof" is enumerated only for replies without Content-Length.
//
// Oracle (C01 only, nothing about which error is reported): every message the
// caller obtains is equal to the message the handler sent at that position
// (rpcRun.onRecv: this also makes the obtained sequence a prefix of the sent
// one, and forbids a message the handler never sent), and the call is reported
// successful (Invoke nil / RecvMsg io.EOF / the single response received) only
// if the caller obtained everything the handler sent.

import (
	"bytes"
	"encoding/binary"
	"fmt"
	"io"
	"net"
	"net/http"
	"net/url"
	"os"
	"runtime"
	"sort"
	"strconv"
	"sync"
	"sync/atomic"
	"syscall"

	"google.golang.org/protobuf/encoding/protowire"
	"google.golang.org/protobuf/proto"

	"github.com/fullstorydev/grpchan/httpgrpc"

	"verif/seq/common"
)

type cutSpec struct {
	Off    int    `json:"off"`       // number of reply body bytes that arrive
	Ending string `json:"ending"`    // eof | unexpected-eof | reset
	Where  string `json:"where"`     // where in the reply the cut falls (derived from the recorded body)
	Len    int    `json:"reply_len"` // length of the complete recorded body
	// Reply is the recording the cut applies to. It is part of the replay
	// object because the encoding of a message with map fields differs from run
	// to run; absent for bodies over maxReplayBody, which are recorded anew (the
	// shapes concerned have a single field and one encoding).
	Reply *reply `json:"reply,omitempty"`
}

type reply struct {
	Code   int         `json:"code"`
	Header http.Header `json:"header"`
	Body   []byte      `json:"body"`
	// what the live run, whose reply this is, did
	Sent         int  `json:"sent"`          // responses the handler had handed to the library
	LiveObtained int  `json:"live_obtained"` // responses the client obtained from the intact reply
	LiveOK       bool `json:"live_ok"`       // the client's call on the intact reply ended successfully

	marks *replyMarks
	fixed fixedParts
}

// fixedParts: built once per recording and used by all its replays (which run
// one after the other): the request messages, which no handler ever sees and
// which the client only encodes, and the messages the obtained ones are compared
// with, which the library never sees.
type fixedParts struct {
	reqs  map[int]interface{}
	wants map[string]proto.Message
	junk  proto.Message
}

// dest: a fresh receive destination holding the junk content (a deep copy of
// one prototype instead of building the prototype anew every time).
func (f *fixedParts) dest(r *rpcRun) interface{} {
	if f.junk == nil {
		f.junk = junk(r.shape.Type)
	}
	return inRep(proto.Clone(f.junk), r.k.RecvRep)
}

func (f *fixedParts) request(r *rpcRun, idx int) interface{} {
	if f.reqs == nil {
		f.reqs = map[int]interface{}{}
	}
	if f.reqs[idx] == nil {
		f.reqs[idx] = inRep(r.shape.build(variant(r.id, "req", idx)), r.k.SendRep)
	}
	return f.reqs[idx]
}

func (f *fixedParts) want(r *rpcRun, dir string, idx int) proto.Message {
	if f.wants == nil {
		f.wants = map[string]proto.Message{}
	}
	key := fmt.Sprint(dir, idx)
	if f.wants[key] == nil {
		f.wants[key] = r.shape.build(variant(r.id, dir, idx))
	}
	return f.wants[key]
}

const maxReplayBody = 256 << 10

var endings = []string{"eof", "unexpected-eof", "reset"}

func endingIdx(e string) int {
	for i, x := range endings {
		if x == e {
			return i
		}
	}
	return -1
}

func (rec *reply) contentLength() int64 {
	if v := rec.Header.Get("Content-Length"); v != "" {
		if n, err := strconv.ParseInt(v, 10, 64); err == nil {
			return n
		}
	}
	return -1
}

// carriesMessages: the body is what the client decodes messages from.
func (rec *reply) carriesMessages() bool {
	return rec.Code == 200 && rec.Header.Get("X-GRPC-Status") == ""
}

// ------------------------------------------------------------ recording

// record runs the base case on the real server and keeps the complete reply.
func record(base kase) (*reply, outcome) {
	var rec *reply
	calls := 0
	o := runCaseWrap(base, func(inner http.RoundTripper) http.RoundTripper {
		return common.RT(func(r *http.Request) (*http.Response, error) {
			resp, err := inner.RoundTrip(r)
			if err != nil {
				return resp, err
			}
			b, _ := io.ReadAll(resp.Body)
			resp.Body.Close()
			calls++
			rec = &reply{Code: resp.StatusCode, Header: resp.Header.Clone(), Body: b}
			resp.Body = io.NopCloser(bytes.NewReader(b))
			return resp, nil
		})
	})
	if o.Internal != "" || rec == nil || calls != 1 || len(o.runs) != 1 {
		return nil, o
	}
	r := o.runs[0]
	rec.Sent = int(atomic.LoadInt32(&r.started[1]))
	rec.LiveObtained = len(r.recvd[1])
	rec.LiveOK = r.cliErr == nil
	return rec, o
}

// ------------------------------------------------------------ the structure of a recorded body

type frame struct {
	start, payload, end int
	trailer             bool
}

type replyMarks struct {
	kind     string
	frames   []frame      // streams
	fieldAt  map[int]bool // offsets at which a top-level field of a message (unary body / data frame) starts or the message ends
	fieldVal map[int]bool // offsets at which the value of such a field starts (after tag and length)
}

func fieldMarks(b []byte, base int, at, val map[int]bool) {
	pos := 0
	at[base] = true
	for pos < len(b) {
		_, typ, n := protowire.ConsumeTag(b[pos:])
		if n < 0 {
			return
		}
		vstart := pos + n
		if typ == protowire.BytesType {
			_, ln := protowire.ConsumeVarint(b[vstart:])
			if ln < 0 {
				return
			}
			vstart += ln
		}
		m := protowire.ConsumeFieldValue(0, typ, b[pos+n:])
		if m < 0 {
			return
		}
		val[base+vstart] = true
		pos += n + m
		at[base+pos] = true
	}
}

func (rec *reply) structure(kind string) *replyMarks {
	if rec.marks != nil && rec.marks.kind == kind {
		return rec.marks
	}
	m := &replyMarks{kind: kind, fieldAt: map[int]bool{}, fieldVal: map[int]bool{}}
	b := rec.Body
	switch {
	case !rec.carriesMessages():
	case kind == "unary":
		fieldMarks(b, 0, m.fieldAt, m.fieldVal)
	default:
		for pos := 0; pos+4 <= len(b); {
			sz := int(int32(binary.BigEndian.Uint32(b[pos:])))
			f := frame{start: pos, payload: pos + 4}
			if sz < 0 {
				f.trailer, sz = true, -sz
			}
			f.end = f.payload + sz
			if f.end > len(b) {
				f.end = len(b)
			}
			if !f.trailer {
				fieldMarks(b[f.payload:f.end], f.payload, m.fieldAt, m.fieldVal)
			}
			m.frames = append(m.frames, f)
			pos = f.end
		}
	}
	rec.marks = m
	return m
}

// where names the place of the cut in the reply (never the offset itself).
func (rec *reply) where(kind string, off int) string {
	m := rec.structure(kind)
	switch {
	case off == len(rec.Body):
		return "complete"
	case off == 0:
		return "empty-body"
	case !rec.carriesMessages():
		return "inside-error-body"
	case kind == "unary":
		if m.fieldAt[off] {
			return "at-field-boundary"
		}
		return "inside-field"
	}
	for _, f := range m.frames {
		what := "data"
		if f.trailer {
			what = "trailer"
		}
		switch {
		case off == f.start:
			return "at-frame-boundary"
		case off < f.payload:
			return "inside-" + what + "-size-preface"
		case off < f.end:
			if !f.trailer && m.fieldAt[off] {
				return "inside-data-frame-at-field-boundary"
			}
			return "inside-" + what + "-frame"
		}
	}
	return "unclassified"
}

const cutWindow = 8

// offsets of the sweep. all: every offset 0..len-1. Otherwise: every offset
// within cutWindow bytes of a mark, the marks being: both ends of the body, the
// start, payload start and end of every frame, the start and the value start of
// every top-level field of every message, and every power of two from 512 up.
func (rec *reply) offsets(kind string, all bool) []int {
	n := len(rec.Body)
	var out []int
	if all {
		for i := 0; i < n; i++ {
			out = append(out, i)
		}
		return out
	}
	m := rec.structure(kind)
	marks := map[int]bool{0: true, n: true}
	for _, f := range m.frames {
		marks[f.start], marks[f.payload], marks[f.end] = true, true, true
	}
	for o := range m.fieldAt {
		marks[o] = true
	}
	for o := range m.fieldVal {
		marks[o] = true
	}
	for p := 512; p < n; p *= 2 {
		marks[p] = true
	}
	set := map[int]bool{}
	for mk := range marks {
		for o := mk - cutWindow; o <= mk+cutWindow; o++ {
			if o >= 0 && o < n {
				set[o] = true
			}
		}
	}
	for o := range set {
		out = append(out, o)
	}
	sort.Ints(out)
	return out
}

// cutsOf: the cuts of one recording. Every proper prefix of the sweep under
// every ending the reply can have; for a reply without Content-Length also the
// complete body followed by a read error instead of the end of the body.
func (rec *reply) cutsOf(kind string, all bool) []cutSpec {
	hasCL := rec.contentLength() >= 0
	var out []cutSpec
	mk := func(off int, e string) {
		out = append(out, cutSpec{Off: off, Ending: e, Where: rec.where(kind, off), Len: len(rec.Body), Reply: rec})
	}
	for _, off := range rec.offsets(kind, all) {
		for _, e := range endings {
			if e == "eof" && hasCL {
				continue
			}
			mk(off, e)
		}
	}
	if !hasCL {
		mk(len(rec.Body), "unexpected-eof")
		mk(len(rec.Body), "reset")
	}
	return out
}

// ------------------------------------------------------------ replaying

type cutBody struct {
	r         *bytes.Reader
	end       error
	delivered *int32
}

func (b *cutBody) Read(p []byte) (int, error) {
	n, err := b.r.Read(p)
	if b.r.Len() == 0 {
		atomic.StoreInt32(b.delivered, 1) // the reader has been given every byte that arrives
	}
	if err == io.EOF {
		return n, b.end
	}
	return n, err
}
func (b *cutBody) Close() error { return nil }

func endingError(e string) error {
	switch e {
	case "unexpected-eof":
		return io.ErrUnexpectedEOF
	case "reset":
		return &net.OpError{Op: "read", Net: "tcp", Err: os.NewSyscallError("read", syscall.ECONNRESET)}
	}
	return io.EOF
}

// cutRT takes the whole request, then answers with the recorded status line and
// headers and the first off bytes of the recorded body.
func cutRT(rec *reply, cut *cutSpec, delivered *int32) http.RoundTripper {
	return common.RT(func(r *http.Request) (*http.Response, error) {
		if r.Body != nil {
			io.Copy(io.Discard, r.Body)
			r.Body.Close()
		}
		end := endingError(cut.Ending)
		cl := rec.contentLength()
		if cl >= 0 && int64(cut.Off) < cl && end == io.EOF {
			end = io.ErrUnexpectedEOF // what an HTTP transport makes of a body shorter than its Content-Length
		}
		return &http.Response{StatusCode: rec.Code, Status: fmt.Sprintf("%d %s", rec.Code, http.StatusText(rec.Code)),
			Proto: "HTTP/1.1", ProtoMajor: 1, ProtoMinor: 1, Header: rec.Header.Clone(), ContentLength: cl,
			Body: &cutBody{r: bytes.NewReader(rec.Body[:cut.Off]), end: end, delivered: delivered}, Request: r}, nil
	})
}

var closedCh = func() chan struct{} { c := make(chan struct{}); close(c); return c }()

// runCut replays the (cut) recorded reply to the real client. No handler runs.
func runCut(k kase) (o outcome) {
	s := shapeByName[k.Shape]
	c := k.Cut
	rec := c.Reply
	if s == nil || rec == nil || c.Off < 0 || c.Off > len(rec.Body) || endingIdx(c.Ending) < 0 || k.Transport != "http" || k.RPC2 != nil {
		o.Internal = "not a valid cut case: " + k.key()
		return
	}
	r := &rpcRun{id: 0, k: k, spec: k.RPC, shape: s, srvDone: closedCh, abort: closedCh,
		tok: [2]chan int{make(chan int, 8), make(chan int, 8)}}
	r.all = []*rpcRun{r}
	r.fixed = &rec.fixed
	r.started[1] = int32(rec.Sent)
	var delivered int32
	u, _ := url.Parse("http://example.test/")
	r.client(&httpgrpc.Channel{Transport: cutRT(rec, c, &delivered), BaseURL: u}, methodName(k.RPC.Kind))

	got := len(r.recvd[1])
	if c.Off == len(rec.Body) && c.Ending == "eof" {
		// control: the intact reply must do to the client what it did in the live run
		if got != rec.LiveObtained || (r.cliErr == nil) != rec.LiveOK {
			o.Internal = fmt.Sprintf("replaying the intact recorded reply of %s gives the client %d message(s), result %s; the live run gave %d, success=%v", k.key(), got, errStr(r.cliErr), rec.LiveObtained, rec.LiveOK)
			return
		}
	}
	if r.cliErr == nil && got < rec.Sent {
		r.add("lost", "resp", fmt.Sprintf("the call is reported successful although the caller obtained %d of the %d message(s) the handler sent", got, rec.Sent))
	}
	for i := range r.findings {
		r.findings[i].What = fmt.Sprintf("reply (http %d, %d body bytes, %s) cut after %d bytes [%s], ending %s: %s", rec.Code, len(rec.Body),
			map[bool]string{true: "with Content-Length", false: "no Content-Length"}[rec.contentLength() >= 0], c.Off, rec.where(k.RPC.Kind, c.Off), c.Ending, r.findings[i].What)
	}
	o.Findings = r.findings
	o.Frames = r.frames
	o.cutDelivered = atomic.LoadInt32(&delivered) == 1
	o.Observed = fmt.Sprintf("%s: handler had sent %d, reply cut after %d of %d bytes [%s] ending %s: client obtained %d response(s), client result %s",
		k.RPC.Kind, rec.Sent, c.Off, len(rec.Body), rec.where(k.RPC.Kind, c.Off), c.Ending, got, errStr(r.cliErr))
	return
}

// ------------------------------------------------------------ the sweep

// cutSpecsOfKind: one request; every response count of the kind.
func cutSpecsOfKind(kind string, maxM int) []rpcSpec {
	switch kind {
	case "unary", "client-stream":
		return []rpcSpec{{kind, 1, 1}}
	}
	var out []rpcSpec
	for m := 0; m <= maxM; m++ {
		out = append(out, rpcSpec{kind, 1, m})
	}
	return out
}

// cutBases: the base cases whose replies are cut, simplest first.
func cutBases(thorough bool) []kase {
	var out []kase
	for _, s := range shapes {
		if s.Tier == "thorough" && !thorough {
			continue
		}
		maxM := 3
		if isHuge(s) {
			maxM = 1
		}
		for _, rp := range reps(s) {
			for _, kind := range kinds {
				for _, sp := range cutSpecsOfKind(kind, maxM) {
					for _, herr := range []bool{false, true} {
						out = append(out, kase{Engine: "E2", Transport: "http", Shape: s.Name, SendRep: rp.send, RecvRep: rp.recv, HandlerErr: herr, RPC: sp})
					}
				}
			}
		}
	}
	sort.SliceStable(out, func(i, j int) bool { return lessCase(out[i], out[j]) })
	return out
}

// every offset of a reply up to this size is cut; above it, the windows of
// offsets (see offsets)
func sweepAllBelow(thorough, handlerErr bool) int {
	if thorough && !handlerErr {
		// (a reply to a failing handler differs from the reply to a succeeding one in its trailer frame only)
		return 80 << 10
	}
	return 2 << 10
}

type cutStats struct {
	bases, basesSkipped, evals, controls int
	allOffsetBases, windowBases          int
	maxAll                               int
	distinct                             int
	frames                               int
	byWhere, byEnding                    map[string]int
	samples                              []interface{}
}

// baseResult: what the sweep around one base case produced.
type baseResult struct {
	skipped bool
	st      cutStats
	hits    []hit
	samples []sampleCand
}

type sampleCand struct {
	key    string
	sample interface{}
}

func sweepBase(base kase, thorough bool) (res baseResult) {
	st := &res.st
	st.byWhere, st.byEnding = map[string]int{}, map[string]int{}
	var rec *reply
	ro := guardedFn(base.key()+" (recording)", func() outcome {
		var o outcome
		rec, o = record(base)
		return o
	})
	if ro.Internal != "" {
		inconclusive("recording " + base.key() + ": " + ro.Internal)
	}
	if rec == nil {
		// the live run did not produce exactly one reply (its own findings are reported by the main grammar)
		res.skipped = true
		return
	}
	st.bases = 1
	all := len(rec.Body) <= sweepAllBelow(thorough, base.HandlerErr)
	if all {
		st.allOffsetBases, st.maxAll = 1, len(rec.Body)
	} else {
		st.windowBases = 1
	}
	// control first: the intact reply, replayed
	ctl := base
	ctl.Cut = &cutSpec{Off: len(rec.Body), Ending: "eof", Where: "complete", Len: len(rec.Body), Reply: rec}
	o := guarded(ctl)
	if o.Internal != "" {
		inconclusive(o.Internal)
	}
	st.controls = 1
	for _, f := range o.Findings {
		res.hits = append(res.hits, hit{ctl, f})
	}
	wantM := 1
	if serverStreams(base.RPC.Kind) {
		wantM = 2
	}
	sampleBase := base.Shape == "msg-full" && !base.HandlerErr && base.SendRep == "gen" && base.RecvRep == "gen" && base.RPC.M == wantM
	for _, c := range rec.cutsOf(base.RPC.Kind, all) {
		c := c
		k := base
		k.Cut = &c
		o := guarded(k)
		if o.Internal != "" {
			inconclusive(o.Internal)
		}
		st.evals++
		st.frames += o.Frames
		if (o.cutDelivered && rec.carriesMessages()) || len(o.Findings) > 0 {
			st.distinct++
			st.byWhere[c.Where]++
			st.byEnding[c.Ending]++
		}
		// samples: one cut per (kind, place) at the places where a prefix of the reply is well-formed in itself
		if sampleBase && c.Ending == "unexpected-eof" && (c.Where == "empty-body" || c.Where == "at-field-boundary" || (c.Where == "inside-data-frame-at-field-boundary" && c.Off > 4) || c.Where == "at-frame-boundary") {
			ks, cs := k, c
			cs.Reply = nil
			ks.Cut = &cs
			res.samples = append(res.samples, sampleCand{base.RPC.Kind + "|" + c.Where, map[string]interface{}{"case": ks, "observed": o.Observed}})
		}
		for _, f := range o.Findings {
			res.hits = append(res.hits, hit{k, f})
		}
	}
	return
}

// sweepCuts runs the whole dimension; each finding goes to onHit. The base
// cases are independent of each other and are worked on by several goroutines;
// results are merged in the order of the enumeration.
func sweepCuts(thorough bool, onHit func(hit)) cutStats {
	bases := cutBases(thorough)
	results := make([]baseResult, len(bases))
	workers := runtime.GOMAXPROCS(0)
	if workers > 16 {
		workers = 16
	}
	var next int32 = -1
	var wg sync.WaitGroup
	for w := 0; w < workers; w++ {
		wg.Add(1)
		go func() {
			defer wg.Done()
			for {
				i := int(atomic.AddInt32(&next, 1))
				if i >= len(bases) {
					return
				}
				results[i] = sweepBase(bases[i], thorough)
			}
		}()
	}
	wg.Wait()

	st := cutStats{byWhere: map[string]int{}, byEnding: map[string]int{}}
	sampled := map[string]bool{}
	for _, r := range results {
		if r.skipped {
			st.basesSkipped++
			continue
		}
		st.bases += r.st.bases
		st.evals += r.st.evals
		st.controls += r.st.controls
		st.allOffsetBases += r.st.allOffsetBases
		st.windowBases += r.st.windowBases
		if r.st.maxAll > st.maxAll {
			st.maxAll = r.st.maxAll
		}
		st.distinct += r.st.distinct
		st.frames += r.st.frames
		for k, v := range r.st.byWhere {
			st.byWhere[k] += v
		}
		for k, v := range r.st.byEnding {
			st.byEnding[k] += v
		}
		for _, sc := range r.samples {
			if !sampled[sc.key] && len(st.samples) < 12 {
				sampled[sc.key] = true
				st.samples = append(st.samples, sc.sample)
			}
		}
		for _, h := range r.hits {
			onHit(h)
		}
	}
	return st
}

// forReplay: the replay object of a cut case (large recordings are not embedded).
func forReplay(k kase) kase {
	if k.Cut != nil && k.Cut.Reply != nil && len(k.Cut.Reply.Body) > maxReplayBody {
		c := *k.Cut
		c.Reply = nil
		k.Cut = &c
	}
	return k
}
