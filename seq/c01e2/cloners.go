package main

// The cloner configurations of the in-process channel (inprocgrpc/cloner.go):
// nothing configured (ProtoCloner), CodecCloner over the registered proto codec,
// CloneFunc and CopyFunc around a user function. The user functions are the
// checker's own and are correct by construction (an independent deep copy made
// through the wire form, the destination emptied first), so that whatever a
// receiver obtains differently from what was sent is the library's doing: the
// adapter code of cloner.go and its use in in_process.go.

import (
	"fmt"

	"github.com/jhump/protoreflect/dynamic"
	"google.golang.org/grpc/encoding"
	grpcproto "google.golang.org/grpc/encoding/proto"
	"google.golang.org/protobuf/proto"

	"github.com/fullstorydev/grpchan/inprocgrpc"
)

var cloners = []string{"", "codec", "clonefunc", "copyfunc"}

func clonerIdx(c string) int {
	for i, x := range cloners {
		if x == c {
			return i
		}
	}
	return -1
}

func clonerFor(name string) (inprocgrpc.Cloner, error) {
	switch name {
	case "codec":
		c := encoding.GetCodec(grpcproto.Name)
		if c == nil {
			return nil, fmt.Errorf("no codec registered under %q", grpcproto.Name)
		}
		return inprocgrpc.CodecCloner(c), nil
	case "clonefunc":
		return inprocgrpc.CloneFunc(userClone), nil
	case "copyfunc":
		return inprocgrpc.CopyFunc(userCopy), nil
	}
	return nil, fmt.Errorf("unknown cloner configuration %q", name)
}

func wireOf(in interface{}) ([]byte, error) {
	switch x := in.(type) {
	case *dynamic.Message:
		return x.Marshal()
	case proto.Message:
		return proto.MarshalOptions{AllowPartial: true}.Marshal(x)
	}
	return nil, fmt.Errorf("user cloner: not a protobuf message: %T", in)
}

// userClone: a new message of the same kind with the same content.
func userClone(in interface{}) (interface{}, error) {
	b, err := wireOf(in)
	if err != nil {
		return nil, err
	}
	switch x := in.(type) {
	case *dynamic.Message:
		c := dynamic.NewMessage(x.GetMessageDescriptor())
		if err := c.Unmarshal(b); err != nil {
			return nil, err
		}
		return c, nil
	case proto.Message:
		c := x.ProtoReflect().New().Interface()
		if err := (proto.UnmarshalOptions{AllowPartial: true}).Unmarshal(b, c); err != nil {
			return nil, err
		}
		return c, nil
	}
	return nil, fmt.Errorf("user cloner: not a protobuf message: %T", in)
}

// userCopy: out is made to hold exactly the content of in.
func userCopy(out, in interface{}) error {
	b, err := wireOf(in)
	if err != nil {
		return err
	}
	switch x := out.(type) {
	case *dynamic.Message:
		return x.Unmarshal(b) // resets first
	case proto.Message:
		return proto.UnmarshalOptions{AllowPartial: true}.Unmarshal(b, x) // resets first
	}
	return fmt.Errorf("user cloner: destination is not a protobuf message: %T", out)
}
