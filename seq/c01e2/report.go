package main

import (
	"fmt"
	"sort"
)

// Fingerprints. A finding falls in a class (transport, kind, direction, clause)
// and, within it, in a content group. To keep one cause from showing up under
// dozens of names: a class that fires in more than two content groups is
// reported once with group "any"; a finding that needs a dynamic message says so
// (suffix dyn) and is folded into the plain one when that fires too; findings in
// the concurrent-pair and gc cases are reported only when no single-RPC case of
// the same transport, direction and clause fails (cross-talk is always reported);
// so are findings with a fresh or reused receive destination (the junk-filled
// destination is the plain case). A cloner configuration of the in-process
// channel is part of the transport label: inproc[clonefunc].

func kindLabel(k kase) string {
	kind := k.RPC.Kind
	if k.RPC2 != nil {
		kind = "concurrent"
	}
	if k.GC {
		kind += "+gc"
	}
	if k.Reuse {
		kind += "+reuse"
	}
	if k.Dest != "" {
		kind += "+dest=" + k.Dest
	}
	if k.Cut != nil {
		// the reply is cut: where and how is part of the class, the offset is not
		kind += "+cut(" + k.Cut.Where + "," + k.Cut.Ending + ")"
	}
	return kind
}

// trLabel: the transport and, for the in-process channel, its cloner
// configuration when one is set: a different configuration is different code.
func trLabel(k kase) string {
	if k.Cloner != "" {
		return k.Transport + "[" + k.Cloner + "]"
	}
	return k.Transport
}

func classKey(k kase, f finding) string {
	return fmt.Sprintf("C01|%s|%s|%s|%s", trLabel(k), kindLabel(k), f.Dir, f.Clause)
}

func baseKey(k kase, f finding) string { return trLabel(k) + "|" + f.Dir + "|" + f.Clause }

func primary(k kase) bool {
	return k.RPC2 == nil && !k.GC && !k.Reuse && k.Cut == nil && k.Dest == ""
}

func plain(k kase) bool { return k.SendRep == "gen" && k.RecvRep == "gen" }

type hit struct {
	k kase
	f finding
}

type reported struct {
	fp    string
	first hit
	n     int
}

func group(hits []hit) []reported {
	prim := map[string]bool{}
	for _, h := range hits {
		if primary(h.k) {
			prim[baseKey(h.k, h.f)] = true
		}
	}
	type cls struct {
		groups map[string][]hit
		order  []string
	}
	classes := map[string]*cls{}
	var order []string
	for _, h := range hits {
		keep := h.f.Clause == "cross-talk" || (h.k.GC && h.f.Clause == "unexpected-failure") // what these cases are for
		if !primary(h.k) && !keep && prim[baseKey(h.k, h.f)] {
			continue
		}
		ck := classKey(h.k, h.f)
		c := classes[ck]
		if c == nil {
			c = &cls{groups: map[string][]hit{}}
			classes[ck] = c
			order = append(order, ck)
		}
		g := shapeByName[h.k.Shape].Group
		if h.k.GC {
			g = "any" // the content plays no part in these cases
		}
		if c.groups[g] == nil {
			c.order = append(c.order, g)
		}
		c.groups[g] = append(c.groups[g], h)
	}
	var out []reported
	for _, ck := range order {
		c := classes[ck]
		sets, names := c.groups, c.order
		if len(c.order) > 2 {
			var all []hit
			for _, g := range c.order {
				all = append(all, c.groups[g]...)
			}
			sort.SliceStable(all, func(i, j int) bool { return lessCase(all[i].k, all[j].k) })
			sets, names = map[string][]hit{"any": all}, []string{"any"}
		}
		for _, g := range names {
			hs := sets[g]
			fp := ck + "|" + g
			first, isPlain := hs[0], false
			for _, h := range hs {
				if plain(h.k) {
					first, isPlain = h, true
					break
				}
			}
			if !isPlain {
				fp += "|dyn"
			}
			out = append(out, reported{fp: fp, first: first, n: len(hs)})
		}
	}
	return out
}

// rank orders the grammar simplest-first.
func rank(k kase) []int {
	pair, n := 0, k.RPC.N+k.RPC.M
	if k.RPC2 != nil {
		pair, n = 1, n+k.RPC2.N+k.RPC2.M
	}
	if k.GC {
		pair = 2
	}
	if k.Reuse {
		pair = 3
	}
	herr := 0
	if k.HandlerErr {
		herr = 1
	}
	dyn := 0
	if k.SendRep == "dyn" {
		dyn++
	}
	if k.RecvRep == "dyn" {
		dyn++
	}
	off, end := 0, 0
	if k.Cut != nil {
		pair, off, end = 4, k.Cut.Off, endingIdx(k.Cut.Ending)
	}
	destIdx := map[string]int{"": 0, "fresh": 1, "reuse": 2}[k.Dest]
	return []int{pair, clonerIdx(k.Cloner), destIdx, herr, n, shapeByName[k.Shape].Index, dyn, kindIdx(k.RPC.Kind), off, end}
}

func lessCase(x, y kase) bool {
	a, b := rank(x), rank(y)
	for i := range a {
		if a[i] != b[i] {
			return a[i] < b[i]
		}
	}
	return false
}
