package main

// The message pool of the C01 content part. A shape builds a fresh message for a
// variant number v; v encodes (rpc, direction, index) so that every message of
// a case is distinguishable from every other one wherever the shape has any
// content to vary. Nothing is shared between two builds.

import (
	"errors"
	"fmt"
	"math"
	"sync"

	protov1 "github.com/golang/protobuf/proto"
	"github.com/jhump/protoreflect/desc"
	"github.com/jhump/protoreflect/dynamic"
	"google.golang.org/protobuf/encoding/protowire"
	"google.golang.org/protobuf/proto"
	"google.golang.org/protobuf/reflect/protoreflect"
	"google.golang.org/protobuf/reflect/protoregistry"
	"google.golang.org/protobuf/types/descriptorpb"
	"google.golang.org/protobuf/types/known/anypb"
	"google.golang.org/protobuf/types/known/emptypb"
	"google.golang.org/protobuf/types/known/structpb"
	"google.golang.org/protobuf/types/known/wrapperspb"

	"github.com/fullstorydev/grpchan/grpchantesting"
)

type shape struct {
	Name  string
	Group string // part of the fingerprint: which kind of content
	Tier  string // "thorough": only in the thorough tier
	// Dyn: 0 = generated messages only; 1 = also sent and received as
	// *dynamic.Message; 2 = also the two mixed pairings (sender dynamic /
	// receiver generated and the reverse)
	Dyn   int
	Type  string
	Index int
	build func(v int) proto.Message
}

var shapes []*shape
var shapeByName = map[string]*shape{}

func add(s *shape) {
	s.Type = string(s.build(0).ProtoReflect().Descriptor().FullName())
	s.Index = len(shapes)
	if shapeByName[s.Name] != nil {
		panic("duplicate shape " + s.Name)
	}
	shapes = append(shapes, s)
	shapeByName[s.Name] = s
}

// pat: n bytes that differ for different v (and are not periodic in 256)
func pat(n, v int) []byte {
	b := make([]byte, n)
	for i := range b {
		b[i] = byte(i*7 + v*13 + (i >> 8) + 1)
	}
	return b
}

func unk(seed int) []byte {
	var b []byte
	b = protowire.AppendTag(b, 100, protowire.VarintType)
	b = protowire.AppendVarint(b, uint64(seed)+6)
	b = protowire.AppendTag(b, 101, protowire.Fixed32Type)
	b = protowire.AppendFixed32(b, 0x01020300+uint32(seed))
	b = protowire.AppendTag(b, 102, protowire.BytesType)
	b = protowire.AppendBytes(b, []byte{byte(seed), 'u', 'n', 'k'})
	b = protowire.AppendTag(b, 103, protowire.Fixed64Type)
	b = protowire.AppendFixed64(b, 0x0102030405060700+uint64(seed))
	return b
}

func withUnknown(m proto.Message, seed int) proto.Message {
	m.ProtoReflect().SetUnknown(protoreflect.RawFields(unk(seed)))
	return m
}

func mustAny(m proto.Message) *anypb.Any {
	b, err := proto.MarshalOptions{Deterministic: true, AllowPartial: true}.Marshal(m)
	if err != nil {
		panic(err)
	}
	return &anypb.Any{TypeUrl: "type.googleapis.com/" + string(m.ProtoReflect().Descriptor().FullName()), Value: b}
}

func mustStruct(m map[string]interface{}) *structpb.Struct {
	s, err := structpb.NewStruct(m)
	if err != nil {
		panic(err)
	}
	return s
}

func msgFull(v int) *grpchantesting.Message {
	return &grpchantesting.Message{
		Payload: pat(13, v), Count: int32(9 + v), Code: int32(-3 - v), DelayMillis: math.MaxInt32 - int32(v),
		Headers:  map[string][]byte{"h1": []byte(fmt.Sprintf("v%d", v)), "h2": {0, 1, 2, byte(v)}, "": {}},
		Trailers: map[string][]byte{fmt.Sprintf("t%d", v): []byte("tv")},
		ErrorDetails: []*anypb.Any{
			mustAny(wrapperspb.String(fmt.Sprintf("detail-%d", v))),
			{},
			mustAny(&grpchantesting.Message{Payload: pat(5, v+1), Headers: map[string][]byte{"ih": []byte("iv")}}),
		},
	}
}

func uoptFull(v int) *descriptorpb.UninterpretedOption {
	return &descriptorpb.UninterpretedOption{
		Name: []*descriptorpb.UninterpretedOption_NamePart{
			{NamePart: proto.String(fmt.Sprintf("foo%d", v)), IsExtension: proto.Bool(true)},
			{NamePart: proto.String("bar"), IsExtension: proto.Bool(false)},
		},
		IdentifierValue:  proto.String(fmt.Sprintf("ident-%d", v)),
		PositiveIntValue: proto.Uint64(77 + uint64(v)),
		NegativeIntValue: proto.Int64(-5 - int64(v)),
		DoubleValue:      proto.Float64(2.5 + float64(v)),
		StringValue:      []byte(fmt.Sprintf("string-bytes-%d", v)),
		AggregateValue:   proto.String("{a:1}"),
	}
}

func sized(n int) func(v int) proto.Message {
	return func(v int) proto.Message { return &grpchantesting.Message{Payload: pat(n, v)} }
}

const k64 = 64 << 10

func init() {
	// --- nothing, or nothing on the wire
	add(&shape{Name: "empty", Group: "empty", Dyn: 1, build: func(int) proto.Message { return &emptypb.Empty{} }})
	add(&shape{Name: "zero-len", Group: "zero-length", Dyn: 1, build: func(int) proto.Message { return &grpchantesting.Message{} }})
	add(&shape{Name: "zero-len-proto2", Group: "zero-length", build: func(int) proto.Message { return &descriptorpb.UninterpretedOption{} }})
	add(&shape{Name: "zero-len-explicit", Group: "zero-length", build: func(int) proto.Message {
		// set to the zero value, allocated but empty containers: still nothing on the wire
		return &grpchantesting.Message{Payload: []byte{}, Headers: map[string][]byte{}, ErrorDetails: []*anypb.Any{}}
	}})
	// --- payload sizes
	add(&shape{Name: "payload-1", Group: "small", build: sized(1)})
	add(&shape{Name: "payload-64k-1", Group: "large", build: sized(k64 - 1)})
	add(&shape{Name: "payload-64k", Group: "large", build: sized(k64)})
	add(&shape{Name: "payload-64k+1", Group: "large", Dyn: 1, build: sized(k64 + 1)})
	add(&shape{Name: "payload-4m+1", Group: "huge", Tier: "thorough", build: sized(4<<20 + 1)})
	// consecutive messages of very different sizes (a stale or shared buffer shows)
	add(&shape{Name: "msg-shrinking", Group: "mixed-size", build: func(v int) proto.Message {
		switch v % 10 {
		case 0:
			return &grpchantesting.Message{Payload: pat(k64+1, v), Count: int32(v)}
		case 1:
			return &grpchantesting.Message{}
		}
		return &grpchantesting.Message{Payload: pat(1, v)}
	}})
	add(&shape{Name: "msg-growing", Group: "mixed-size", build: func(v int) proto.Message {
		switch v % 10 {
		case 0:
			return &grpchantesting.Message{Count: int32(v/10 + 1)}
		case 1:
			return &grpchantesting.Message{Payload: pat(300, v)}
		}
		return &grpchantesting.Message{Payload: pat(k64+1, v), Headers: map[string][]byte{"k": pat(70000, v)}}
	}})
	// --- field kinds of grpchantesting.Message
	add(&shape{Name: "msg-int32", Group: "fields", build: func(v int) proto.Message {
		return &grpchantesting.Message{Count: int32(v + 1), Code: math.MinInt32 + int32(v), DelayMillis: math.MaxInt32 - int32(v)}
	}})
	add(&shape{Name: "msg-map", Group: "fields", build: func(v int) proto.Message {
		return &grpchantesting.Message{
			Headers:  map[string][]byte{"a": pat(3, v), "b": {}, "": {byte(v)}, fmt.Sprintf("k%d", v): []byte("x")},
			Trailers: map[string][]byte{"z\x00y": pat(2, v), "ключ": []byte("значение")},
		}
	}})
	add(&shape{Name: "msg-any-list", Group: "fields", build: func(v int) proto.Message {
		return &grpchantesting.Message{ErrorDetails: []*anypb.Any{
			mustAny(wrapperspb.Int64(int64(v))), {}, mustAny(msgFull(v)), {}, mustAny(wrapperspb.Int64(int64(v))),
		}}
	}})
	add(&shape{Name: "msg-full", Group: "fields", Dyn: 2, build: func(v int) proto.Message { return msgFull(v) }})
	// --- structpb: nested messages, oneof, double, bool, list, null
	add(&shape{Name: "struct-flat", Group: "fields", build: func(v int) proto.Message {
		return mustStruct(map[string]interface{}{"n": 1.5 + float64(v), "s": "str", "b": v%2 == 0, "z": nil})
	}})
	add(&shape{Name: "struct-nested", Group: "fields", Dyn: 2, build: func(v int) proto.Message {
		return mustStruct(map[string]interface{}{
			"o": map[string]interface{}{"l": []interface{}{float64(v), "two", map[string]interface{}{"deep": false, "deeper": map[string]interface{}{"e": []interface{}{}}}, nil, true}},
			"k": fmt.Sprintf("v%d", v), "": 0.0,
		})
	}})
	add(&shape{Name: "value-list", Group: "fields", build: func(v int) proto.Message {
		return structpb.NewListValue(&structpb.ListValue{Values: []*structpb.Value{
			structpb.NewBoolValue(true), structpb.NewStringValue(fmt.Sprintf("e%d", v)), structpb.NewNullValue(), structpb.NewNumberValue(0), {},
		}})
	}})
	add(&shape{Name: "value-double", Group: "fields", build: func(v int) proto.Message {
		return structpb.NewNumberValue([]float64{math.Inf(1), math.SmallestNonzeroFloat64, -math.MaxFloat64, 1e-310}[v%4] * float64(1+v/10))
	}})
	add(&shape{Name: "string-utf8", Group: "fields", build: func(v int) proto.Message {
		return wrapperspb.String(fmt.Sprintf("héllo\x00wörld-%d-\U0001F600", v))
	}})
	// --- descriptorpb.UninterpretedOption: proto2, uint64 / int64 / double / bytes / string, required fields below
	add(&shape{Name: "uopt-full", Group: "fields", Dyn: 2, build: func(v int) proto.Message { return uoptFull(v) }})
	add(&shape{Name: "uopt-extremes", Group: "fields", build: func(v int) proto.Message {
		return &descriptorpb.UninterpretedOption{
			PositiveIntValue: proto.Uint64(math.MaxUint64 - uint64(v)),
			NegativeIntValue: proto.Int64(math.MinInt64 + int64(v)),
			DoubleValue:      proto.Float64(-math.SmallestNonzeroFloat64 * float64(v+1)),
			StringValue:      []byte{0xff, 0xfe, 0x00, byte(v), 0x80},
			IdentifierValue:  proto.String(""),
		}
	}})
	add(&shape{Name: "uopt-explicit-zero", Group: "fields", Dyn: 1, build: func(v int) proto.Message {
		// present-but-zero optional fields are on the wire and must stay present
		m := &descriptorpb.UninterpretedOption{PositiveIntValue: proto.Uint64(0), StringValue: []byte{}, IdentifierValue: proto.String("")}
		if v%2 == 1 {
			m.DoubleValue = proto.Float64(0)
		}
		return m
	}})
	// --- Any at the top level
	add(&shape{Name: "any-msg", Group: "fields", Dyn: 1, build: func(v int) proto.Message { return mustAny(msgFull(v)) }})
	add(&shape{Name: "any-any", Group: "fields", build: func(v int) proto.Message { return mustAny(mustAny(wrapperspb.Bytes(pat(4, v)))) }})
	add(&shape{Name: "any-unresolvable", Group: "fields", build: func(v int) proto.Message {
		return &anypb.Any{TypeUrl: "example.test/no.such.Type", Value: []byte{0xff, 0xff, 0x01, byte(v)}}
	}})
	// --- unknown fields
	add(&shape{Name: "empty-unknown", Group: "unknown", Dyn: 1, build: func(v int) proto.Message { return withUnknown(&emptypb.Empty{}, v) }})
	add(&shape{Name: "msg-unknown", Group: "unknown", Dyn: 2, build: func(v int) proto.Message { return withUnknown(msgFull(v), v) }})
	add(&shape{Name: "struct-unknown", Group: "unknown", build: func(v int) proto.Message {
		s := mustStruct(map[string]interface{}{"in": map[string]interface{}{"x": float64(v)}})
		withUnknown(s.Fields["in"].GetStructValue(), v) // unknown field in a nested message
		return withUnknown(s, v+1)
	}})
}

// junk is what a receive destination holds before the receive: everything
// populated, with keys / elements / oneof members / unknown fields that no shape
// uses, so that anything left over after the receive is visible.
func junk(typ string) proto.Message {
	switch typ {
	case "google.protobuf.Empty":
		return withUnknown(&emptypb.Empty{}, 200)
	case "grpchantesting.Message":
		return withUnknown(&grpchantesting.Message{
			Payload: []byte("JUNK-PAYLOAD"), Count: 1001, Code: 1002, DelayMillis: 1003,
			Headers:      map[string][]byte{"junk-h": []byte("jh"), "h1": []byte("junk")},
			Trailers:     map[string][]byte{"junk-t": []byte("jt")},
			ErrorDetails: []*anypb.Any{mustAny(wrapperspb.Int64(31337))},
		}, 201)
	case "google.protobuf.UninterpretedOption":
		return withUnknown(&descriptorpb.UninterpretedOption{
			Name:            []*descriptorpb.UninterpretedOption_NamePart{{NamePart: proto.String("JUNK"), IsExtension: proto.Bool(true)}},
			IdentifierValue: proto.String("JUNK"), StringValue: []byte("JUNK"), DoubleValue: proto.Float64(99),
			PositiveIntValue: proto.Uint64(98), NegativeIntValue: proto.Int64(-97), AggregateValue: proto.String("JUNK"),
		}, 202)
	case "google.protobuf.Struct":
		return withUnknown(mustStruct(map[string]interface{}{"JUNK": []interface{}{"j"}, "k": "junk", "o": map[string]interface{}{"junk": 1.0}}), 203)
	case "google.protobuf.Value":
		return withUnknown(structpb.NewStructValue(mustStruct(map[string]interface{}{"JUNK": "j"})), 204)
	case "google.protobuf.StringValue":
		return withUnknown(wrapperspb.String("JUNK"), 205)
	case "google.protobuf.Any":
		return withUnknown(&anypb.Any{TypeUrl: "junk.test/JUNK", Value: []byte("JUNK")}, 206)
	}
	panic("no junk for " + typ)
}

// ------------------------------------------------------------ representations

var mdCache = map[string]*desc.MessageDescriptor{}
var mdMu sync.Mutex // client and handler goroutines both build dynamic messages

func descFor(gen proto.Message) *desc.MessageDescriptor {
	mdMu.Lock()
	defer mdMu.Unlock()
	name := string(gen.ProtoReflect().Descriptor().FullName())
	if md := mdCache[name]; md != nil {
		return md
	}
	md, err := desc.LoadMessageDescriptorForMessage(protov1.MessageV1(gen))
	if err != nil {
		panic(fmt.Sprintf("descriptor for %s: %v", name, err))
	}
	mdCache[name] = md
	return md
}

// asDyn builds an independent *dynamic.Message with the content of gen.
func asDyn(gen proto.Message) *dynamic.Message {
	b, err := proto.MarshalOptions{AllowPartial: true, Deterministic: true}.Marshal(gen)
	if err != nil {
		panic(err)
	}
	dm := dynamic.NewMessage(descFor(gen))
	if err := dm.Unmarshal(b); err != nil {
		panic(fmt.Sprintf("dynamic unmarshal of %T: %v", gen, err))
	}
	return dm
}

func inRep(g proto.Message, rep string) interface{} {
	if rep == "dyn" {
		return asDyn(g)
	}
	return g
}

// normalize returns the generated form of a message (a dynamic message goes
// through its own wire form into a fresh generated message).
func normalize(m interface{}) (res proto.Message, err error) {
	defer func() {
		if r := recover(); r != nil {
			res, err = nil, fmt.Errorf("panic while reading the message: %v", r)
		}
	}()
	switch x := m.(type) {
	case nil:
		return nil, errors.New("nil")
	case *dynamic.Message:
		if x == nil || x.GetMessageDescriptor() == nil {
			return nil, errors.New("*dynamic.Message without a descriptor")
		}
		b, err := x.MarshalDeterministic()
		if err != nil {
			return nil, err
		}
		mt, err := protoregistry.GlobalTypes.FindMessageByName(protoreflect.FullName(x.GetMessageDescriptor().GetFullyQualifiedName()))
		if err != nil {
			return nil, err
		}
		g := mt.New().Interface()
		if err := (proto.UnmarshalOptions{AllowPartial: true}).Unmarshal(b, g); err != nil {
			return nil, err
		}
		return g, nil
	case proto.Message:
		if !x.ProtoReflect().IsValid() {
			return nil, fmt.Errorf("invalid (nil) %T", m)
		}
		return x, nil
	}
	return nil, fmt.Errorf("not a protobuf message: %T", m)
}

var detMarshal = proto.MarshalOptions{Deterministic: true, AllowPartial: true}

func describeMsg(m proto.Message) string {
	b, err := detMarshal.Marshal(m)
	if err != nil {
		return "<unmarshalable: " + err.Error() + ">"
	}
	if len(b) > 20 {
		return fmt.Sprintf("%s{%x…(%d bytes)}", m.ProtoReflect().Descriptor().Name(), b[:20], len(b))
	}
	return fmt.Sprintf("%s{%x}", m.ProtoReflect().Descriptor().Name(), b)
}
