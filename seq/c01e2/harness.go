package main

// Runs one case: the real channel + the real server side, a scripted client
// and a scripted hand-written handler, both recording what they receive.

import (
	"context"
	"fmt"
	"io"
	"net"
	"net/http"
	"net/url"
	"runtime"
	"strings"
	"sync"
	"sync/atomic"

	"google.golang.org/grpc"
	"google.golang.org/grpc/codes"
	"google.golang.org/grpc/credentials/insecure"
	"google.golang.org/grpc/metadata"
	"google.golang.org/grpc/status"
	"google.golang.org/grpc/test/bufconn"
	"google.golang.org/protobuf/proto"

	"github.com/jhump/protoreflect/dynamic"
	"google.golang.org/protobuf/reflect/protoreflect"

	"github.com/fullstorydev/grpchan/httpgrpc"
	"github.com/fullstorydev/grpchan/inprocgrpc"

	"verif/seq/common"
)

// rpcSpec is the script of one RPC.
type rpcSpec struct {
	Kind string `json:"kind"` // unary | client-stream | server-stream | bidi
	N    int    `json:"n"`    // messages the client sends
	M    int    `json:"m"`    // messages the handler sends
}

// kase is one member of the grammar.
type kase struct {
	Engine     string `json:"engine"`    // always "E2"
	Transport  string `json:"transport"` // inproc | http | grpc (reference, never reported)
	Shape      string `json:"shape"`
	SendRep    string `json:"send_rep"` // representation of the messages handed to a send: gen | dyn
	RecvRep    string `json:"recv_rep"` // representation of the receive destinations
	HandlerErr bool   `json:"handler_err,omitempty"`
	// GC: the client's last use of its stream object is the final receive (as in a
	// generated CloseAndRecv), and a garbage collection including finalizers
	// completes while the handler is still busy. In all other cases the harness
	// keeps the stream object reachable until the call is over.
	GC bool `json:"gc,omitempty"`
	// Reuse: a streaming sender hands ONE object to all its sends and overwrites
	// it in place with the content of its next message as soon as a send has
	// returned (as a handler or client reusing a message does); the receiver is
	// made to lag: it does not receive message i before the sender has done so
	// (not for requests over HTTP, where a send returns only once the handler
	// has read the message from the request pipe).
	Reuse bool     `json:"reuse,omitempty"`
	RPC   rpcSpec  `json:"rpc"`
	RPC2  *rpcSpec `json:"rpc2,omitempty"` // a second RPC running concurrently on the same channel
	// Cloner (in-process channel only, cloner.go): how the channel is configured to
	// copy messages: "" = nothing configured (ProtoCloner) | codec | clonefunc | copyfunc.
	Cloner string `json:"cloner,omitempty"`
	// Dest: what a receiver passes as destination: "" = a message pre-filled with
	// junk (as left by an unrelated earlier call) | fresh = a new, empty message |
	// reuse = ONE message object per direction for all receives of the RPC, so that
	// it still holds the previous message of the stream (the msg-shrinking shape:
	// an earlier, larger one).
	Dest string `json:"dest,omitempty"`
	// Cut: the HTTP response is cut (cut.go): the genuine reply of the real server
	// to this case is replayed to the real client, ending after Cut.Off body bytes.
	Cut *cutSpec `json:"cut,omitempty"`
}

func (k kase) key() string {
	s := fmt.Sprintf("%s|%s|%s>%s|%s/%d/%d|err=%v", k.Transport, k.Shape, k.SendRep, k.RecvRep, k.RPC.Kind, k.RPC.N, k.RPC.M, k.HandlerErr)
	if k.RPC2 != nil {
		s += fmt.Sprintf("|%s/%d/%d", k.RPC2.Kind, k.RPC2.N, k.RPC2.M)
	}
	if k.GC {
		s += "|gc"
	}
	if k.Reuse {
		s += "|reuse"
	}
	if k.Cloner != "" {
		s += "|cloner=" + k.Cloner
	}
	if k.Dest != "" {
		s += "|dest=" + k.Dest
	}
	if k.Cut != nil {
		s += fmt.Sprintf("|cut@%d/%d,%s", k.Cut.Off, k.Cut.Len, k.Cut.Ending)
	}
	return s
}

func clientStreams(kind string) bool { return kind == "client-stream" || kind == "bidi" }
func serverStreams(kind string) bool { return kind == "server-stream" || kind == "bidi" }

type finding struct {
	Clause string // stable, goes into the fingerprint
	Dir    string // req | resp | -
	What   string
}

// variant number of the message with index idx in direction dir of RPC rpc
func variant(rpc int, dir string, idx int) int {
	d := 0
	if dir == "resp" {
		d = 1
	}
	return rpc*100 + d*10 + idx
}

// barrier releases when all parties arrived, or when the run is aborted
// (a client returned: nobody may be left waiting for its handler).
type barrier struct {
	parties int32
	n       int32
	ch      chan struct{}
	abort   chan struct{}
}

func (b *barrier) wait() {
	if b == nil {
		return
	}
	if atomic.AddInt32(&b.n, 1) == b.parties {
		close(b.ch)
	}
	select {
	case <-b.ch:
	case <-b.abort:
	}
}

// rpcRun is the state of one RPC of a case.
type rpcRun struct {
	id    int
	k     kase
	spec  rpcSpec
	shape *shape
	all   []*rpcRun // every RPC of the case (for the cross-talk diagnosis)

	b1, b2 *barrier
	abort  chan struct{}  // closed when a client failed or all clients are done
	tok    [2]chan int    // Reuse: "send i has returned and the object has been overwritten", per direction
	reused [2]interface{} // Reuse: the sender's one object, per direction
	rdest  [2]interface{} // Dest=reuse: the receiver's one destination object, per direction

	started [2]int32 // messages handed to a send so far: [0] requests, [1] responses

	mu       sync.Mutex
	recvd    [2][]proto.Message // normalized messages obtained: [0] by the handler, [1] by the client
	findings []finding
	frames   int // messages that went through the transport

	// cut cases: what does not change between the replays of one recording
	fixed *fixedParts

	handlerEntered int32
	srvDone        chan struct{}
	srvErr         error
	cliErr         error
	cliDone        bool
}

func dirIdx(dir string) int {
	if dir == "resp" {
		return 1
	}
	return 0
}

func (r *rpcRun) add(clause, dir, what string) {
	r.mu.Lock()
	r.findings = append(r.findings, finding{clause, dir, what})
	r.mu.Unlock()
}

func (r *rpcRun) build(dir string, idx int) interface{} {
	if r.fixed != nil && dir == "req" {
		return r.fixed.request(r, idx)
	}
	return inRep(r.shape.build(variant(r.id, dir, idx)), r.k.SendRep)
}

// want: the message sent at position idx of the direction, in generated form.
func (r *rpcRun) want(dir string, idx int) proto.Message {
	if r.fixed != nil {
		return r.fixed.want(r, dir, idx)
	}
	return r.shape.build(variant(r.id, dir, idx))
}

// dest: the destination of the next receive of the direction.
func (r *rpcRun) dest(dir string) interface{} {
	if r.fixed != nil {
		return r.fixed.dest(r)
	}
	switch r.k.Dest {
	case "fresh":
		return inRep(emptyOf(r.shape), r.k.RecvRep)
	case "reuse":
		d := dirIdx(dir)
		if r.rdest[d] == nil {
			r.rdest[d] = inRep(emptyOf(r.shape), r.k.RecvRep)
		}
		return r.rdest[d]
	}
	return inRep(junk(r.shape.Type), r.k.RecvRep)
}

func emptyOf(s *shape) proto.Message {
	return s.build(0).ProtoReflect().New().Interface()
}

// before: what the destination of receive number idx of the direction held
// when it was passed to the library (in generated form).
func (r *rpcRun) before(dir string, idx int) proto.Message {
	switch r.k.Dest {
	case "fresh":
		return emptyOf(r.shape)
	case "reuse":
		if idx == 0 {
			return emptyOf(r.shape)
		}
		r.mu.Lock()
		defer r.mu.Unlock()
		if got := r.recvd[dirIdx(dir)]; idx-1 < len(got) && got[idx-1] != nil {
			return got[idx-1] // (a snapshot) what the previous receive left in the object
		}
		return r.want(dir, idx-1)
	}
	return junk(r.shape.Type)
}

func (r *rpcRun) expectedCount(dir string) int {
	if dir == "req" {
		return r.spec.N
	}
	return r.spec.M
}

// onRecv is the monitor, evaluated at every successful receive return.
func (r *rpcRun) onRecv(dir string, got interface{}) {
	d := dirIdx(dir)
	r.mu.Lock()
	idx := len(r.recvd[d])
	r.mu.Unlock()
	g, err := normalize(got)
	if err != nil {
		r.add("unreadable", dir, fmt.Sprintf("message #%d obtained by the receiver cannot be read back: %v", idx, err))
		g = nil
	}
	if g != nil && r.k.Dest == "reuse" {
		g = proto.Clone(g) // the object is passed to the next receive too
	}
	r.mu.Lock()
	r.recvd[d] = append(r.recvd[d], g)
	r.frames++
	r.mu.Unlock()
	if g == nil {
		return
	}
	handed := int(atomic.LoadInt32(&r.started[d]))
	if idx >= r.expectedCount(dir) || idx >= handed {
		r.add("fabricated", dir, fmt.Sprintf("receiver obtained message #%d (%s) although the peer has handed only %d of its %d messages to the library",
			idx, describeMsg(g), handed, r.expectedCount(dir)))
		return
	}
	want := r.want(dir, idx)
	if proto.Equal(g, want) {
		return
	}
	// not the message sent at this position: say what it is instead
	clause, detail := "corrupted", ""
	for _, o := range r.all {
		for _, od := range []string{"req", "resp"} {
			for j := 0; j < o.expectedCount(od); j++ {
				if o == r && od == dir && j == idx {
					continue
				}
				if proto.Equal(g, o.shape.build(variant(o.id, od, j))) {
					switch {
					case o != r:
						clause, detail = "cross-talk", fmt.Sprintf("it is message #%d (%s) of the other RPC on the channel", j, od)
					case od != dir:
						clause, detail = "wrong-direction", fmt.Sprintf("it is message #%d of the opposite direction", j)
					case j < idx:
						clause, detail = "duplicated", fmt.Sprintf("it is message #%d again", j)
					default:
						clause, detail = "reordered-or-lost", fmt.Sprintf("it is message #%d", j)
					}
				}
			}
		}
	}
	if clause == "corrupted" {
		merged := proto.Clone(r.before(dir, idx))
		proto.Merge(merged, want)
		if proto.Equal(g, merged) {
			clause, detail = "merged-into-destination", "it is the sent message merged into the previous content of the receive destination (the destination was not overwritten)"
		} else if proto.Equal(g, r.before(dir, idx)) {
			clause, detail = "destination-untouched", "the receive destination still holds its previous content"
		}
	}
	r.add(clause, dir, fmt.Sprintf("message #%d obtained by the receiver is not equal to message #%d sent: got %s, sent %s; %s", idx, idx, describeMsg(g), describeMsg(want), detail))
}

func isHuge(s *shape) bool { return s.Group == "huge" }

// finishChecks: the end-of-call clauses.
func (r *rpcRun) finishChecks() {
	handlerOK := r.srvErr == nil && !r.k.HandlerErr && atomic.LoadInt32(&r.handlerEntered) == 1
	if !r.k.HandlerErr {
		// the scripts are valid and the handler returns nil: the standard transport completes these successfully
		tolerated := func(err error) bool {
			// grpc-go's default receive limit is 4 MiB: a refusal of a larger message is a standard outcome too
			return isHuge(r.shape) && status.Code(err) == codes.ResourceExhausted
		}
		if r.cliErr != nil && !tolerated(r.cliErr) {
			r.add("unexpected-failure", "-", fmt.Sprintf("client: the call failed although the script is valid and the handler succeeds: %v", r.cliErr))
		}
		if r.srvErr != nil && !tolerated(r.srvErr) {
			r.add("unexpected-failure", "-", fmt.Sprintf("handler: a receive or send failed although the script is valid: %v", r.srvErr))
		}
	}
	if r.cliErr == nil && handlerOK {
		for _, dir := range []string{"req", "resp"} {
			if got, want := len(r.recvd[dirIdx(dir)]), r.expectedCount(dir); got < want {
				r.add("lost", dir, fmt.Sprintf("the call ended successfully on both sides but the receiver obtained %d of the %d messages sent", got, want))
			}
		}
	}
}

// ------------------------------------------------------------ handler side

func (r *rpcRun) guard(where string, perr *error) {
	if p := recover(); p != nil {
		r.add("panic", "-", fmt.Sprintf("panic in %s: %v", where, p))
		*perr = status.Errorf(codes.Internal, "panic: %v", p)
	}
}

var errScripted = status.Error(codes.Aborted, "scripted handler failure")

func (r *rpcRun) unaryHandler(ctx context.Context, dec func(interface{}) error) (resp interface{}, err error) {
	atomic.AddInt32(&r.handlerEntered, 1)
	defer close(r.srvDone)
	defer func() {
		r.srvErr = err
		if err == errScripted {
			r.srvErr = nil
		}
	}()
	defer r.guard("the unary handler (request decoding)", &err)
	r.b1.wait()
	d := r.dest("req")
	if err := dec(d); err != nil {
		return nil, err
	}
	r.onRecv("req", d)
	r.b2.wait()
	r.gcRounds()
	if r.k.HandlerErr {
		return nil, errScripted
	}
	atomic.AddInt32(&r.started[1], 1)
	return r.build("resp", 0), nil
}

func (r *rpcRun) streamHandler(ss grpc.ServerStream) (err error) {
	atomic.AddInt32(&r.handlerEntered, 1)
	defer close(r.srvDone)
	defer func() {
		r.srvErr = err
		if err == errScripted {
			r.srvErr = nil
		}
	}()
	defer r.guard("the stream handler (RecvMsg / SendMsg)", &err)
	r.b1.wait()
	if clientStreams(r.spec.Kind) {
		for i := 0; ; i++ {
			r.awaitSent("req", i, r.abort)
			d := r.dest("req")
			err := ss.RecvMsg(d)
			if err == io.EOF {
				break
			}
			if err != nil {
				return err
			}
			r.onRecv("req", d)
		}
	} else {
		r.awaitSent("req", 0, r.abort)
		d := r.dest("req")
		if err := ss.RecvMsg(d); err != nil {
			return err
		}
		r.onRecv("req", d)
	}
	r.b2.wait()
	r.gcRounds()
	for j := 0; j < r.spec.M; j++ {
		atomic.AddInt32(&r.started[1], 1)
		if err := ss.SendMsg(r.toSend("resp", j)); err != nil {
			return err
		}
		r.sent("resp", j)
	}
	if r.k.HandlerErr {
		return errScripted
	}
	return nil
}

// ------------------------------------------------------------ client side

func (r *rpcRun) client(cc grpc.ClientConnInterface, method string) {
	defer func() {
		if p := recover(); p != nil {
			r.add("panic", "-", fmt.Sprintf("panic in a client call: %v", p))
			r.cliErr = status.Errorf(codes.Internal, "panic: %v", p)
		}
		r.cliDone = true
	}()
	ctx, cancel := context.WithCancel(metadata.AppendToOutgoingContext(context.Background(), "x-verif-rpc", fmt.Sprint(r.id)))
	defer cancel()
	if r.spec.Kind == "unary" {
		atomic.AddInt32(&r.started[0], 1)
		d := r.dest("resp")
		if err := cc.Invoke(ctx, method, r.build("req", 0), d); err != nil {
			r.cliErr = err
			return
		}
		r.onRecv("resp", d)
		return
	}
	cs, err := cc.NewStream(ctx, &grpc.StreamDesc{StreamName: "x", ClientStreams: clientStreams(r.spec.Kind), ServerStreams: serverStreams(r.spec.Kind)}, method)
	if err != nil {
		r.cliErr = err
		return
	}
	for i := 0; i < r.spec.N; i++ {
		atomic.AddInt32(&r.started[0], 1)
		if err := cs.SendMsg(r.toSend("req", i)); err != nil {
			if err == io.EOF {
				// the stream is over: the real outcome comes from RecvMsg
				break
			}
			r.cliErr = err
			return
		}
		r.sent("req", i)
	}
	if err := cs.CloseSend(); err != nil {
		r.cliErr = err
		return
	}
	if r.k.GC {
		r.receive(cs) // nothing below refers to cs: the stream object is unreachable during its last call
	} else {
		r.receive(cs)
		runtime.KeepAlive(cs)
	}
}

// gcRounds: garbage collections whose finalizers have all run (GC cases only).
func (r *rpcRun) gcRounds() {
	if !r.k.GC {
		return
	}
	for i := 0; i < 4; i++ {
		for j := 0; j < 100; j++ {
			runtime.Gosched() // let the client get into its receive
		}
		done := make(chan struct{})
		s := new([16]byte)
		runtime.SetFinalizer(s, func(*[16]byte) { close(done) })
		s = nil
		runtime.GC()
		<-done // the finalizer goroutine has worked through what this cycle queued
	}
}

// ------------------------------------------------------------ a sender that reuses its message

func (r *rpcRun) toSend(dir string, idx int) interface{} {
	if !r.k.Reuse {
		return r.build(dir, idx)
	}
	d := dirIdx(dir)
	if r.reused[d] == nil {
		r.reused[d] = r.build(dir, idx)
	}
	return r.reused[d] // holds the content of message idx: see sent
}

// sent: send idx of the direction has returned to the sender.
func (r *rpcRun) sent(dir string, idx int) {
	if !r.k.Reuse {
		return
	}
	d := dirIdx(dir)
	// the next message's content (after the last one: content that is never sent)
	overwrite(r.reused[d], r.shape.build(variant(r.id, dir, idx+1)))
	r.tok[d] <- idx
}

// lagging: can the receiver of the direction be held back while the sender goes on?
func (r *rpcRun) lagging(dir string) bool { return r.k.Transport != "http" || dir == "resp" }

// awaitSent: the receiver, before its receive number idx.
func (r *rpcRun) awaitSent(dir string, idx int, giveUp <-chan struct{}) {
	if !r.k.Reuse || !r.lagging(dir) || idx >= r.expectedCount(dir) {
		return
	}
	select {
	case <-r.tok[dirIdx(dir)]:
	case <-giveUp:
	}
}

// overwrite replaces the content of obj by that of next, the way a sender that
// reuses a message does: what the old content held by reference is scribbled
// over in place first (bytes fields, bytes map values, unknown fields), then
// the fields are set anew.
func overwrite(obj interface{}, next proto.Message) {
	switch x := obj.(type) {
	case *dynamic.Message:
		b, err := detMarshal.Marshal(next)
		if err != nil {
			panic(err)
		}
		if err := x.Unmarshal(b); err != nil { // resets first
			panic(err)
		}
	case proto.Message:
		m := x.ProtoReflect()
		m.Range(func(fd protoreflect.FieldDescriptor, v protoreflect.Value) bool {
			switch {
			case fd.IsMap() && fd.MapValue().Kind() == protoreflect.BytesKind:
				v.Map().Range(func(_ protoreflect.MapKey, mv protoreflect.Value) bool {
					for i := range mv.Bytes() {
						mv.Bytes()[i] ^= 0x5a
					}
					return true
				})
			case !fd.IsList() && !fd.IsMap() && fd.Kind() == protoreflect.BytesKind:
				for i := range v.Bytes() {
					v.Bytes()[i] ^= 0x5a
				}
			}
			return true
		})
		u := m.GetUnknown()
		for i := range u {
			u[i] ^= 0x5a
		}
		proto.Reset(x)
		proto.Merge(x, next)
	default:
		panic(fmt.Sprintf("overwrite: %T", obj))
	}
}

func (r *rpcRun) receive(cs grpc.ClientStream) {
	if !serverStreams(r.spec.Kind) {
		r.awaitSent("resp", 0, r.srvDone)
		d := r.dest("resp")
		if err := cs.RecvMsg(d); err != nil {
			r.cliErr = err
			return
		}
		r.onRecv("resp", d)
		return
	}
	for j := 0; ; j++ {
		r.awaitSent("resp", j, r.srvDone)
		d := r.dest("resp")
		err := cs.RecvMsg(d)
		if err == io.EOF {
			return
		}
		if err != nil {
			r.cliErr = err
			return
		}
		r.onRecv("resp", d)
	}
}

// ------------------------------------------------------------ transports

const svcName = "verif.C01"

func methodName(kind string) string {
	return "/" + svcName + "/" + map[string]string{"unary": "Unary", "client-stream": "ClientStream", "server-stream": "ServerStream", "bidi": "Bidi"}[kind]
}

type env struct {
	cc    grpc.ClientConnInterface
	close func()
}

func setup(transport, cloner string, svc *common.Svc, wrap func(http.RoundTripper) http.RoundTripper) (env, error) {
	if cloner != "" && transport != "inproc" {
		return env{}, fmt.Errorf("cloner %q: only the in-process channel has a cloner", cloner)
	}
	switch transport {
	case "inproc":
		ch := &inprocgrpc.Channel{}
		if cloner != "" {
			c, err := clonerFor(cloner)
			if err != nil {
				return env{}, err
			}
			ch.WithCloner(c)
		}
		ch.RegisterService(svc.Desc(), common.Impl{})
		return env{cc: ch, close: func() {}}, nil
	case "http":
		srv := httpgrpc.NewServer()
		srv.RegisterService(svc.Desc(), common.Impl{})
		u, _ := url.Parse("http://example.test/")
		rt := common.HandlerRT(srv)
		if wrap != nil {
			rt = wrap(rt)
		}
		return env{cc: &httpgrpc.Channel{Transport: rt, BaseURL: u}, close: func() {}}, nil
	case "grpc":
		// the standard transport, in memory: used only to validate the oracle
		lis := bufconn.Listen(1 << 20)
		gs := grpc.NewServer(grpc.MaxRecvMsgSize(64 << 20))
		gs.RegisterService(svc.Desc(), common.Impl{})
		go gs.Serve(lis)
		cc, err := grpc.Dial("passthrough:///bufconn", grpc.WithContextDialer(func(ctx context.Context, _ string) (net.Conn, error) { return lis.DialContext(ctx) }),
			grpc.WithTransportCredentials(insecure.NewCredentials()), grpc.WithDefaultCallOptions(grpc.MaxCallRecvMsgSize(64<<20)))
		if err != nil {
			gs.Stop()
			return env{}, err
		}
		return env{cc: cc, close: func() { cc.Close(); gs.Stop() }}, nil
	}
	return env{}, fmt.Errorf("unknown transport %q", transport)
}

type outcome struct {
	Findings []finding
	Frames   int // messages obtained by a receiver through the transport
	Observed string
	Internal string // the checker could not run the case
	runs     []*rpcRun
	// cut cases: the client read every byte of the cut reply body
	cutDelivered bool
}

// runCase runs the case to completion. The caller applies the hang guard.
func runCase(k kase) (o outcome) {
	if k.Cut != nil {
		return runCut(k)
	}
	return runCaseWrap(k, nil)
}

// runCaseWrap: wrap (HTTP only, may be nil) is put around the round tripper
// that leads to the real server.
func runCaseWrap(k kase, wrap func(http.RoundTripper) http.RoundTripper) (o outcome) {
	s := shapeByName[k.Shape]
	if s == nil {
		o.Internal = "unknown shape " + k.Shape
		return
	}
	specs := []rpcSpec{k.RPC}
	if k.RPC2 != nil {
		specs = append(specs, *k.RPC2)
	}
	abort := make(chan struct{})
	var b1, b2 *barrier
	if len(specs) > 1 {
		b1 = &barrier{parties: 2, ch: make(chan struct{}), abort: abort}
		b2 = &barrier{parties: 2, ch: make(chan struct{}), abort: abort}
	}
	var runs []*rpcRun
	for i, sp := range specs {
		runs = append(runs, &rpcRun{id: i, k: k, spec: sp, shape: s, b1: b1, b2: b2, srvDone: make(chan struct{}), abort: abort,
			tok: [2]chan int{make(chan int, 8), make(chan int, 8)}})
	}
	for _, r := range runs {
		r.all = runs
	}
	pick := func(ctx context.Context) (*rpcRun, error) {
		md, _ := metadata.FromIncomingContext(ctx)
		v := md.Get("x-verif-rpc")
		if len(v) != 1 || (v[0] != "0" && v[0] != "1") || int(v[0][0]-'0') >= len(runs) {
			return nil, status.Errorf(codes.Internal, "checker: request metadata x-verif-rpc missing or wrong: %v", v)
		}
		return runs[v[0][0]-'0'], nil
	}
	var pickErr atomic.Value
	svc := &common.Svc{Name: svcName,
		Unary: map[string]common.UnaryFn{"Unary": func(ctx context.Context, dec func(interface{}) error) (interface{}, error) {
			r, err := pick(ctx)
			if err != nil {
				pickErr.Store(err.Error())
				return nil, err
			}
			return r.unaryHandler(ctx, dec)
		}},
		Streams: map[string]common.StreamDef{},
	}
	for name, sd := range map[string]common.StreamDef{"ClientStream": {ClientStreams: true}, "ServerStream": {ServerStreams: true}, "Bidi": {ClientStreams: true, ServerStreams: true}} {
		sd.Fn = func(ss grpc.ServerStream) error {
			r, err := pick(ss.Context())
			if err != nil {
				pickErr.Store(err.Error())
				return err
			}
			return r.streamHandler(ss)
		}
		svc.Streams[name] = sd
	}
	e, err := setup(k.Transport, k.Cloner, svc, wrap)
	if err != nil {
		o.Internal = "transport setup: " + err.Error()
		return
	}
	defer e.close()

	var wg sync.WaitGroup
	var once sync.Once
	for _, r := range runs {
		r := r
		wg.Add(1)
		go func() {
			defer wg.Done()
			r.client(e.cc, methodName(r.spec.Kind))
			if r.cliErr != nil {
				// do not leave the other RPC's handler waiting for this one
				once.Do(func() { close(abort) })
			}
		}()
	}
	wg.Wait()
	once.Do(func() { close(abort) })
	for _, r := range runs {
		if atomic.LoadInt32(&r.handlerEntered) > 0 {
			<-r.srvDone // the handler's records are complete only when it returned
		}
	}
	if v := pickErr.Load(); v != nil {
		o.Internal = v.(string)
		return
	}
	var obs []string
	for _, r := range runs {
		r.finishChecks()
		o.Findings = append(o.Findings, r.findings...)
		o.Frames += r.frames
		obs = append(obs, fmt.Sprintf("%s: handler obtained %d/%d requests, client obtained %d/%d responses, client result %v, handler result %v",
			r.spec.Kind, len(r.recvd[0]), r.spec.N, len(r.recvd[1]), r.spec.M, errStr(r.cliErr), errStr(r.srvErr)))
	}
	o.Observed = strings.Join(obs, "; ")
	o.runs = runs
	return
}

func errStr(err error) string {
	if err == nil {
		return "ok"
	}
	return err.Error()
}
