package main

import (
	"bufio"
	"errors"
	"fmt"
	"io"
	"net"
	"net/http"
	"strings"
	"sync"
	"time"

	"github.com/fullstorydev/grpchan/httpgrpc"
)

// "Over the wire": the same server behind a real net/http.Server, the request
// written byte by byte onto a connection, the reply parsed with
// http.ReadResponse. net/http's own reading of header fields is in the loop
// here: it trims optional white space, refuses control bytes (400 without ever
// calling the handler) and passes every other octet, 0x80..0xFF included, on to
// the handler. The connection is an in-memory pipe (net.Pipe), no socket.

const viaWire = "wire"

type pipeListener struct {
	conns chan net.Conn
	done  chan struct{}
	once  sync.Once
}

type pipeAddr struct{}

func (pipeAddr) Network() string { return "pipe" }
func (pipeAddr) String() string  { return "c09-pipe" }

func (l *pipeListener) Accept() (net.Conn, error) {
	select {
	case c := <-l.conns:
		return c, nil
	case <-l.done:
		return nil, errors.New("c09: listener closed")
	}
}

func (l *pipeListener) Close() error   { l.once.Do(func() { close(l.done) }); return nil }
func (l *pipeListener) Addr() net.Addr { return pipeAddr{} }

func (l *pipeListener) dial() net.Conn {
	a, b := net.Pipe()
	l.conns <- b
	return a
}

// the one net/http server of the process; which handler it runs is set per case
// (cases run strictly one at a time, and the handler is set before the
// connection is handed to Accept)
var (
	wireOnce     sync.Once
	wireListener *pipeListener
	wireHandler  http.Handler
)

func wireDial() net.Conn {
	wireOnce.Do(func() {
		wireListener = &pipeListener{conns: make(chan net.Conn), done: make(chan struct{})}
		// a server as most deployments have it: nothing but the handler set
		// (a handler's panic is recorded and turned into http.ErrAbortHandler
		// before net/http sees it, so nothing is written to the log)
		srv := &http.Server{
			Handler: http.HandlerFunc(func(w http.ResponseWriter, r *http.Request) { wireHandler.ServeHTTP(w, r) }),
		}
		go srv.Serve(wireListener)
	})
	return wireListener.dial()
}

// wireObs is what came back over the connection.
type wireObs struct {
	Entered  bool     // net/http called the handler
	Seen     []string // the GRPC-Timeout values the handler was given
	Panic    string
	Status   int
	ReplyErr string // no (well-formed) reply
}

// wireRoundTrip sends one request whose GRPC-Timeout field value is exactly
// the bytes of raw (the last header field, so that a line feed inside it cannot
// swallow another field; no body) and reads the reply. h is what net/http calls.
func wireRoundTrip(path, contentType string, absent bool, raw string, h http.Handler) (o wireObs, t0, t2 time.Time) {
	wireHandler = http.HandlerFunc(func(w http.ResponseWriter, r *http.Request) {
		o.Entered = true
		o.Seen = append([]string(nil), r.Header["Grpc-Timeout"]...)
		defer func() {
			if p := recover(); p != nil {
				o.Panic = fmt.Sprint(p)
				panic(http.ErrAbortHandler) // what net/http does with it stays the same: the connection is dropped
			}
		}()
		h.ServeHTTP(w, r)
	})
	var b strings.Builder
	fmt.Fprintf(&b, "POST %s HTTP/1.1\r\nHost: example.test\r\nContent-Type: %s\r\nContent-Length: 0\r\nConnection: close\r\n", path, contentType)
	if !absent {
		b.WriteString("GRPC-Timeout: " + raw + "\r\n")
	}
	b.WriteString("\r\n")
	conn := wireDial()
	defer conn.Close()
	t0 = time.Now()
	go io.WriteString(conn, b.String()) // fails harmlessly when the server hangs up first
	resp, err := http.ReadResponse(bufio.NewReader(conn), nil)
	if err != nil {
		o.ReplyErr = "no reply: " + err.Error()
	} else {
		o.Status = resp.StatusCode
		// net/http's own refusals have a body that ends with the connection,
		// which it keeps open for a while: only a handler's reply is read to the end
		if o.Entered {
			if _, err := io.Copy(io.Discard, resp.Body); err != nil {
				o.ReplyErr = "reply body: " + err.Error()
			}
		}
		resp.Body.Close()
	}
	t2 = time.Now()
	return o, t0, t2
}

func runWire(c serverCase) serverObs {
	var o serverObs
	path, ct := "/t.S/U", httpgrpc.UnaryRpcContentType_V1
	if c.Handler == "stream" {
		path, ct = "/t.S/B", httpgrpc.StreamRpcContentType_V1
	}
	h := mounted(c.preCase, &o.hObs)
	guard(fmt.Sprintf("server/wire/%s/%q/%s", c.Handler, c.Header, c.preCase.label()), func() {
		cur = &o.hObs
		defer func() { cur = nil }()
		var w wireObs
		w, o.T0, o.T2 = wireRoundTrip(path, ct, c.Absent, c.Header, h)
		o.Wire, o.Status, o.Panic = w, w.Status, w.Panic
	})
	return o
}

// calibrateWire makes sure the wire harness sees what it is there to see: a
// handler that panics, one that answers, a field value with an obs-text byte
// arriving unchanged, and a control byte being refused by net/http itself.
func calibrateWire() {
	ok := http.HandlerFunc(func(w http.ResponseWriter, r *http.Request) { w.WriteHeader(204) })
	boom := http.HandlerFunc(func(w http.ResponseWriter, r *http.Request) { panic("c09 calibration") })
	guard("wire calibration", func() {
		if o, _, _ := wireRoundTrip("/x", "text/plain", false, "5\xb5", ok); !o.Entered || o.Status != 204 || o.ReplyErr != "" || len(o.Seen) != 1 || o.Seen[0] != "5\xb5" {
			inconclusive("wire calibration: a plain handler with GRPC-Timeout \"5\\xb5\" gave %+v", o)
		}
		if o, _, _ := wireRoundTrip("/x", "text/plain", false, "5S", boom); !o.Entered || o.Panic != "c09 calibration" || o.ReplyErr == "" {
			inconclusive("wire calibration: a panicking handler gave %+v", o)
		}
		if o, _, _ := wireRoundTrip("/x", "text/plain", false, "5\x00", ok); o.Entered || o.Status != 400 {
			inconclusive("wire calibration: a NUL byte in a field value gave %+v", o)
		}
		if o, _, _ := wireRoundTrip("/x", "text/plain", true, "", ok); !o.Entered || len(o.Seen) != 0 {
			inconclusive("wire calibration: a request without the field gave %+v", o)
		}
	})
}
