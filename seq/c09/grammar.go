package main

import (
	"fmt"
	"math"
	"math/big"
	"strings"
	"time"
)

// ---------------------------------------------------------------- server strings

var units = []string{"H", "M", "S", "m", "u", "n", // valid
	"x", "h", "s", "U", "µ", "%", ""} // not units ("" = the last digit is taken for the unit)

// values x units, simplest first. The boundary pairs are the largest value that
// still fits int64 ns and the smallest that does not, for every unit.
var values = []string{
	"", "0", "1", "9", "10", "007", "00000000", "100", "1000",
	"2562047", "2562048", // H boundary
	"99999999",               // largest wire-legal value
	"100000000",              // 9 digits
	"153722867", "153722868", // M boundary
	"2147483647", "2147483648", "4294967297", // int32 / uint32 boundaries
	"9223372036", "9223372037", // S boundary
	"9223372036854", "9223372036855", // m boundary
	"9223372036854775", "9223372036854776", // u boundary
	"9223372036854775807", "9223372036854775808", // n boundary = int64 boundary
	"18446744073709551615", "18446744073709551616", "18446744073709551617", // uint64 boundary
	"100000000000000000000000000000", "999999999999999999999999999999", // 30 digits
	"000000000000000000000000000005", // 30 digits, value 5
	"-1", "-0", "-9223372036854775808", "+5", " 5", "5 ", "1.5", "0x10", "1e3", "1_000", "٣", "５",
}

var oddStrings = []string{
	"S5", "5SS", "5mS", "5 S", "5S\n", "5S\x00", "\x005S", "5S\t", "\t5S", " 5S ", "∞", "NaN", "infinity", "1h30m", "100ms", "1s",
	"5,0S", "5S,5S", "١٠m", "--1S", "+-1S", "0x1fS", "1e3S", "0b1S", "0o7S", "5 S",
	strings.Repeat("9", 4096) + "S", strings.Repeat("S", 4096), strings.Repeat("0", 4096) + "1m",
}

const alphabet = "019-+ .HMSmunx" // for the all-short-strings part

func allStrings(maxLen int) []string {
	var out []string
	layer := []string{""}
	for l := 1; l <= maxLen; l++ {
		var next []string
		for _, p := range layer {
			for i := 0; i < len(alphabet); i++ {
				next = append(next, p+string(alphabet[i]))
			}
		}
		out = append(out, next...)
		layer = next
	}
	return out
}

func powerValues() []string {
	var out []string
	ten := big.NewInt(1)
	for k := 1; k <= 21; k++ {
		ten = new(big.Int).Mul(ten, big.NewInt(10))
		out = append(out, new(big.Int).Sub(ten, big.NewInt(1)).String(), ten.String())
	}
	two := big.NewInt(1)
	for k := 1; k <= 65; k++ {
		two = new(big.Int).Mul(two, big.NewInt(2))
		out = append(out, new(big.Int).Sub(two, big.NewInt(1)).String(), two.String(), new(big.Int).Add(two, big.NewInt(1)).String())
	}
	return out
}

func shortLen(thorough bool) int {
	if thorough {
		return 4
	}
	return 2
}

// ---------------------------------------------------------------- the byte alphabet of a position
//
// The strings above are written over ASCII (plus a few UTF-8 runes inside
// whole values). This part makes the *octet* in one position of an otherwise
// well-formed <digits><unit> string a dimension of its own: every single byte
// 0x00..0xFF (NUL, the control bytes, blank, DEL, the obs-text bytes 0x80..0xFF
// that HTTP lets through in field values) and a few multi-byte UTF-8 sequences a
// user may type for a unit or a digit.

var multiByteTokens = []string{
	"\u00b5", // micro sign (C2 B5), the ISO-8859-1 byte 0xB5 is in the single bytes
	"\u03bc", // Greek small mu (CE BC)
	"\uff15", // full-width digit five (EF BC 95)
	"\u0665", // Arabic-Indic digit five (D9 A5)
	"\ufffd", // replacement character (EF BF BD)
}

// positionTokens: the 256 single bytes in order, then the multi-byte tokens.
func positionTokens() []string {
	out := make([]string, 0, 256+len(multiByteTokens))
	for b := 0; b < 256; b++ {
		out = append(out, string([]byte{byte(b)}))
	}
	return append(out, multiByteTokens...)
}

// tokenClass names the class of a token for fingerprints: which byte exactly
// it was is not part of a finding's identity, which kind of byte is.
func tokenClass(t string) string {
	if len(t) != 1 {
		return fmt.Sprintf("utf8:%+q", t)
	}
	switch b := t[0]; {
	case b == 0:
		return "NUL"
	case b == '\t':
		return "HT"
	case b == '\n':
		return "LF"
	case b == '\r':
		return "CR"
	case b < 0x20:
		return "ctl"
	case b == ' ':
		return "SP"
	case b >= '0' && b <= '9':
		return "digit"
	case b >= 'A' && b <= 'Z':
		return "upper"
	case b >= 'a' && b <= 'z':
		return "lower"
	case b < 0x7f:
		return "punct"
	case b == 0x7f:
		return "DEL"
	case b < 0xc0:
		return "0x80-0xBF"
	case b < 0xf8:
		return "0xC0-0xF7"
	}
	return "0xF8-0xFF"
}

// the digit strings in front of the unit position: none, 1-3 digits, the wire
// format's 8, signed, and over-long ones (9 digits, the int64 boundary, 20
// characters of which 19 are padding, 30 digits)
var unitPosPrefixes = []string{"", "5", "10", "100", "00000005", "-5", "+5",
	"100000000", "9223372036854775807", "9223372036854775808", "00000000000000000005", "100000000000000000000000000000"}

// the digit strings in which every position is swept
var (
	digitPosShort = []string{"5", "10", "100"}
	digitPosLong  = []string{"100000000", "9223372036854775807", "00000000000000000005"}
)

func valueClass(v string) string {
	switch {
	case v == "":
		return "no-digits"
	case v[0] == '-' || v[0] == '+':
		return "signed"
	case len(v) <= 3:
		return "1-3digits"
	case len(v) <= 8:
		return "4-8digits"
	}
	return "over-long"
}

// byteGrammar returns the strings of this part in order (unit position first),
// the class label of each (for fingerprints of strings that are not of the
// valid form), and the set of those with the token in the unit position.
func byteGrammar(thorough bool) (out []string, class map[string]string, unitPos map[string]bool) {
	class, unitPos = map[string]string{}, map[string]bool{}
	toks := positionTokens()
	add := func(s, cl string, up bool) {
		if _, ok := class[s]; !ok {
			class[s] = cl
			out = append(out, s)
			if up {
				unitPos[s] = true
			}
		}
	}
	for _, v := range unitPosPrefixes {
		for _, t := range toks {
			add(v+t, valueClass(v)+"+unit["+tokenClass(t)+"]", true)
		}
	}
	sweep := func(v string, positions []int, us []string) {
		for _, p := range positions {
			for _, t := range toks {
				for _, u := range us {
					add(v[:p]+t+v[p+1:]+u, fmt.Sprintf("%s/digit[%s]/unit=%s", valueClass(v), tokenClass(t), u), false)
				}
			}
		}
	}
	all := func(v string) []int {
		var ps []int
		for i := range v {
			ps = append(ps, i)
		}
		return ps
	}
	for _, v := range digitPosShort {
		sweep(v, all(v), units[:7]) // the 6 units and one letter that is none
	}
	for _, v := range digitPosLong {
		if thorough {
			sweep(v, all(v), []string{"S", "n", "x"})
		} else {
			sweep(v, []int{0, len(v) / 2, len(v) - 1}, []string{"S"})
		}
	}
	return out, class, unitPos
}

func byteGrammarText(thorough bool) string {
	t := fmt.Sprintf("byte alphabet of one position: %d tokens = every single byte 0x00..0xFF + the UTF-8 sequences %+q, (a) in the unit position after each of the %d digit strings %q, (b) in place of each digit of %q x suffixes %q",
		256+len(multiByteTokens), multiByteTokens, len(unitPosPrefixes), unitPosPrefixes, digitPosShort, units[:7])
	if thorough {
		return t + fmt.Sprintf(", (c) in place of each digit of the over-long %q x suffixes {S, n, x}", digitPosLong)
	}
	return t + fmt.Sprintf(", (c) in place of the first, the middle and the last digit of the over-long %q with unit S", digitPosLong)
}

func serverGrammar(thorough bool) []string {
	seen := map[string]bool{}
	var out []string
	add := func(s string) {
		if !seen[s] {
			seen[s] = true
			out = append(out, s)
		}
	}
	for _, v := range values {
		for _, u := range units {
			add(v + u)
		}
	}
	for _, s := range oddStrings {
		add(s)
	}
	for _, s := range allStrings(shortLen(thorough)) {
		add(s)
	}
	if thorough {
		for _, v := range powerValues() {
			for _, u := range units[:6] {
				add(v + u)
			}
		}
	}
	// the byte alphabet last: a string that the older parts have already is
	// theirs (and keeps its literal fingerprint)
	bg, cls, up := byteGrammar(thorough)
	byteClass, unitPosition = map[string]string{}, map[string]bool{}
	for _, s := range bg {
		if !seen[s] {
			byteClass[s] = cls[s]
		}
		if up[s] {
			unitPosition[s] = true
		}
		add(s)
	}
	return out
}

// filled by serverGrammar: the class label of every string that only the byte
// alphabet part contributes; the strings with the swept token in the unit position
var (
	byteClass    map[string]string
	unitPosition map[string]bool
)

func grammarText(thorough bool) string {
	t := fmt.Sprintf("%d values {empty, 0, 1, 9, 10, leading zeros, 99999999, 100000000, int32/uint32/int64/uint64 boundaries, for each unit the largest value whose product fits int64 ns and the next one, 30 digits, negative, signed, spaces, 1.5, 0x10, 1e3, non-ASCII digits} x %d suffixes {H M S m u n, 6 non-units, none}; %d odd strings (doubled/misplaced units, control characters, 4096-character values); all strings of length 1..%d over %q",
		len(values), len(units), len(oddStrings), shortLen(thorough), alphabet)
	if thorough {
		t += "; 10^k-1, 10^k (k=1..21) and 2^k-1, 2^k, 2^k+1 (k=1..65) x the 6 units"
	}
	return t + "; " + byteGrammarText(thorough)
}

// ---------------------------------------------------------------- caller durations

type rem struct {
	Label string
	D     time.Duration
}

const year = 365 * 24 * time.Hour

func remainingGrammar(thorough bool) []rem {
	out := []rem{
		{"1ns", 1}, {"100us", 100 * time.Microsecond}, {"999us", 999 * time.Microsecond}, {"999.999us", time.Millisecond - 1},
		{"1ms", time.Millisecond}, {"1.000001ms", time.Millisecond + 1}, {"1.5ms", 1500 * time.Microsecond}, {"1.999999ms", 2*time.Millisecond - 1},
		{"2ms", 2 * time.Millisecond}, {"10ms", 10 * time.Millisecond}, {"100ms", 100 * time.Millisecond}, {"999.999999ms", time.Second - 1},
		{"1s", time.Second}, {"1m", time.Minute}, {"1h", time.Hour},
		{"99999999ms", 99999999 * time.Millisecond}, {"100000000ms", 100000000 * time.Millisecond}, // 8 / 9 digits of milliseconds
		{"30d", 30 * 24 * time.Hour}, {"1y", year}, {"100y", 100 * year}, {"290y", 290 * year},
		{"max-1ms", math.MaxInt64 - time.Millisecond}, {"max", math.MaxInt64},
	}
	if thorough {
		seen := map[time.Duration]bool{}
		for _, r := range out {
			seen[r.D] = true
		}
		add := func(d time.Duration) {
			if d > 0 && !seen[d] {
				seen[d] = true
				out = append(out, rem{fmt.Sprintf("%dns", int64(d)), d})
			}
		}
		p := time.Duration(1)
		for k := 0; k <= 18; k++ { // 1 ns .. 10^18 ns (31.7 years)
			for _, m := range []time.Duration{1, 2, 5, 9} {
				add(m*p - 1)
				add(m * p)
				add(m*p + 1)
			}
			p *= 10
		}
		for k := 10; k <= 62; k++ {
			add(time.Duration(1)<<uint(k) - 1)
			add(time.Duration(1) << uint(k))
		}
	}
	return out
}

func remainingText(thorough bool) string {
	t := "1 ns, 100 us, 999 us, 1 ms -/+ 1 ns, 1.5 ms, 2 ms - 1 ns, 2 ms, 10 ms, 100 ms, 1 s - 1 ns, 1 s, 1 m, 1 h, 99999999 ms, 100000000 ms, 30 d, 1 y, 100 y, 290 y, MaxInt64 ns - 1 ms, MaxInt64 ns"
	if thorough {
		t += "; {1,2,5,9} x 10^k ns -/+ 1 ns (k=0..18); 2^k - 1, 2^k ns (k=10..62)"
	}
	return t
}

// ---------------------------------------------------------------- time that passes before the request is sent

// credsDim is one value of the dimension "the call uses per-RPC credentials
// (grpc.PerRPCCredentials call option) whose GetRequestMetadata consumes this
// much time before the request can be built". Delay < 0 = no credentials at
// all; 0 = credentials that answer at once. The delay is an actuator only: the
// oracle uses the instants recorded around GetRequestMetadata, not the number.
type credsDim struct {
	Label string
	Delay time.Duration
}

var (
	noCreds      = credsDim{"", -1}
	instantCreds = credsDim{"instant", 0}
	// above the 1 ms encoding granularity, one and two orders of magnitude
	slowCredsQuick = []credsDim{{"3ms", 3 * time.Millisecond}, {"30ms", 30 * time.Millisecond}}
	// thorough only, around the base durations of the quick tier
	slowCredsExtra = []credsDim{{"300ms", 300 * time.Millisecond}}
)

// ---------------------------------------------------------------- caller's outgoing metadata

// mdDim is one value of the dimension "the caller's outgoing metadata": Key ==
// "" = no metadata at all.
type mdDim struct {
	Key  string
	Vals []string
}

func (m mdDim) label() string {
	if m.Key == "" {
		return ""
	}
	return m.Key + "=" + strings.Join(m.Vals, ",")
}

const timeoutKey = "grpc-timeout"

// Every remaining duration of the grammar (1 ns .. MaxInt64 ns) has entries
// that denote less and entries that denote more than it (1n and 99999999H =
// 11415 years bracket the whole range), entries that are not timeouts at all,
// and two-valued entries in both orders.
var mdGrammar = []mdDim{
	{},
	{"x-other", []string{"1H"}}, // a timeout-looking value under an unrelated key
	{timeoutKey, []string{"1n"}},
	{timeoutKey, []string{"1u"}},
	{timeoutKey, []string{"1m"}},
	{timeoutKey, []string{"20m"}},
	{timeoutKey, []string{"1S"}},
	{timeoutKey, []string{"1M"}},
	{timeoutKey, []string{"1H"}},
	{timeoutKey, []string{"99999999H"}},
	{timeoutKey, []string{"0m"}},
	{timeoutKey, []string{""}},
	{timeoutKey, []string{"bogus"}},
	{timeoutKey, []string{"-1S"}},
	{timeoutKey, []string{"1n", "1H"}},
	{timeoutKey, []string{"1H", "1n"}},
}

// the part of mdGrammar that is crossed with the slow credentials (every such
// case costs its delay in wall time): none, shorter than everything, longer
// than nearly everything
var mdGrammarSlow = []mdDim{mdGrammar[0], mdGrammar[2], mdGrammar[8]}

func credsText(thorough bool) string {
	t := "credentials {none, answering at once, taking 3 ms, taking 30 ms"
	if thorough {
		t += ", taking 300 ms (base durations of the quick tier, no metadata only)"
	}
	return t + "}"
}

func mdText() string {
	var l []string
	for _, m := range mdGrammar[1:] {
		l = append(l, m.label())
	}
	return "caller's outgoing metadata {none, " + strings.Join(l, " | ") + "}"
}

// ---------------------------------------------------------------- the request context's own deadline

// preDim is one value of the dimension "the context of the *http.Request that
// is handed to the library's HTTP handler already carries a deadline" (the
// handlers are mounted behind http.TimeoutHandler or a middleware that gives
// every request a budget, or the http.Server's BaseContext / ConnContext has a
// deadline). Label "" = it has none, which is what http.Server and httptest
// give by default. D is the distance of that deadline from the instant the
// request context is made, right before the library's handler is entered;
// negative = it has expired already. Every absolute value is "later than the
// caller's" for the shorter and "earlier than the caller's" for the longer
// members of the header grammar / the duration grammar, so crossing it with
// those grammars covers both relations for every value.
type preDim struct {
	Label string
	D     time.Duration
}

var preGrammar = []preDim{
	{"expired", -time.Second},
	{"50ms", 50 * time.Millisecond},
	{"1h", time.Hour},
	{"200y", 200 * year},
}

// How the deadline gets onto the request context.
const (
	mountCtx = "ctx"            // the request's context is a context.WithDeadline (BaseContext, ConnContext, budget middleware)
	mountTH  = "timeouthandler" // the library's handler is wrapped in net/http's http.TimeoutHandler
)

// preCase is the part of a case that says which request context the library's
// handler gets.
type preCase struct {
	Pre   string `json:"ctx_deadline,omitempty"` // label of the preDim, "" = none
	PreNs int64  `json:"ctx_deadline_ns,omitempty"`
	Mount string `json:"mount,omitempty"`
}

var noPre = preCase{}

// allPres: every value of preGrammar as a plain context deadline, then every
// value that lies ahead behind http.TimeoutHandler (with a limit that has
// passed already TimeoutHandler answers 503 itself, concurrently with the
// handler: which of the two the client sees is not defined, and it says nothing
// about the library).
func allPres() []preCase {
	var out []preCase
	for _, p := range preGrammar {
		out = append(out, preCase{p.Label, int64(p.D), mountCtx})
	}
	for _, p := range preGrammar {
		if p.D > 0 {
			out = append(out, preCase{p.Label, int64(p.D), mountTH})
		}
	}
	return out
}

// ctxPres: the plain context deadlines only.
func ctxPres() []preCase {
	var out []preCase
	for _, p := range allPres() {
		if p.Mount == mountCtx {
			out = append(out, p)
		}
	}
	return out
}

func (p preCase) label() string {
	if p.Pre == "" {
		return ""
	}
	if p.Mount == mountTH {
		return p.Pre + "@" + mountTH
	}
	return p.Pre
}

func preText() string {
	var l []string
	for _, p := range preGrammar {
		l = append(l, p.Label)
	}
	return "deadline already on the request context {none, " + strings.Join(l, ", ") + "} (distance from the instant the request context is made; expired = 1 s in the past), put there by {context.WithDeadline on the request's context, http.TimeoutHandler around the library's handler (values ahead only)}"
}
