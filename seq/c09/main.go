// C09: deadlines cross the HTTP transport without being extended or
// spuriously expired.
//
// Three clauses, each a complete enumeration of a stated grammar on the real
// code, with bracketing oracles only (instants measured around the call, no
// tolerances):
//
//	server  every GRPC-Timeout string of the grammar (see grammar.go) through
//	        httpgrpc.NewServer + ServeHTTP on a recorder, unary and streaming
//	        handler, the handler records ctx.Deadline();
//	        the same strings once more written onto a connection to a net/http
//	        server in front of that handler (wire.go): net/http's own reading of
//	        the field is in the loop, the verdict goes by what it handed on;
//	client  every remaining duration of the grammar through Channel.Invoke /
//	        Channel.NewStream with a recording RoundTripper that captures the
//	        GRPC-Timeout header;
//	e2e     the same durations, client -> common.HandlerRT(server) -> handler.
//
// The client and e2e clauses are crossed with two more dimensions of the call:
//
//	creds   time that passes between the entry of the call and the request
//	        being built: per-RPC credentials (grpc.PerRPCCredentials) whose
//	        GetRequestMetadata consumes a controlled amount of time. "Transit"
//	        starts at the instant GetRequestMetadata returned (the last instant
//	        at which the request is known not to have been sent yet), as with
//	        grpc-go, which encodes the timeout after the credentials answered;
//	md      the caller's outgoing metadata: none, an unrelated key, and a
//	        "grpc-timeout" key with values that denote less / more than the
//	        context's deadline, values that are no timeouts, and two values.
//	        The context's deadline decides, the metadata entry never does
//	        (grpc-go drops that reserved key from the caller's metadata).
//
// The server and e2e clauses are crossed with one more dimension, of the
// deployment rather than of the call:
//
//	ctx     the context of the request that the library's HTTP handler is given
//	        already has a deadline of its own (http.TimeoutHandler, a budget
//	        middleware, http.Server.BaseContext): none, one that lies before the
//	        caller's, one that lies after it, one that has expired. The handler's
//	        deadline is still never later than the caller's (plus transit and
//	        granularity), never later than that of the request context (context
//	        deadlines only shrink), and never earlier than the earlier of the
//	        two (minus granularity).
package main

import (
	"context"
	"encoding/hex"
	"encoding/json"
	"errors"
	"fmt"
	"io"
	"math"
	"math/big"
	"net/http"
	"net/http/httptest"
	"net/url"
	"os"
	"runtime/debug"
	"strings"
	"sync"
	"time"
	"unicode/utf8"

	"github.com/fullstorydev/grpchan/httpgrpc"
	"google.golang.org/grpc"
	"google.golang.org/grpc/codes"
	"google.golang.org/grpc/metadata"
	"google.golang.org/grpc/status"
	"google.golang.org/protobuf/proto"
	"google.golang.org/protobuf/types/known/wrapperspb"

	"verif/seq/common"
	"verif/vlib"
)

const hangGuard = 30 * time.Second

var maxI64 = big.NewInt(math.MaxInt64)

// ---------------------------------------------------------------- reference

// form is the reference reading of a GRPC-Timeout string.
type form struct {
	Valid  bool     // ^[0-9]+[HMSmun]$
	Digits int      // number of digit characters
	Unit   byte     // H M S m u n
	D      *big.Int // the duration it denotes, in ns, unbounded
	Fits   bool     // D <= MaxInt64 ns
}

func parseRef(s string) form {
	if len(s) < 2 {
		return form{}
	}
	u := s[len(s)-1]
	var unit time.Duration
	switch u {
	case 'H':
		unit = time.Hour
	case 'M':
		unit = time.Minute
	case 'S':
		unit = time.Second
	case 'm':
		unit = time.Millisecond
	case 'u':
		unit = time.Microsecond
	case 'n':
		unit = time.Nanosecond
	default:
		return form{}
	}
	v := s[:len(s)-1]
	for i := 0; i < len(v); i++ {
		if v[i] < '0' || v[i] > '9' {
			return form{}
		}
	}
	n, ok := new(big.Int).SetString(v, 10)
	if !ok {
		return form{}
	}
	d := n.Mul(n, big.NewInt(int64(unit)))
	return form{Valid: true, Digits: len(v), Unit: u, D: d, Fits: d.Cmp(maxI64) <= 0}
}

// laterThanBig reports whether a-b (a after b) exceeds d ns, for d that may
// be beyond time.Duration.
func laterThanBig(a, b time.Time, d *big.Int) bool {
	if diff := a.Sub(b); diff < math.MaxInt64 {
		return big.NewInt(int64(diff)).Cmp(d) > 0
	}
	// Sub saturated: compare in whole seconds, rounded down (one-sided)
	secs := a.Unix() - b.Unix() - 1
	x := new(big.Int).Mul(big.NewInt(secs), big.NewInt(int64(time.Second)))
	return x.Cmp(d) > 0
}

func fmtTime(t time.Time, ref time.Time, name string) string {
	d := t.Sub(ref)
	if d == math.MaxInt64 || d == math.MinInt64 {
		return name + sign(d) + "(saturated; " + t.UTC().Format(time.RFC3339) + ")"
	}
	return name + sign(d) + absDur(d).String()
}

func sign(d time.Duration) string {
	if d < 0 {
		return "-"
	}
	return "+"
}

func absDur(d time.Duration) time.Duration {
	if d < 0 {
		if d == math.MinInt64 {
			return math.MaxInt64
		}
		return -d
	}
	return d
}

// ---------------------------------------------------------------- plumbing

// guard runs f and exits 2 if it does not come back: a hang is not something
// this property forbids, so it is "could not decide", not a violation.
func guard(what string, f func()) {
	done := make(chan struct{})
	go func() {
		defer close(done)
		f()
	}()
	t := time.NewTimer(hangGuard)
	defer t.Stop()
	select {
	case <-done:
	case <-t.C:
		fmt.Fprintf(os.Stderr, "INCONCLUSIVE: case %s did not finish within the %v hang guard\n", what, hangGuard)
		os.Exit(2)
	}
}

func inconclusive(format string, a ...interface{}) {
	fmt.Fprintf(os.Stderr, "INCONCLUSIVE: "+format+"\n", a...)
	os.Exit(2)
}

// hObs is what the handler saw.
type hObs struct {
	Reached bool
	HasDl   bool
	Dl      time.Time
	T       time.Time // instant inside the handler
	// the deadline that the request context carried when the library's HTTP
	// handler was entered lies in [Plo, Phi] (Plo == Phi when it is known exactly)
	Pre      bool
	Plo, Phi time.Time
}

func (o *hObs) preObs(ref time.Time, name string) string {
	if !o.Pre {
		return ""
	}
	if o.Plo.Equal(o.Phi) {
		return ", request context deadline=" + fmtTime(o.Plo, ref, name)
	}
	return ", request context deadline in [" + fmtTime(o.Plo, ref, name) + ", " + fmtTime(o.Phi, ref, name) + "]"
}

// mounted is the library's server the way the case deploys it: directly, with
// a deadline on the request's context, or behind http.TimeoutHandler. The
// bounds of the request context's deadline are recorded in o.
func mounted(pre preCase, o *hObs) http.Handler {
	srv := server()
	return http.HandlerFunc(func(w http.ResponseWriter, r *http.Request) {
		d := time.Duration(pre.PreNs)
		switch {
		case pre.Pre == "":
			srv.ServeHTTP(w, r)
		case pre.Mount == mountTH:
			// TimeoutHandler runs the handler on a goroutine of its own and may come
			// back before it: wait for the handler itself (a gate, not a delay)
			done := make(chan struct{})
			inner := http.HandlerFunc(func(w http.ResponseWriter, r *http.Request) {
				defer close(done)
				o.Phi = time.Now().Add(d) // TimeoutHandler has made its context by now
				srv.ServeHTTP(w, r)
			})
			th := http.TimeoutHandler(inner, d, "c09: the server's own limit")
			o.Pre = true
			o.Plo = time.Now().Add(d) // ... and not yet by now
			o.Phi = o.Plo
			defer func() { <-done }()
			th.ServeHTTP(w, r)
		default:
			dl := time.Now().Add(d)
			ctx, cancel := context.WithDeadline(r.Context(), dl)
			defer cancel()
			o.Pre, o.Plo, o.Phi = true, dl, dl
			srv.ServeHTTP(w, r.WithContext(ctx))
		}
	})
}

var cur *hObs // cases run strictly one at a time

func record(ctx context.Context) {
	o := cur
	if o == nil {
		return
	}
	o.T = time.Now()
	o.Dl, o.HasDl = ctx.Deadline()
	o.Reached = true
}

var (
	theServer *httpgrpc.Server
	bidiDesc  = &grpc.StreamDesc{StreamName: "B", ClientStreams: true, ServerStreams: true}
)

func server() *httpgrpc.Server {
	if theServer != nil {
		return theServer
	}
	srv := httpgrpc.NewServer()
	svc := &common.Svc{Name: "t.S",
		Unary: map[string]common.UnaryFn{"U": func(ctx context.Context, dec func(interface{}) error) (interface{}, error) {
			record(ctx)
			var in wrapperspb.StringValue
			if err := dec(&in); err != nil {
				return nil, err
			}
			return wrapperspb.String("resp"), nil
		}},
		Streams: map[string]common.StreamDef{"B": {ClientStreams: true, ServerStreams: true, Fn: func(s grpc.ServerStream) error {
			record(s.Context())
			return nil
		}}},
	}
	srv.RegisterService(svc.Desc(), common.Impl{})
	theServer = srv
	return srv
}

// ---------------------------------------------------------------- server clause

type serverCase struct {
	Engine  string `json:"engine"`  // "E2"
	Kind    string `json:"kind"`    // "server"
	Handler string `json:"handler"` // unary | stream
	Absent  bool   `json:"absent,omitempty"`
	Header  string `json:"header"`
	// the bytes of Header in hex, present when they are not valid UTF-8
	HeaderHex string `json:"header_hex,omitempty"`
	// "" = the handler is called directly with the string in the header map;
	// "wire" = the request goes through a net/http server, byte by byte
	Via string `json:"via,omitempty"`
	preCase
}

// Header strings that are not valid UTF-8 do not survive encoding/json (the
// bytes come back as U+FFFD): the replay object carries them in hex as well.
func (c serverCase) MarshalJSON() ([]byte, error) {
	type bare serverCase
	b := bare(c)
	if !utf8.ValidString(b.Header) {
		b.HeaderHex = hex.EncodeToString([]byte(b.Header))
	}
	return json.Marshal(b)
}

func (c *serverCase) UnmarshalJSON(data []byte) error {
	type bare serverCase
	var b bare
	if err := json.Unmarshal(data, &b); err != nil {
		return err
	}
	if b.HeaderHex != "" {
		raw, err := hex.DecodeString(b.HeaderHex)
		if err != nil {
			return err
		}
		b.Header, b.HeaderHex = string(raw), ""
	}
	*c = serverCase(b)
	return nil
}

type serverObs struct {
	hObs
	T0, T2 time.Time // before ServeHTTP (before the request is written), after it returned (after the reply was read)
	Status int
	Panic  string
	Wire   wireObs // Via == "wire" only
}

// wireInfo says what net/http made of the field value of a wire case.
type wireInfo struct {
	Refused bool // net/http answered itself, the handler was never called
	Altered bool // the handler was given something else than the bytes sent
}

func runServer(c serverCase) serverObs {
	if c.Via == viaWire {
		return runWire(c)
	}
	var o serverObs
	var req *http.Request
	if c.Handler == "stream" {
		req = httptest.NewRequest("POST", "/t.S/B", strings.NewReader(""))
		req.Header.Set("Content-Type", httpgrpc.StreamRpcContentType_V1)
	} else {
		body, _ := proto.Marshal(wrapperspb.String("req"))
		req = httptest.NewRequest("POST", "/t.S/U", strings.NewReader(string(body)))
		req.Header.Set("Content-Type", httpgrpc.UnaryRpcContentType_V1)
	}
	if !c.Absent {
		// placed directly in the map: what the server's parser gets to see is
		// exactly this string (a real net/http server would already have trimmed
		// optional white space)
		req.Header["Grpc-Timeout"] = []string{c.Header}
	}
	rec := httptest.NewRecorder()
	h := mounted(c.preCase, &o.hObs)
	guard(fmt.Sprintf("server/%s/%q/%s", c.Handler, c.Header, c.preCase.label()), func() {
		defer func() {
			if p := recover(); p != nil {
				o.Panic = fmt.Sprint(p)
			}
		}()
		cur = &o.hObs
		defer func() { cur = nil }()
		o.T0 = time.Now()
		h.ServeHTTP(rec, req)
		o.T2 = time.Now()
	})
	o.Status = rec.Code
	return o
}

// preRel is the measured relation between the request context's own deadline
// and the caller's (which lies in [lo, hi]): "" when there is none.
func preRel(o *hObs, start, lo, hi time.Time) string {
	switch {
	case !o.Pre:
		return ""
	case o.Phi.Before(start):
		return "expired"
	case o.Phi.Before(lo):
		return "earlier"
	case o.Plo.After(hi):
		return "later"
	}
	return "straddling"
}

// beyondPre: the request context had a deadline and the handler's context has
// none or a later one. Context deadlines only shrink.
func beyondPre(o *hObs) bool {
	return o.Pre && o.Reached && (!o.HasDl || o.Dl.After(o.Phi))
}

const beyondClause = "beyond-request-context"

// checkServer returns ("", obs) when the case satisfies the property.
// reachedParser: the parse branch ran and the handler's deadline was observed;
// rel: the measured relation of the request context's deadline to the one the
// header asks for.
func checkServer(c serverCase) (clause, obs string, reachedParser bool, rel string, wi wireInfo) {
	o := runServer(c)
	// what the library's handler was given: the string itself, or what net/http
	// made of the bytes on the wire
	header, absent := c.Header, c.Absent
	if c.Via == viaWire {
		w := o.Wire
		if !w.Entered {
			wi.Refused = true
			if w.Status == 0 {
				// net/http neither called the handler nor answered: not about the library
				inconclusive("server/wire/%s/%q: net/http gave no reply and did not call the handler: %s", c.Handler, c.Header, w.ReplyErr)
			}
			return "", fmt.Sprintf("net/http answered %d itself, the handler was not called", w.Status), false, "", wi
		}
		if len(w.Seen) == 0 {
			header, absent = "", true
		} else {
			header, absent = w.Seen[0], false // the library reads the first value
		}
		wi.Altered = absent != c.Absent || header != c.Header || len(w.Seen) > 1
	}
	clause, obs, reachedParser, rel = judgeServer(c, &o, header, absent)
	if c.Via == viaWire {
		obs = fmt.Sprintf("handler given GRPC-Timeout=%q; ", o.Wire.Seen) + obs
		if clause == "" && o.Wire.ReplyErr != "" {
			clause = "no-reply"
		}
		if o.Wire.ReplyErr != "" {
			obs += "; " + o.Wire.ReplyErr
		}
	}
	return clause, obs, reachedParser, rel, wi
}

// judgeServer: header / absent are what the library's handler was given.
func judgeServer(c serverCase, o *serverObs, header string, absent bool) (clause, obs string, reachedParser bool, rel string) {
	f := parseRef(header)
	switch {
	case o.Panic != "":
		obs = "panic: " + o.Panic
	case !o.Reached:
		obs = fmt.Sprintf("handler not reached, http=%d", o.Status)
	case !o.HasDl:
		obs = fmt.Sprintf("handler reached at t0+%v, no deadline, http=%d", o.T.Sub(o.T0), o.Status)
	default:
		obs = fmt.Sprintf("handler reached at t0+%v, deadline=%s, http=%d", o.T.Sub(o.T0), fmtTime(o.Dl, o.T0, "t0"), o.Status)
	}
	obs += o.preObs(o.T0, "t0")
	reachedParser = !absent && header != "" && o.Reached
	if o.Pre {
		rel = "present"
		if o.Phi.Before(o.T0) {
			rel = "expired"
		}
	}
	if o.Panic != "" {
		return "panic", obs, reachedParser, rel
	}
	if absent {
		switch {
		case !o.Reached:
			return "handler-not-reached", obs, false, rel
		case beyondPre(&o.hObs):
			return beyondClause, obs, false, rel
		case o.HasDl && (!o.Pre || o.Dl.Before(o.Plo)):
			return "deadline-without-header", obs, false, rel
		}
		return "", obs, false, rel
	}
	if !f.Valid {
		// not of the form <digits><unit>: anything but a crash
		ownLimit := c.Mount == mountTH && o.Status == http.StatusServiceUnavailable && !o.T2.Before(o.Plo) // TimeoutHandler's own answer
		if o.Status >= 500 && o.Status != http.StatusGatewayTimeout && !ownLimit {
			return "5xx", obs, reachedParser, rel
		}
		if beyondPre(&o.hObs) {
			return beyondClause, obs, reachedParser, rel
		}
		return "", obs, reachedParser, rel
	}
	want := "want deadline-D in [t0,t_handler], D=" + f.D.String() + "ns"
	if o.Pre {
		want += ", or the request context's deadline if that comes first"
	}
	if !o.Reached {
		// only legitimate when a deadline had really passed already
		if !laterThanBig(o.T2, o.T0, f.D) && !(o.Pre && !o.T2.Before(o.Plo)) {
			return "handler-not-reached", obs + "; " + want, reachedParser, rel
		}
		return "", obs, reachedParser, rel
	}
	// the earliest the handler's deadline may be: t0+D (saturated), or the
	// request context's own deadline if that comes first
	var lower, upper time.Time
	if f.Fits {
		d := time.Duration(f.D.Int64())
		lower, upper = o.T0.Add(d), o.T.Add(d)
		rel = preRel(&o.hObs, o.T0, lower, upper)
	} else {
		lower = o.T0.Add(math.MaxInt64)
		want = "D=" + f.D.String() + "ns exceeds MaxInt64: want no deadline or one not before t0+MaxInt64ns"
		if o.Pre {
			want += ", or the request context's deadline"
		}
		if rel == "present" {
			rel = "earlier"
		}
	}
	if o.Pre && o.Plo.Before(lower) {
		lower = o.Plo
	}
	switch {
	case !o.HasDl:
		if f.Fits {
			return "no-deadline", obs + "; " + want, true, rel
		}
	case o.Dl.Before(lower) && o.Dl.Before(o.T0):
		return "past-deadline", obs + "; " + want, true, rel
	case o.Dl.Before(lower):
		return "too-early", obs + "; " + want, true, rel
	case f.Fits && o.Dl.After(upper), !f.Fits && laterThanBig(o.Dl, o.T, f.D):
		return "too-late", obs + "; " + want, true, rel
	}
	if beyondPre(&o.hObs) {
		return beyondClause, obs + "; " + want, true, rel
	}
	return "", obs, true, rel
}

func plain(s string) bool {
	if s == "" {
		return false
	}
	for i := 0; i < len(s); i++ {
		ch := s[i]
		if !(ch >= '0' && ch <= '9' || ch >= 'a' && ch <= 'z' || ch >= 'A' && ch <= 'Z' || ch == '+' || ch == '-' || ch == '.') {
			return false
		}
	}
	return true
}

// preTag is the part of a fingerprint that names the request context's own
// deadline: by its relation to the caller's (how far away it is is not part of
// a finding's identity), and by the way it got there only if the plain context
// deadline of the same value (which ran earlier) did not break the same clause.
// It is left out altogether when the same case without such a deadline broke the
// same clause. key gives the identity of the case with this dimension replaced
// by the given value; failed has the (key|clause) of all cases that failed so far.
func preTag(p preCase, rel, clause string, key func(pre, mount string) string, failed map[string]bool) string {
	if p.Pre == "" {
		return ""
	}
	if failed != nil && failed[key("", "")+"|"+clause] {
		return ""
	}
	tag := "|ctx-deadline=" + rel
	if p.Mount == mountTH && (failed == nil || !failed[key(p.Pre, mountCtx)+"|"+clause]) {
		tag += "|mount=" + mountTH
	}
	return tag
}

// nominalRel is the relation the case was built for (the measured one may be
// "straddling" when the two deadlines are within the duration of the case).
func nominalRel(p preCase, hasCaller bool, caller *big.Int) string {
	switch {
	case p.Pre == "":
		return ""
	case p.PreNs < 0:
		return "expired"
	case !hasCaller:
		return "present"
	case big.NewInt(p.PreNs).Cmp(caller) < 0:
		return "earlier"
	}
	return "later"
}

func (c serverCase) nominalRel() string {
	f := parseRef(c.Header)
	return nominalRel(c.preCase, !c.Absent && f.Valid, f.D)
}

func (c clientCase) nominalRel() string {
	return nominalRel(c.preCase, !c.NoDeadline, big.NewInt(c.RemainingNs))
}

// serverFingerprint: values whose product with the unit fits int64 ns are
// identified literally when they have at most 8 digits (the wire format's
// limit) and by digit count and unit beyond that; everything that is not of the
// valid form literally; values whose product overflows by unit and size class.
func serverFingerprint(c serverCase, clause string, failed map[string]bool) string {
	rel := c.nominalRel()
	side := "server"
	if c.Handler == "stream" {
		side = "server-stream"
	}
	keyVia := func(via, pre, mount string) string {
		return fmt.Sprintf("server|%s|%s|%v|%s|%s|%s", via, c.Handler, c.Absent, c.Header, pre, mount)
	}
	key := func(pre, mount string) string { return keyVia(c.Via, pre, mount) }
	if failed != nil {
		failed[key(c.Pre, c.Mount)+"|"+clause] = true
	}
	pt := preTag(c.preCase, rel, clause, key, failed)
	// that the request went through net/http is part of a finding's identity
	// only if the same case with the handler called directly (which ran earlier)
	// did not break the same clause
	if c.Via != "" && (failed == nil || !failed[keyVia("", c.Pre, c.Mount)+"|"+clause]) {
		pt += "|via=" + c.Via
	}
	if c.Absent {
		return fmt.Sprintf("C09|%s|GRPC-Timeout=<absent>%s|%s", side, pt, clause)
	}
	f := parseRef(c.Header)
	if f.Valid && !f.Fits {
		// one cause (the product does not fit int64 ns) per unit and size class,
		// however the wrapped value happens to come out
		cls := "1-8digits"
		if f.Digits > 8 {
			cls = "9+digits"
		}
		if clause == "past-deadline" || clause == "too-early" {
			clause = "wrapped"
		}
		return fmt.Sprintf("C09|%s|GRPC-Timeout=%s%c|overflows%s|%s", side, cls, f.Unit, pt, clause)
	}
	if f.Valid && f.Digits > 8 {
		return fmt.Sprintf("C09|%s|GRPC-Timeout=%d-digit%c|fits%s|%s", side, f.Digits, f.Unit, pt, clause)
	}
	h := c.Header
	if cl, ok := byteClass[h]; ok && !f.Valid {
		// a string of the byte alphabet part that is not a timeout: named by the
		// kind of byte and where it stands, not by the byte
		h = "<" + cl + ">"
	} else if !plain(h) {
		h = fmt.Sprintf("%q", h)
	}
	return fmt.Sprintf("C09|%s|GRPC-Timeout=%s%s|%s", side, h, pt, clause)
}

// ---------------------------------------------------------------- client and e2e clauses

type clientCase struct {
	Engine      string `json:"engine"` // "E2"
	Kind        string `json:"kind"`   // "client" | "e2e"
	Path        string `json:"path"`   // unary | stream
	NoDeadline  bool   `json:"no_deadline,omitempty"`
	RemainingNs int64  `json:"remaining_ns"`
	Label       string `json:"label"`
	// per-RPC credentials: "" = none, otherwise GetRequestMetadata returns
	// only after CredsDelayNs have passed
	Creds        string `json:"creds,omitempty"`
	CredsDelayNs int64  `json:"creds_delay_ns,omitempty"`
	// caller's outgoing metadata: "" = none
	MDKey  string   `json:"md_key,omitempty"`
	MDVals []string `json:"md_values,omitempty"`
	// e2e only: the request context on the server side has a deadline of its own
	preCase
}

func (c clientCase) md() mdDim { return mdDim{c.MDKey, c.MDVals} }

func (c clientCase) name() string {
	n := fmt.Sprintf("%s/%s/%s", c.Kind, c.Path, c.Label)
	if c.Creds != "" {
		n += "/creds=" + c.Creds
	}
	if c.MDKey != "" {
		n += "/md:" + c.md().label()
	}
	if c.Pre != "" {
		n += "/ctx-deadline=" + c.preCase.label()
	}
	return n
}

// slowCreds are per-RPC credentials that return only after delay has passed on
// the clock and record the instants around that.
type slowCreds struct {
	delay time.Duration
	o     *callObs
}

func (s slowCreds) GetRequestMetadata(ctx context.Context, uri ...string) (map[string]string, error) {
	t0 := time.Now()
	for {
		left := s.delay - time.Since(t0)
		if left <= 0 {
			break
		}
		time.Sleep(left) // actuator, not oracle: the loop ends on the clock reading
	}
	if s.o.CredsCalls == 0 {
		s.o.Tc0 = t0
	}
	s.o.CredsCalls++
	s.o.Tc1 = time.Now() // nothing of the request can have been built before this
	return map[string]string{"authorization": "bearer c09"}, nil
}

func (slowCreds) RequireTransportSecurity() bool { return false }

func timeoutValues(h http.Header) []string {
	var out []string
	for k, v := range h {
		if strings.EqualFold(k, "grpc-timeout") {
			out = append(out, v...)
		}
	}
	return out
}

var errRecorded = errors.New("c09: request recorded, no response")

type callObs struct {
	Ta, Dl time.Time // instant before the call = base of the deadline; the caller's deadline
	Tb     time.Time // instant inside RoundTrip
	// first entry into / last return from GetRequestMetadata
	Tc0, Tc1   time.Time
	CredsCalls int
	Called     bool
	Values     []string
	After      time.Time
	Err        error
	Panic      string
	H          hObs
}

// sendBase is the latest recorded instant at which the request is known not to
// have been built yet: the return of the credentials if they were consulted,
// otherwise the instant before the call.
func (o *callObs) sendBase() time.Time {
	if o.CredsCalls > 0 {
		return o.Tc1
	}
	return o.Ta
}

func (o *callObs) credsObs() string {
	if o.CredsCalls == 0 {
		return ""
	}
	return fmt.Sprintf(", credentials consulted t_call+%v..t_call+%v", o.Tc0.Sub(o.Ta), o.Tc1.Sub(o.Ta))
}

// call performs one RPC with a fresh context whose deadline is exactly
// Ta+remaining. Every request is recorded (GRPC-Timeout values, instant) and
// then handed to the backend.
func call(c clientCase, backend http.RoundTripper) *callObs {
	o := &callObs{}
	finished := make(chan struct{})
	var once sync.Once
	rt := common.RT(func(r *http.Request) (*http.Response, error) {
		defer once.Do(func() { close(finished) })
		o.Tb = time.Now()
		o.Values = timeoutValues(r.Header)
		o.Called = true
		return backend.RoundTrip(r)
	})
	u, _ := url.Parse("http://example.test/")
	ch := &httpgrpc.Channel{Transport: rt, BaseURL: u}
	var opts []grpc.CallOption
	if c.Creds != "" {
		opts = append(opts, grpc.PerRPCCredentials(slowCreds{delay: time.Duration(c.CredsDelayNs), o: o}))
	}
	guard(c.name(), func() {
		defer func() {
			if p := recover(); p != nil {
				o.Panic = fmt.Sprint(p)
			}
		}()
		cur, curCall = &o.H, o
		defer func() { cur, curCall = nil, nil }()
		ctx, cancel := context.WithCancel(context.Background())
		defer cancel()
		if c.MDKey != "" {
			ctx = metadata.NewOutgoingContext(ctx, metadata.MD{c.MDKey: append([]string(nil), c.MDVals...)})
		}
		o.Ta = time.Now()
		if !c.NoDeadline {
			o.Dl = o.Ta.Add(time.Duration(c.RemainingNs))
			var c2 context.CancelFunc
			ctx, c2 = context.WithDeadline(ctx, o.Dl)
			defer c2()
		}
		if c.Path == "stream" {
			cs, err := ch.NewStream(ctx, bidiDesc, "/t.S/B", opts...)
			if err != nil {
				o.Err = err
				o.After = time.Now()
				return
			}
			cs.CloseSend()
			// the round trip happens on the library's goroutine and is made
			// unconditionally; wait until it is over (RecvMsg alone may return on
			// an expired context while the request is still on its way)
			<-finished
			var m wrapperspb.StringValue
			for {
				if err := cs.RecvMsg(&m); err != nil {
					if err != io.EOF {
						o.Err = err
					}
					break
				}
			}
		} else {
			var out wrapperspb.StringValue
			o.Err = ch.Invoke(ctx, "/t.S/U", wrapperspb.String("req"), &out, opts...)
		}
		o.After = time.Now()
	})
	return o
}

// recordingBackend answers unary calls with a canned reply and fails stream
// calls right away: only the request matters.
func recordingBackend() http.RoundTripper {
	body, _ := proto.Marshal(wrapperspb.String("resp"))
	canned := common.CannedRT(200, http.Header{"Content-Type": []string{httpgrpc.UnaryRpcContentType_V1}}, body)
	return common.RT(func(r *http.Request) (*http.Response, error) {
		if strings.HasSuffix(r.URL.Path, "/B") {
			return nil, errRecorded
		}
		return canned.RoundTrip(r)
	})
}

// e2eBackend is common.HandlerRT(the server as the case mounts it) behind a
// RoundTripper that detaches the request from the caller's context, as any real
// connection does: otherwise the handler context would inherit the caller's
// deadline directly and "extended" could never be observed. The request context
// that the library's handler gets is a fresh one, with the deadline of its own
// that the case asks for.
func e2eBackend(pre preCase) http.RoundTripper {
	return common.RT(func(r *http.Request) (resp *http.Response, err error) {
		// for streams the round trip runs on a goroutine of the library: a panic
		// of the server must be caught here to be reported with its input
		o := curCall
		defer func() {
			if p := recover(); p != nil {
				if o != nil && o.Panic == "" {
					o.Panic = "server: " + fmt.Sprint(p)
				}
				resp, err = nil, errServerPanic
			}
		}()
		obs := &hObs{}
		if o != nil {
			obs = &o.H
		}
		return common.HandlerRT(mounted(pre, obs)).RoundTrip(r.WithContext(context.Background()))
	})
}

var (
	errServerPanic = errors.New("c09: the server panicked")
	curCall        *callObs // cases run strictly one at a time
)

func addBig(d time.Duration, e time.Duration) *big.Int {
	return new(big.Int).Add(big.NewInt(int64(d)), big.NewInt(int64(e)))
}

// notSent decides the case in which the request / the handler was never
// reached: fine once the caller's deadline (or the one that the request context
// on the server side had of its own) has passed, a spurious expiry when
// the library says DeadlineExceeded before it, and otherwise a problem of the
// harness.
func notSent(c clientCase, o *callObs, obs string) (string, string) {
	if !c.NoDeadline && !o.After.Before(o.Dl) {
		return "", obs
	}
	if o.H.Pre && !o.After.Before(o.H.Plo) {
		return "", obs // the server's own limit has passed
	}
	if !c.NoDeadline && status.Code(o.Err) == codes.DeadlineExceeded {
		return "spurious-expiry", obs
	}
	inconclusive("%s: %s", c.name(), obs)
	return "", obs
}

// remainingAt is the caller's remaining time at instant t (t_call <= t), exact
// also for deadlines whose distance does not fit the monotonic clock: the
// remaining duration at t_call is known exactly, and t - t_call is a difference
// of monotonic readings. Never below zero.
func remainingAt(c clientCase, o *callObs, t time.Time) *big.Int {
	r := addBig(time.Duration(c.RemainingNs), -t.Sub(o.Ta))
	if r.Sign() < 0 {
		return big.NewInt(0)
	}
	return r
}

// hasTimeoutMD: the caller's outgoing metadata carries a grpc-timeout entry.
func hasTimeoutMD(c clientCase) bool { return strings.EqualFold(c.MDKey, timeoutKey) }

func checkClient(c clientCase) (clause, obs string, nontrivial bool) {
	o := call(c, recordingBackend())
	if o.Panic != "" {
		return "panic", "panic: " + o.Panic, false
	}
	if !o.Called {
		cl, ob := notSent(c, o, fmt.Sprintf("RoundTrip never called, err=%v%s", o.Err, o.credsObs()))
		return cl, ob, false
	}
	obs = fmt.Sprintf("GRPC-Timeout=%q captured at t_call+%v%s", o.Values, o.Tb.Sub(o.Ta), o.credsObs())
	if c.NoDeadline {
		// "with no caller deadline the transport adds none": nothing may be sent
		// that a server would turn into a deadline (or reject as a malformed one)
		if len(o.Values) != 0 {
			return "header-without-deadline", obs, hasTimeoutMD(c)
		}
		return "", obs, hasTimeoutMD(c)
	}
	obs += fmt.Sprintf(", remaining at t_call=%v", time.Duration(c.RemainingNs))
	if len(o.Values) == 0 {
		return "missing-header", obs, true
	}
	// the handler of a zero-transit server gets t_send+E, with t_send in
	// [t_base, t_rt], t_base = the return of the credentials (t_call without):
	//   not later than caller+transit+1ms   <=  E <= remaining(t_base) + 1ms
	//   not earlier than caller-1ms         <=  E >= remaining(t_rt) - 1ms
	// Which of several GRPC-Timeout values a server reads is its own business
	// (this package's takes the first, grpc-go's the last): each must comply.
	upper := new(big.Int).Add(remainingAt(c, o, o.sendBase()), big.NewInt(int64(time.Millisecond)))
	lower := addBig(o.Dl.Sub(o.Tb), -time.Millisecond)
	obs += fmt.Sprintf(", allowed [%s, %s]ns", lower, upper)
	for _, v := range o.Values {
		f := parseRef(v)
		if !f.Valid {
			return "malformed-header", obs + fmt.Sprintf(", %q is not a timeout", v), true
		}
		if f.D.Cmp(upper) > 0 {
			return "extended", obs + fmt.Sprintf(", %q encodes %sns", v, f.D), true
		}
		if f.D.Cmp(lower) < 0 {
			return "shortened", obs + fmt.Sprintf(", %q encodes %sns", v, f.D), true
		}
	}
	return "", obs, true
}

// checkE2E: rel is the measured relation of the request context's own
// deadline to the caller's.
func checkE2E(c clientCase) (clause, obs string, nontrivial bool, rel string) {
	o := call(c, e2eBackend(c.preCase))
	if o.Panic != "" {
		return "panic", "panic: " + o.Panic, false, ""
	}
	if !o.H.Reached {
		cl, ob := notSent(c, o, fmt.Sprintf("handler never reached (RoundTrip called: %v), err=%v%s%s", o.Called, o.Err, o.credsObs(), o.H.preObs(o.Ta, "t_call")))
		return cl, ob, false, ""
	}
	obs = fmt.Sprintf("GRPC-Timeout=%q%s, handler reached at t_call+%v%s", o.Values, o.credsObs(), o.H.T.Sub(o.Ta), o.H.preObs(o.Ta, "t_call"))
	if c.NoDeadline {
		if o.H.Pre {
			rel = "present"
			if o.H.Phi.Before(o.Ta) {
				rel = "expired"
			}
		}
		switch {
		case beyondPre(&o.H):
			if o.H.HasDl {
				obs += ", handler deadline=" + fmtTime(o.H.Dl, o.Ta, "t_call")
			} else {
				obs += ", no deadline"
			}
			return beyondClause, obs, hasTimeoutMD(c) || o.H.Pre, rel
		case o.H.HasDl && (!o.H.Pre || o.H.Dl.Before(o.H.Plo)):
			return "deadline-added", obs + ", handler deadline=" + fmtTime(o.H.Dl, o.Ta, "t_call"), hasTimeoutMD(c) || o.H.Pre, rel
		case o.H.HasDl:
			return "", obs + ", handler deadline=" + fmtTime(o.H.Dl, o.Ta, "t_call"), true, rel
		}
		return "", obs + ", no deadline", hasTimeoutMD(c), rel
	}
	rel = preRel(&o.H, o.Ta, o.Dl, o.Dl)
	obs += fmt.Sprintf(", caller deadline=t_call+%v", time.Duration(c.RemainingNs))
	if !o.H.HasDl {
		return "no-deadline", obs + ", handler has no deadline", true, rel
	}
	obs += ", handler deadline=" + fmtTime(o.H.Dl, o.Ta, "t_call")
	// transit = from the latest instant at which the request was known not to
	// be built yet (t_base) to the instant inside the handler. A deadline that
	// had run out by t_base counts from t_base: whatever is sent then can give
	// the handler no more than the 1 ms granularity.
	base := o.sendBase()
	transit := o.H.T.Sub(base)
	from := o.Dl
	if from.Before(base) {
		from = base
	}
	// the earliest the handler's deadline may be: the caller's less the
	// granularity, or the request context's own if that comes first
	lower := o.Dl.Add(-time.Millisecond)
	if o.H.Pre && o.H.Plo.Before(lower) {
		lower = o.H.Plo
	}
	switch {
	case o.H.Dl.Before(lower) && o.H.Dl.Before(o.Ta):
		return "past-deadline", obs, true, rel
	case o.H.Dl.Before(lower):
		return "earlier-than-caller", obs, true, rel
	case o.H.Dl.After(from.Add(transit).Add(time.Millisecond)):
		return "later-than-caller", obs + fmt.Sprintf(", transit=%v", transit), true, rel
	case beyondPre(&o.H):
		return beyondClause, obs, true, rel
	}
	return "", obs, true, rel
}

// caseKey identifies a case of the client / e2e clauses.
func caseKey(c clientCase, creds, md, pre, mount string) string {
	return c.Kind + "|" + c.Path + "|" + c.Label + "|" + creds + "|" + md + "|" + pre + "|" + mount
}

// credsClass: how long credentials take is not part of a finding's identity,
// that they take time is.
func credsClass(c clientCase) string {
	switch {
	case c.Creds == "":
		return ""
	case c.CredsDelayNs == 0:
		return "instant"
	}
	return "slow"
}

func mdClass(c clientCase) string {
	switch {
	case c.MDKey == "":
		return ""
	case hasTimeoutMD(c):
		return timeoutKey
	}
	return "other"
}

// clientFingerprint names the case by (clause, path, duration) and by the
// classes of the further dimensions, each only if it is needed for the
// finding: a class is left out when the same case without that dimension (which
// ran earlier, simplest first) broke the same clause. failed records that.
func clientFingerprint(c clientCase, clause string, failed map[string]bool) string {
	cr, md := credsClass(c), mdClass(c)
	cr0, md0 := cr, md
	if failed != nil {
		failed[caseKey(c, cr, md, c.Pre, c.Mount)+"|"+clause] = true
		if cr != "" && failed[caseKey(c, "", md, c.Pre, c.Mount)+"|"+clause] {
			cr = ""
		}
		if md != "" && failed[caseKey(c, cr, "", c.Pre, c.Mount)+"|"+clause] {
			md = ""
		}
	}
	pt := preTag(c.preCase, c.nominalRel(), clause, func(pre, mount string) string { return caseKey(c, cr0, md0, pre, mount) }, failed)
	l := "remaining=" + c.Label
	if c.NoDeadline {
		l = "no-deadline"
	}
	if cr != "" {
		l += "|creds=" + cr
	}
	if md != "" {
		l += "|md=" + md
	}
	return fmt.Sprintf("C09|%s|%s|%s%s|%s", c.Kind, c.Path, l, pt, clause)
}

func preName(p preCase) string {
	if p.Pre == "" {
		return ""
	}
	return ", request context deadline " + p.label()
}

// ---------------------------------------------------------------- main

func main() {
	debug.SetMemoryLimit(2 << 30)
	rep := vlib.NewReporter("C09")
	if p := common.Arg("replay"); p != "" {
		var probe struct {
			Kind string `json:"kind"`
		}
		if err := common.LoadReplay(p, &probe); err != nil {
			inconclusive("cannot read replay file: %v", err)
		}
		var clause, obs string
		switch probe.Kind {
		case "server":
			var c serverCase
			common.LoadReplay(p, &c)
			clause, obs, _, _, _ = checkServer(c)
		case "client":
			var c clientCase
			common.LoadReplay(p, &c)
			clause, obs, _ = checkClient(c)
		case "e2e":
			var c clientCase
			common.LoadReplay(p, &c)
			clause, obs, _, _ = checkE2E(c)
		default:
			inconclusive("unknown replay kind %q", probe.Kind)
		}
		fmt.Printf("replay: clause=%q observed: %s\n", clause, obs)
		if clause != "" {
			fmt.Printf("VIOLATION property=C09 replay=%s\n", p)
			os.Exit(1)
		}
		os.Exit(0)
	}

	thorough := rep.Tier == "thorough"
	evals := 0
	distinct := map[string]bool{}
	var samples []interface{}
	sample := func(c interface{}, obs string) {
		samples = append(samples, map[string]interface{}{"case": c, "observed": obs})
	}
	wantSample := map[string]bool{"<absent>": true, "100m": true, "1S": true, "99999999H": true, "2562047H": true, "9223372036854775807n": true, "-1S": true, "5": true,
		"5\xb5": true, "100\xff": true, "5\x00": true, "5\u00b5": true, "1\uff150S": true, "\x800S": true}
	wantWireSample := map[string]bool{"100m": true, "5\xb5": true, "100\xff": true, "5\x00": true, "5S ": true, "5S\n": true, "1\xb50S": true}

	// ---- server clause
	headers := serverGrammar(thorough)
	nValid := 0
	for _, h := range headers {
		if parseRef(h).Valid {
			nValid++
		}
	}
	// the request context's own deadline, simplest first: none, then every value
	// as a plain context deadline, then behind http.TimeoutHandler
	serverPres := append([]preCase{noPre}, allPres()...)
	failed := map[string]bool{}
	relCount := map[string]int{}
	for _, pre := range serverPres {
		for _, kind := range []string{"unary", "stream"} {
			c := serverCase{Engine: "E2", Kind: "server", Handler: kind, Absent: true, preCase: pre}
			evals++
			clause, obs, _, _, _ := checkServer(c)
			if kind == "unary" && (pre.Pre == "" || pre.Pre == "1h") {
				sample(c, obs)
			}
			if clause != "" {
				rep.Violation(serverFingerprint(c, clause, failed), fmt.Sprintf("GRPC-Timeout absent (%s handler)%s: %s: %s", kind, preName(pre), clause, obs), c)
			}
		}
		for _, h := range headers {
			for _, kind := range []string{"unary", "stream"} {
				c := serverCase{Engine: "E2", Kind: "server", Handler: kind, Header: h, preCase: pre}
				evals++
				clause, obs, reached, rel, _ := checkServer(c)
				if reached {
					distinct["server|"+kind+"|"+h+"|"+pre.label()] = true
					if rel != "" && parseRef(h).Valid {
						relCount["server|"+rel]++
					}
				}
				if kind == "unary" && (pre.Pre == "" && wantSample[h] || pre.Pre != "" && (h == "1S" || h == "2562047H" && pre.Pre == "200y" && pre.Mount == mountCtx)) {
					sample(c, obs)
				}
				if clause != "" {
					rep.Violation(serverFingerprint(c, clause, failed), fmt.Sprintf("GRPC-Timeout=%q (%s handler)%s: %s: %s", h, kind, preName(pre), clause, obs), c)
				}
			}
		}
	}

	// ---- server clause once more, over the wire: every string of the grammar
	// through a net/http server; the strings with the swept byte in the unit
	// position crossed with every request context deadline, the others without
	calibrateWire()
	wireCount := map[string]int{}
	wireStrings := map[string]bool{}
	for _, pre := range serverPres {
		for _, kind := range []string{"unary", "stream"} {
			c := serverCase{Engine: "E2", Kind: "server", Handler: kind, Absent: true, Via: viaWire, preCase: pre}
			evals++
			clause, obs, _, _, _ := checkServer(c)
			if kind == "unary" && pre.Pre == "" {
				sample(c, obs)
			}
			if clause != "" {
				rep.Violation(serverFingerprint(c, clause, failed), fmt.Sprintf("GRPC-Timeout absent (%s handler, over the wire)%s: %s: %s", kind, preName(pre), clause, obs), c)
			}
		}
		for _, h := range headers {
			if pre.Pre != "" && !unitPosition[h] {
				continue
			}
			for _, kind := range []string{"unary", "stream"} {
				c := serverCase{Engine: "E2", Kind: "server", Handler: kind, Header: h, Via: viaWire, preCase: pre}
				evals++
				clause, obs, reached, rel, wi := checkServer(c)
				switch {
				case wi.Refused:
					wireCount["refused_by_net_http"]++
				case wi.Altered:
					wireCount["altered_by_net_http"]++
				default:
					wireCount["passed_on_unchanged"]++
				}
				if reached {
					distinct["server|wire|"+kind+"|"+h+"|"+pre.label()] = true
					wireStrings[h] = true
					if rel != "" && parseRef(h).Valid {
						relCount["server|"+rel]++
					}
				}
				if kind == "unary" && pre.Pre == "" && wantWireSample[h] {
					sample(c, obs)
				}
				if clause != "" {
					rep.Violation(serverFingerprint(c, clause, failed), fmt.Sprintf("GRPC-Timeout=%q (%s handler, over the wire)%s: %s: %s", h, kind, preName(pre), clause, obs), c)
				}
			}
		}
	}

	// ---- client and end-to-end clauses
	rems := remainingGrammar(thorough)
	quickRems := map[string]bool{}
	for _, r := range remainingGrammar(false) {
		quickRems[r.Label] = true
	}
	// the further dimensions, simplest first: the plain call; then every
	// (credentials in {none, at once}) x (metadata) pair; then credentials that
	// take time x the bracketing metadata values
	type dims struct {
		cr       credsDim
		md       mdDim
		baseOnly bool // only the durations of the quick tier
	}
	var combos []dims
	combos = append(combos, dims{cr: noCreds})
	for _, cr := range []credsDim{noCreds, instantCreds} {
		for _, md := range mdGrammar {
			if cr.Delay < 0 && md.Key == "" {
				continue
			}
			combos = append(combos, dims{cr: cr, md: md})
		}
	}
	for _, cr := range slowCredsQuick {
		for _, md := range mdGrammarSlow {
			combos = append(combos, dims{cr: cr, md: md})
		}
	}
	if thorough {
		for _, cr := range slowCredsExtra {
			combos = append(combos, dims{cr: cr, baseOnly: true})
		}
	}
	// end to end, each of these is crossed with the request context's own
	// deadline on the server side: all values and both mounts for credentials
	// {none, at once} x metadata; the plain context deadlines for the 3 ms
	// credentials without metadata (every such case costs its delay on the clock)
	presFor := func(kind string, dm dims) []preCase {
		out := []preCase{noPre}
		switch {
		case kind != "e2e" || dm.baseOnly:
		case dm.cr.Delay <= 0:
			out = append(out, allPres()...)
		case dm.cr.Label == slowCredsQuick[0].Label && dm.md.Key == "":
			out = append(out, ctxPres()...)
		}
		return out
	}
	slowMeasured, mdWithDl, mdWithoutDl, credsConsulted := 0, 0, 0, 0
	sampled := map[string]bool{}
	e2eCombos := 0
	for _, kind := range []string{"client", "e2e"} {
		for _, path := range []string{"unary", "stream"} {
			for _, dm := range combos {
				for _, pre := range presFor(kind, dm) {
					if kind == "e2e" && path == "unary" {
						e2eCombos++
					}
					for i := -1; i < len(rems); i++ {
						c := clientCase{Engine: "E2", Kind: kind, Path: path, MDKey: dm.md.Key, MDVals: dm.md.Vals, preCase: pre}
						if dm.cr.Delay >= 0 {
							c.Creds, c.CredsDelayNs = dm.cr.Label, int64(dm.cr.Delay)
						}
						if i < 0 {
							c.NoDeadline, c.Label = true, "none"
						} else {
							c.RemainingNs, c.Label = int64(rems[i].D), rems[i].Label
						}
						if dm.baseOnly && i >= 0 && !quickRems[c.Label] {
							continue
						}
						evals++
						var clause, obs, rel string
						var nontrivial bool
						if kind == "client" {
							clause, obs, nontrivial = checkClient(c)
						} else {
							clause, obs, nontrivial, rel = checkE2E(c)
						}
						if nontrivial {
							distinct[kind+"|"+path+"|"+c.Label+"|"+c.Creds+"|"+c.md().label()+"|"+pre.label()] = true
							if rel != "" {
								relCount["e2e|"+rel]++
							}
							if c.Creds != "" && strings.Contains(obs, "credentials consulted") {
								credsConsulted++
								if c.CredsDelayNs > 0 {
									slowMeasured++
								}
							}
							if hasTimeoutMD(c) {
								if c.NoDeadline {
									mdWithoutDl++
								} else {
									mdWithDl++
								}
							}
						}
						plainSample := c.Pre == "" && c.Creds == "" && c.MDKey == "" && (c.Label == "none" || c.Label == "100us" || c.Label == "1.5ms" || c.Label == "1h" || c.Label == "max")
						preSample := c.Pre != "" && c.Creds == "" && c.MDKey == "" && (c.Label == "none" && c.Pre == "1h" || c.Label == "10ms" || c.Label == "290y" && c.Pre == "200y" && c.Mount == mountCtx)
						dimSample := c.Pre == "" && (c.Label == "none" || c.Label == "10ms" || c.Label == "1h") &&
							(c.Creds == "30ms" && c.MDKey == "" || c.Creds == "" && (c.md().label() == timeoutKey+"=1n" || c.md().label() == timeoutKey+"=1H,1n") ||
								c.Creds == "3ms" && c.md().label() == timeoutKey+"=1H")
						if path == "unary" && (plainSample || dimSample || preSample) && !sampled[c.name()] {
							sampled[c.name()] = true
							sample(c, obs)
						}
						if clause != "" {
							rep.Violation(clientFingerprint(c, clause, failed), fmt.Sprintf("%s: %s: %s", c.name(), clause, obs), c)
						}
					}
				}
			}
		}
	}

	os.Exit(rep.Finish("exploration", map[string]interface{}{
		"evaluations":         evals,
		"distinct_nontrivial": len(distinct),
		"rule": "server: every string of the grammar (" + grammarText(thorough) + ") as the GRPC-Timeout value, plus the header absent, x {unary, streaming} handler x the deadline on the request context, (direct) through httpgrpc.Server.ServeHTTP on a recorder with the string placed in the header map as it is, and (wire) written byte by byte as the field value of a request to a net/http server (in-memory connection) in front of the same handler, the reply parsed with http.ReadResponse: every string without a request context deadline, and the strings with the swept byte in the unit position crossed with every request context deadline; over the wire the oracle judges by the value net/http handed to the handler (wire_* count what net/http did with the bytes: refused = answered 400 itself without calling the handler, altered = trimmed or split, passed on unchanged), and a reply that cannot be read is a finding as soon as the handler was called; " +
			"non-trivial = the handler was given a non-empty value (the parse branch of contextFromHeaders runs) and was reached so that ctx.Deadline() was observed; distinct by (direct / wire, handler kind, string, request context). " +
			"client / e2e: every remaining duration of the grammar (" + remainingText(thorough) + ") plus no deadline x {Invoke, NewStream} through a recording RoundTripper, and through HandlerRT(server), " +
			"crossed with per-RPC " + credsText(thorough) + " and " + mdText() + ": the full cross product for credentials {none, at once} x metadata; credentials that take time (each case costs its delay on the clock) x metadata {none, " + mdGrammarSlow[1].label() + ", " + mdGrammarSlow[2].label() + "}, swept over every duration; " +
			"end to end each of these is crossed with the deadline on the server's request context: the full cross product (every value, both ways of putting it there) for credentials {none, at once} x metadata x duration; the plain context deadlines for credentials taking 3 ms without metadata x duration; none for the other slow credentials; " +
			"non-trivial = the context had a deadline (the encoding branch of headersFromContext runs) or the metadata carried a grpc-timeout entry (the entry reaches the header map) or the request context had a deadline, and the RoundTripper / the handler was reached; distinct by (clause, path, duration, credentials, metadata, request context). " +
			"request_context_deadline_relation counts the non-trivial cases by clause and by the measured relation of the request context's deadline to the caller's (server: t0+D for a valid header): expired = before the case began, earlier / later = outside the bracket of the caller's on that side, straddling = inside it. " +
			"slow_credentials_measured counts the non-trivial cases in which GetRequestMetadata was entered and left with at least the delay between the two recorded instants; grpc_timeout_metadata_with/without_deadline count the non-trivial cases with such an entry.",
		"server_strings":                                        len(headers),
		"server_strings_valid":                                  nValid,
		"byte_alphabet_tokens":                                  len(positionTokens()),
		"byte_alphabet_strings_new":                             len(byteClass),
		"byte_alphabet_unit_position_strings":                   len(unitPosition),
		"wire_cases":                                            wireCount,
		"wire_strings_reaching_the_parser":                      len(wireStrings),
		"remaining_durations":                                   len(rems),
		"credentials_metadata_combinations":                     len(combos),
		"request_context_deadlines":                             len(serverPres),
		"e2e_credentials_metadata_request_context_combinations": e2eCombos,
		"request_context_deadline_relation":                     relCount,
		"metadata_values":                                       len(mdGrammar),
		"credentials_consulted":                                 credsConsulted,
		"slow_credentials_measured":                             slowMeasured,
		"grpc_timeout_metadata_with_deadline":                   mdWithDl,
		"grpc_timeout_metadata_without_deadline":                mdWithoutDl,
		"samples":                                               samples,
		"exhaustive":                                            true,
	}, []string{
		"server side, direct: on httptest.ResponseRecorder with the string put into the header map as it is, so the parser sees every string of the grammar raw, including those net/http would refuse or trim; server side, wire: net/http's server reads the field (trimming of optional white space, refusal of control bytes, line feeds ending the field) over an in-memory connection (net.Pipe behind a net.Listener, HTTP/1.1, one request per connection, no body), no socket and no TLS; client side on a synthetic RoundTripper",
		"the byte alphabet (every octet 0x00..0xFF and five multi-byte UTF-8 sequences) is swept through one position at a time of otherwise well-formed strings: the unit position after 12 digit strings, each digit of 1-3 digit values x 7 suffixes, and digits of three over-long values (quick: first / middle / last digit, unit S; thorough: every digit, suffixes S n x); two odd bytes at once are only met in the older hand-written strings. These strings are crossed with handler kind and every request context deadline when the handler is called directly; findings on strings of this part that are not timeouts are named by the class of the byte (NUL, HT, LF, CR, other control, SP, digit, upper, lower, punctuation, DEL, 0x80-0xBF, 0xC0-0xF7, 0xF8-0xFF, or the UTF-8 sequence) and its position, not by the byte",
		"end to end, the request is detached from the caller's context before it reaches the server (as over a real connection), so the handler's deadline comes from the GRPC-Timeout header and from the deadline the case puts on the server's request context alone",
		"the request context's own deadline is an absolute distance from the instant the request context is made (1 s ago, 50 ms, 1 h, 200 y), not a function of the caller's deadline: it is earlier than the caller's for the longer and later for the shorter members of the header / duration grammars, which the measured relation counts show; a value within microseconds of the caller's is only met by accident (counted as straddling)",
		"with a deadline on the request context the handler's deadline must still not be later than the caller's plus transit plus 1 ms, must not be later than the request context's (context deadlines only shrink; with http.TimeoutHandler that deadline is known only to lie between the instants before TimeoutHandler and at the entry of the wrapped handler, each plus the limit), and must not be earlier than the earlier of the two less the granularity; with no caller deadline it must be the request context's",
		"http.TimeoutHandler with a limit that has already passed is not enumerated (it answers 503 itself while the handler runs, which of the two answers wins is not defined); the check waits for the wrapped handler to return before it reads what the handler recorded",
		"deadlines 292 years or more ahead lose their monotonic clock reading inside package time; for those cases the bracketing comparison falls back to wall-clock readings and assumes the wall clock is not stepped backwards during the few microseconds of the case",
		"client-side oracle demands what the statement says (within the 1 ms granularity either way, measured against instants around the call), not the particular rounding mode or unit",
		"transit time starts when the per-RPC credentials have answered (grpc-go, the reference, computes the timeout it sends after GetRequestMetadata returned); the time credentials take is produced with time.Sleep inside GetRequestMetadata but judged only by the instants recorded at its entry and return, there is no tolerance anywhere",
		"a deadline that runs out while the credentials are being obtained: the request may not be sent at all, or sent with the minimal timeout; the handler then may get no more than the 1 ms granularity counted from the return of the credentials",
		"a grpc-timeout entry supplied by the credentials themselves (rather than by the caller's metadata) is not enumerated: grpc-go sends such an entry after its own and its server lets the last one win, so the reference does not define it; upper-case spellings of the key are not valid metadata keys for the reference either",
		"when several GRPC-Timeout values are sent the client clause demands that each of them complies (servers differ in which one they read); the end-to-end clause judges what this package's server makes of them",
	}))
}
